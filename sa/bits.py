"""E-BITS: bit-provenance abstract interpretation.

A value of width W is a list of W cells (LSB first).  A cell is
  0 | 1 | ('i', sym, k)  copy of bit k of input sym | ('n', sym, k) its negation | 'T' unknown.
Anything the interpreter does not understand becomes 'T', which can only make
a check fail, never pass.  No search and no solver: one pass over the AST."""
from ast_ import *
from path import if_parts, falls_through, for_parts, while_parts

T = 'T'
M = 'M'      # a definite function of two or more different input bits (and / or of distinct inputs): never equal to a single input bit


class BV:
    __slots__ = ('w', 'b', 'signed')

    def __init__(self, w, b, signed=False):
        self.w, self.b, self.signed = w, list(b), signed
        assert len(self.b) == w, (w, len(self.b))

    def __repr__(self):
        return 'BV%d[%s]' % (self.w, ' '.join(cell_str(c) for c in reversed(self.b)))


def cell_str(c):
    if c in (0, 1):
        return str(c)
    if c == T:
        return '?'
    if c == M:
        return '(a mix of several input bits)'
    if c[0] == 'x':
        return '(%s%s)' % ('1^' if c[2] else '', '^'.join(sorted(cell_str(a) for a in c[1]))[:120])
    nm = c[1] if isinstance(c[1], str) else ('/'.join(map(str, c[1])) if c[1] and c[1][0] == 'mem' else '%s(...)' % (c[1][0],))
    return '%s%s.%d' % ('~' if c[0] == 'n' else '', nm, c[2])


def const_bv(v, w, signed=False):
    return BV(w, [(v >> i) & 1 for i in range(w)], signed)


def sym_bv(name, w, signed=False, free_bits=None):
    fb = w if free_bits is None else free_bits
    return BV(w, [('i', name, k) if k < fb else 0 for k in range(w)], signed)


def top_bv(w, signed=False):
    return BV(w, [T] * w, signed)


def _to_xs(c):
    """(set of positive atoms, constant) of a cell that is an XOR of input bits, else None"""
    if c == 0:
        return frozenset(), 0
    if c == 1:
        return frozenset(), 1
    if c == T or c == M:
        return None
    if c[0] == 'i':
        return frozenset([c]), 0
    if c[0] == 'n':
        return frozenset([('i', c[1], c[2])]), 1
    if c[0] == 'x':
        return c[1], c[2]
    return None


def _from_xs(S, inv):
    if not S:
        return inv
    if len(S) == 1:
        a = next(iter(S))
        return a if inv == 0 else ('n', a[1], a[2])
    return ('x', S, inv)


def c_not(a):
    if a == 0:
        return 1
    if a == 1:
        return 0
    if a == T:
        return T
    if a == M:
        return M
    if a[0] == 'x':
        return ('x', a[1], 1 - a[2])
    return ('n' if a[0] == 'i' else 'i', a[1], a[2])


def _plain(c):
    """an input bit or its negation, of a named input (not an uninterpreted operation result)"""
    return isinstance(c, tuple) and c[0] in ('i', 'n') and isinstance(c[1], str)


def ripple(a, b, w, sub):
    """a + b or a - b over cells, bit by bit with the carry / borrow expressed in the cell algebra"""
    out = []
    carry = 0
    for j in range(w):
        x, y = a[j], b[j]
        out.append(c_xor(c_xor(x, y), carry))
        if sub:
            # borrow' = (~x & y) | (~(x ^ y) & borrow)
            carry = c_or(c_and(c_not(x), y), c_and(c_not(c_xor(x, y)), carry))
        else:
            carry = c_or(c_and(x, y), c_and(c_xor(x, y), carry))
    return out


def c_and(a, b):
    if a == 0 or b == 0:
        return 0
    if a == 1:
        return b
    if b == 1:
        return a
    if a == T or b == T or a == M or b == M:
        return T
    if a == b:
        return a
    if a == c_not(b):
        return 0
    return M if _plain(a) and _plain(b) else T


def c_or(a, b):
    if a == 1 or b == 1:
        return 1
    if a == 0:
        return b
    if b == 0:
        return a
    if a == T or b == T or a == M or b == M:
        return T
    if a == b:
        return a
    if a == c_not(b):
        return 1
    return M if _plain(a) and _plain(b) else T


def c_xor(a, b):
    if a == 0:
        return b
    if b == 0:
        return a
    if a == 1:
        return c_not(b)
    if b == 1:
        return c_not(a)
    if a == T or b == T or a == M or b == M:
        return T
    if a == b:
        return 0
    if a == c_not(b):
        return 1
    # GF(2)-affine combination of input bits: kept exactly (CRCs, checksums, Gray codes ...)
    xa, xb = _to_xs(a), _to_xs(b)
    if xa is None or xb is None:
        return T
    return _from_xs(xa[0] ^ xb[0], xa[1] ^ xb[1])


def tab_cells(base, k, idx_cells, w):
    """bits of base[k + idx] for a non-constant index: a function of the significant index bits"""
    idx_cells = list(idx_cells)
    hi = max((i + 1 for i, c_ in enumerate(idx_cells) if c_ != 0), default=1)
    return [('i', ('tab', base, k, tuple(idx_cells[:hi])), i) for i in range(w)]


def u_op(name, a, b, w, commutative=True):
    """result bits of an operation the lattice does not interpret (multiplication, addition of two
    non-constants, a table lookup at a non-constant index): fresh input bits keyed by the operand
    cells, so two computations agree iff they apply the same operation to the same operands"""
    ka, kb = tuple(a), tuple(b)
    if T in ka or T in kb:
        return [T] * w
    if commutative and repr(kb) < repr(ka):
        ka, kb = kb, ka
    key = (name, ka, kb)
    return [('i', key, i) for i in range(w)]


def subst(cell, x, val):
    """cell with input cell x replaced by the constant val."""
    if cell in (0, 1, T, M):
        return cell
    if cell == x:
        return val
    if cell == c_not(x):
        return 1 - val
    if cell[0] == 'x':
        px = x if x[0] == 'i' else ('i', x[1], x[2]) if x[0] == 'n' else None
        if px is not None and px in cell[1]:
            v = val if x[0] == 'i' else 1 - val
            return _from_xs(cell[1] - {px}, cell[2] ^ v)
    return cell


def c_ite(x, t, e):
    """x ? t : e for a condition that is a single cell x."""
    if x == 1:
        return t
    if x == 0:
        return e
    if x == T:
        return t if t == e else T
    t1 = subst(t, x, 1)
    e0 = subst(e, x, 0)
    if t1 == e0:
        return t1
    if t1 == 1 and e0 == 0:
        return x
    if t1 == 0 and e0 == 1:
        return c_not(x)
    return T


def bv_const(v):
    """integer value of a fully constant BV (two's complement if signed), else None"""
    if not isinstance(v, BV):
        return None
    if any(c not in (0, 1) for c in v.b):
        return None
    x = sum(c << i for i, c in enumerate(v.b))
    if v.signed and v.w > 1 and v.b[-1] == 1:
        x -= 1 << v.w
    return x


def width_of_type(t):
    i = int_type_info(t)
    if i:
        return i
    return None


class Unsupported(Exception):
    pass


class Interp:
    def __init__(self, unit, max_depth=6):
        self.unit = unit
        self.max_depth = max_depth
        self.notes = []     # diagnostics (UB shifts, unsupported nodes)
        self.mem_syms = {}

    def note(self, n, msg):
        self.notes.append('%s: %s' % (loc_str(n), msg))

    # ---- helpers
    def cast(self, v, t):
        info = width_of_type(t)
        if info is None:
            return v
        w, signed = info
        if w == 1:
            # conversion to bool: nonzero test
            nz = [c for c in v.b if c != 0]
            if not nz:
                return BV(1, [0])
            if len(nz) == 1:
                return BV(1, [nz[0]])
            if any(c == 1 for c in nz):
                return BV(1, [1])
            return BV(1, [T])
        if w <= v.w:
            return BV(w, v.b[:w], signed)
        ext = v.b[-1] if v.signed else 0
        return BV(w, v.b + [ext] * (w - v.w), signed)

    def truth(self, v):
        """single cell deciding whether v != 0, or T."""
        nz = [c for c in v.b if c != 0]
        if not nz:
            return 0
        if any(c == 1 for c in nz):
            return 1
        if len(nz) == 1:
            return nz[0]
        # all cells the same input bit
        if all(c == nz[0] for c in nz):
            return nz[0]
        return T

    def eval(self, n, env, depth=0):
        n = strip(n, casts=False)
        k = n.get('kind')
        t = dtype(n)
        info = width_of_type(t)
        iv = int_value(n) if k not in ('DeclRefExpr',) else None
        if iv is not None and info is not None:
            self._check_shift_ub(n)
            return const_bv(iv & ((1 << info[0]) - 1), info[0], info[1])
        if k == 'ImplicitCastExpr' or k in ('CStyleCastExpr', 'CXXStaticCastExpr', 'CXXFunctionalCastExpr'):
            ck = n.get('castKind')
            v = self.eval(n['inner'][0], env, depth)
            if ck in ('LValueToRValue', 'NoOp'):
                return v
            if ck in ('IntegralCast', 'IntegralToBoolean'):
                return self.cast(v, t)
            if ck in ('FloatingToIntegral', 'IntegralToFloating', 'FloatingCast'):
                self.note(n, 'numeric float/integer conversion')
                return top_bv(info[0] if info else v.w)
            return top_bv(info[0] if info else v.w)
        if k == 'DeclRefExpr':
            rd = n.get('referencedDecl') or {}
            if rd.get('id') in env:
                return env[rd['id']]
            return top_bv(info[0] if info else 64)
        if k == 'ParenExpr':
            return self.eval(n['inner'][0], env, depth)
        if k == 'BinaryOperator':
            op = n.get('opcode')
            if op in ('&', '|', '^'):
                a = self.eval(n['inner'][0], env, depth)
                b = self.eval(n['inner'][1], env, depth)
                w = info[0] if info else max(a.w, b.w)
                a, b = self.cast(a, t), self.cast(b, t)
                f = {'&': c_and, '|': c_or, '^': c_xor}[op]
                return BV(w, [f(x, y) for x, y in zip(a.b, b.b)], info[1] if info else False)
            if op in ('<<', '>>'):
                a = self.eval(n['inner'][0], env, depth)
                sh = int_value(n['inner'][1])
                if sh is None:
                    sh = bv_const(self.eval(n['inner'][1], env, depth))
                if sh is None:
                    return top_bv(a.w, a.signed)
                if sh < 0 or sh >= a.w:
                    self.note(n, 'shift by %d is undefined for a %d-bit operand' % (sh, a.w))
                    return top_bv(a.w, a.signed)
                if op == '<<':
                    return BV(a.w, [0] * sh + a.b[:a.w - sh], a.signed)
                fill = a.b[-1] if a.signed else 0
                return BV(a.w, a.b[sh:] + [fill] * sh, a.signed)
            if op == ',':
                return self.eval(n['inner'][1], env, depth)
            if op in ('&&', '||'):
                a = self.truth(self.eval(n['inner'][0], env, depth))
                # short circuit: the right operand is not evaluated when the left decides
                if op == '&&' and a == 0:
                    return BV(1, [0])
                if op == '||' and a == 1:
                    return BV(1, [1])
                b = self.truth(self.eval(n['inner'][1], env, depth))
                return BV(1, [c_and(a, b) if op == '&&' else c_or(a, b)])
            if op in ('+', '-', '*', '/', '%', '<', '>', '<=', '>=') or (op in ('==', '!=') ):
                a = self.eval(n['inner'][0], env, depth)
                b = self.eval(n['inner'][1], env, depth)
                x, y = bv_const(a), bv_const(b)
                if x is not None and y is not None and info is not None:
                    try:
                        r = {'+': lambda: x + y, '-': lambda: x - y, '*': lambda: x * y,
                             '/': lambda: (abs(x) // abs(y)) * (1 if (x < 0) == (y < 0) else -1),
                             '%': lambda: (abs(x) % abs(y)) * (1 if x >= 0 else -1),
                             '<': lambda: int(x < y), '>': lambda: int(x > y), '<=': lambda: int(x <= y), '>=': lambda: int(x >= y),
                             '==': lambda: int(x == y), '!=': lambda: int(x != y)}[op]()
                        return const_bv(r & ((1 << info[0]) - 1), info[0], info[1])
                    except ZeroDivisionError:
                        return top_bv(info[0], info[1])
                if op in ('+', '-') and info is not None:
                    a2, b2 = self.cast(a, t), self.cast(b, t)
                    return BV(info[0], ripple(a2.b, b2.b, info[0], op == '-'), info[1])
            if op in ('==', '!='):
                a = self.eval(n['inner'][0], env, depth)
                b = self.eval(n['inner'][1], env, depth)
                # comparison with zero
                for x, y in ((a, b), (b, a)):
                    if all(c == 0 for c in y.b):
                        c = self.truth(x)
                        return BV(1, [c if op == '!=' else c_not(c)])
                return BV(1, [T])
            return top_bv(info[0] if info else 64)
        if k == 'UnaryOperator':
            op = n.get('opcode')
            if op == '~':
                a = self.eval(n['inner'][0], env, depth)
                return BV(a.w, [c_not(c) for c in a.b], a.signed)
            if op == '!':
                a = self.eval(n['inner'][0], env, depth)
                return BV(1, [c_not(self.truth(a))])
            if op == '+':
                return self.eval(n['inner'][0], env, depth)
            if op == '-':
                a = self.eval(n['inner'][0], env, depth)
                x = bv_const(a)
                if x is not None:
                    w_ = info[0] if info else a.w
                    return const_bv((-x) & ((1 << w_) - 1), w_, info[1] if info else a.signed)
                r_ = _neg_single_bit(a, info[0] if info else a.w, info[1] if info else a.signed)
                if r_ is not None:
                    return r_
            return top_bv(info[0] if info else 64)
        if k == 'ConditionalOperator':
            c = self.truth(self.eval(n['inner'][0], env, depth))
            a = self.eval(n['inner'][1], env, depth)
            b = self.eval(n['inner'][2], env, depth)
            w = info[0] if info else max(a.w, b.w)
            a, b = self.cast(a, t), self.cast(b, t)
            return BV(w, [c_ite(c, x, y) for x, y in zip(a.b, b.b)], info[1] if info else False)
        if k == 'ArraySubscriptExpr':
            base = canon(n['inner'][0])
            idx = canon(n['inner'][1])
            from guard import split_const
            ib, kk = split_const(idx)
            ci = bv_const(self.eval(n['inner'][1], env, depth)) if int_value(n['inner'][1]) is None else None
            if ci is not None:
                ib, kk = '0', ci
            w = info[0] if info else 8
            sym = ('mem', base, ib, kk)
            return BV(w, [('i', sym, b) for b in range(w)], info[1] if info else False)
        if k == 'CallExpr':
            d = callee_decl(n, self.unit)
            if d and body_of(d) is not None and depth < self.max_depth:
                args = call_args(n)
                ps = params_of(d)
                env2 = {}
                for p, a in zip(ps, args):
                    v = self.eval(a, env, depth)
                    env2[p['id']] = self.cast(v, dtype(p))
                r = self.eval_function(d, env2, depth + 1)
                if r is not None:
                    return r
            return top_bv(info[0] if info else 64)
        if k == 'CXXMemberCallExpr':
            d = callee_decl(n, self.unit)
            obj = member_call_object(n)
            if d and body_of(d) is not None and depth < self.max_depth and (obj is None or is_this(obj)):
                args = call_args(n)
                ps = params_of(d)
                env2 = dict((k_, v_) for k_, v_ in env.items() if isinstance(k_, tuple))
                ok = True
                for i, p in enumerate(ps):
                    if i < len(args) and args[i].get('kind') != 'CXXDefaultArgExpr':
                        env2[p['id']] = self.cast(self.eval(args[i], env, depth), dtype(p))
                        env2[('canon', p['id'])] = canon(args[i])
                    else:
                        ok = ok and False
                if ok:
                    r = self.eval_function(d, env2, depth + 1)
                    if r is not None:
                        return r
            return top_bv(info[0] if info else 64)
        return top_bv(info[0] if info else 64)

    def _check_shift_ub(self, n):
        for x in walk(n):
            if x.get('kind') == 'BinaryOperator' and x.get('opcode') in ('<<', '>>'):
                sh = int_value(x['inner'][1])
                wi = width_of_type(dtype(x))
                if sh is not None and wi and (sh < 0 or sh >= wi[0]):
                    self.note(x, 'shift by %d is undefined for a %d-bit operand' % (sh, wi[0]))

    # ---- function bodies: straight-line code with single-assignment locals,
    # `if (c) return a; return b;`
    def eval_function(self, f, env, depth=0):
        body = body_of(f)
        if body is None:
            return None
        rt = (f.get('type', {}).get('qualType') or '').split('(')[0].strip()
        r = self.eval_block(list(kids(body)), dict(env), depth)
        if r is None:
            return None
        # conversion to the return type is in the AST as an implicit cast on the return expression
        return r

    # ---- statement execution with if-conversion (locals only); raises Unsupported otherwise
    def exec_stmts(self, stmts, env, depth=0):
        for s in stmts:
            k = s.get('kind')
            if k == 'CompoundStmt':
                self.exec_stmts(list(kids(s)), env, depth)
                continue
            if k == 'NullStmt':
                continue
            if k == 'DeclStmt':
                for vd in kids(s):
                    if vd.get('kind') == 'VarDecl' and kids(vd):
                        env[vd['id']] = self.cast(self.eval(kids(vd)[-1], env, depth), dtype(vd))
                continue
            if k == 'IfStmt':
                cond, then, els = if_parts(s)
                c = self.truth(self.eval(cond, env, depth))
                e1 = dict(env)
                self.exec_stmts([then], e1, depth)
                e2 = dict(env)
                if els is not None and els.get('kind'):
                    self.exec_stmts([els], e2, depth)
                for key in set(e1) | set(e2):
                    a, b = e1.get(key), e2.get(key)
                    if a is None or b is None:
                        continue   # declared inside one branch only: out of scope afterwards
                    if c == 1:
                        env[key] = a
                    elif c == 0:
                        env[key] = b
                    elif a is b:
                        env[key] = a
                    else:
                        w = max(a.w, b.w)
                        env[key] = BV(w, [c_ite(c, x, y) for x, y in zip(a.b + [T] * (w - a.w), b.b + [T] * (w - b.w))], a.signed)
                continue
            e = strip(s, casts=False)
            ek = e.get('kind')
            if ek in ('BinaryOperator', 'CompoundAssignOperator') and e.get('opcode') in ('=', '|=', '&=', '^=', '<<=', '>>=', '+=', '-='):
                lhs = strip(e['inner'][0], casts=False)
                rd = ref_decl(lhs)
                if lhs.get('kind') != 'DeclRefExpr' or rd is None or rd.get('kind') not in ('VarDecl', 'ParmVarDecl'):
                    raise Unsupported('assignment to a non-local at %s' % loc_str(e))
                if e.get('opcode') == '=':
                    v = self.eval(e['inner'][1], env, depth)
                else:
                    ct = e.get('computeResultType') or e.get('type')
                    syn = {'kind': 'BinaryOperator', 'opcode': e['opcode'][:-1], 'type': ct, 'inner': e['inner'], 'range': e.get('range'), '_file': e.get('_file'), '_line': e.get('_line'), '_col': e.get('_col')}
                    if e['opcode'] in ('<<=', '>>='):
                        syn['type'] = e.get('computeLHSType') or ct
                    v = self.eval(syn, env, depth)
                env[rd['id']] = self.cast(v, dtype(lhs))
                continue
            if ek == 'UnaryOperator' and e.get('opcode') in ('++', '--'):
                lhs = strip(e['inner'][0], casts=False)
                rd = ref_decl(lhs)
                if rd is not None and rd.get('id') in env:
                    x = bv_const(env[rd['id']])
                    info = width_of_type(dtype(lhs))
                    if x is not None and info:
                        env[rd['id']] = const_bv((x + (1 if e['opcode'] == '++' else -1)) & ((1 << info[0]) - 1), info[0], info[1])
                    else:
                        env[rd['id']] = top_bv(env[rd['id']].w, env[rd['id']].signed)
                    continue
            raise Unsupported('statement %s at %s' % (ek, loc_str(e)))

    def eval_block(self, stmts, env, depth):
        for i, s in enumerate(stmts):
            k = s.get('kind')
            if k == 'DeclStmt':
                for vd in kids(s):
                    if vd.get('kind') == 'VarDecl' and kids(vd):
                        v = self.eval(kids(vd)[-1], env, depth)
                        env[vd['id']] = self.cast(v, dtype(vd))
                continue
            if k == 'ReturnStmt':
                if not kids(s):
                    return None
                return self.eval(kids(s)[0], env, depth)
            if k == 'CompoundStmt':
                return self.eval_block(list(kids(s)) + stmts[i + 1:], env, depth)
            if k == 'IfStmt':
                cond, then, els = if_parts(s)
                c = self.truth(self.eval(cond, env, depth))
                rest = stmts[i + 1:]
                ts = (list(kids(then)) if then.get('kind') == 'CompoundStmt' else [then])
                es = (list(kids(els)) if els is not None and els.get('kind') == 'CompoundStmt' else ([els] if els is not None else []))
                tv = self.eval_block(ts + (rest if falls_through(then) else []), dict(env), depth)
                ev = self.eval_block(es + (rest if (els is None or falls_through(els)) else []), dict(env), depth)
                def _throws_only(b):
                    return b is not None and not falls_through(b) and not any(x.get('kind') == 'ReturnStmt' for x in walk(b))
                if tv is None and _throws_only(then):
                    return ev
                if ev is None and els is not None and _throws_only(els):
                    return tv
                if tv is None or ev is None:
                    return None
                if c == 1:
                    return tv
                if c == 0:
                    return ev
                w = max(tv.w, ev.w)
                return BV(w, [c_ite(c, x, y) for x, y in zip(tv.b + [T] * (w - tv.w), ev.b + [T] * (w - ev.w))], tv.signed)
            # any other statement: unsupported
            if k in ('NullStmt',):
                continue
            # expression statements that assign locals make later reads unknown
            for x in walk(s):
                if x.get('kind') in ('BinaryOperator', 'CompoundAssignOperator') and x.get('opcode', '').endswith('=') and x.get('opcode') not in ('==', '!=', '<=', '>='):
                    rd = ref_decl(x['inner'][0])
                    if rd and rd.get('id') in env:
                        env[rd['id']] = top_bv(env[rd['id']].w, env[rd['id']].signed)
        return None


def expect_lanes(v, spec):
    """Compare a BV with a list of expected cells; returns list of mismatching bit
    positions with (got, want)."""
    bad = []
    for i, want in enumerate(spec):
        got = v.b[i] if i < v.w else None
        if got != want:
            bad.append((i, got, want))
    return bad


def _neg_single_bit(a, w, signed):
    """-(b << k) for a value whose only possibly-set bit is cell b at position k: bits k..w-1 all equal b"""
    nz = [i for i, c in enumerate(a.b[:w]) if c != 0]
    if len(nz) != 1:
        return None
    k = nz[0]
    cell = a.b[k]
    return BV(w, [0] * k + [cell] * (w - k), signed)


def describe_mismatch(bad, limit=4):
    return '; '.join('bit %d is %s, expected %s' % (i, cell_str(g) if g is not None else 'absent', cell_str(w)) for i, g, w in bad[:limit]) + (' (+%d more bits)' % (len(bad) - limit) if len(bad) > limit else '')


# --------------------------------------------------------------------------
# E-BITS v2: whole-function abstract execution (bit provenance + constants).
# Control flow must be decidable from constants (loop trip counts, template arguments, sizes fixed
# by the caller of the rule); data-dependent ifs without control transfers are if-converted;
# `if (...) throw` guards are assumed to pass (bounds are the business of E-GUARD).  Helper
# functions of the repository are inlined, pointers into a buffer are (base, index, displacement).

class Ptr:
    __slots__ = ('base', 'idx', 'k')

    def __init__(self, base, idx, k=0):
        self.base, self.idx, self.k = base, idx, k

    def __repr__(self):
        return 'Ptr(%s,%s,%d)' % (self.base, self.idx, self.k)


class _Ret(Exception):
    def __init__(self, v):
        self.v = v


class _Brk(Exception):
    pass


class _Cont(Exception):
    pass


class BVExec(Interp):
    def __init__(self, unit, max_depth=6, max_iter=256):
        super().__init__(unit, max_depth)
        self.max_iter = max_iter

    # ---- pointers
    def ptr_of(self, n, env, depth=0):
        """Ptr value of a pointer-typed expression, or None"""
        n = strip(n, casts=False)
        while n is not None and n.get('kind') in ('ImplicitCastExpr', 'CStyleCastExpr', 'CXXStaticCastExpr', 'CXXReinterpretCastExpr', 'CXXConstCastExpr', 'ParenExpr', 'CXXFunctionalCastExpr') and kids(n):
            n = strip(kids(n)[0], casts=False)
        if n is None:
            return None
        k = n.get('kind')
        if k == 'DeclRefExpr':
            v = env.get((n.get('referencedDecl') or {}).get('id'))
            if isinstance(v, Ptr):
                return v
            if '*' in (qtype(n) or '') or '[' in (qtype(n) or ''):
                return Ptr(canon(n), '0', 0)
            return None
        if k == 'MemberExpr' and ('*' in (qtype(n) or '') or '[' in (qtype(n) or '')):
            return Ptr(canon(n), '0', 0)
        if k == 'BinaryOperator' and n.get('opcode') in ('+', '-') and '*' in (qtype(n) or ''):
            a, b = n['inner']
            pa = self.ptr_of(a, env, depth)
            other = b
            if pa is None:
                pa = self.ptr_of(b, env, depth)
                other = a
            if pa is None:
                return None
            c = bv_const(self.eval(other, env, depth))
            if c is not None:
                return Ptr(pa.base, pa.idx, pa.k + (c if n['opcode'] == '+' else -c))
            if pa.idx == '0' and n['opcode'] == '+':
                from guard import split_const
                o0 = strip(other)
                txt = canon(other)
                rd = ref_decl(o0) if o0 is not None and o0.get('kind') == 'DeclRefExpr' else None
                if rd is not None and ('canon', rd.get('id')) in env:
                    txt = env[('canon', rd['id'])]     # the caller's spelling of the argument
                ib, kk = split_const(txt)
                return Ptr(pa.base, ib, pa.k + kk)
            return None
        if k == 'UnaryOperator' and n.get('opcode') in ('++', '--') and '*' in (qtype(n) or ''):
            rd = ref_decl(kids(n)[0])
            cur = env.get((rd or {}).get('id'))
            if isinstance(cur, Ptr):
                new_ = Ptr(cur.base, cur.idx, cur.k + (1 if n['opcode'] == '++' else -1))
                env[rd['id']] = new_
                return cur if n.get('isPostfix') else new_
            return None
        if k == 'UnaryOperator' and n.get('opcode') == '&':
            s0 = strip(kids(n)[0])
            if s0.get('kind') == 'ArraySubscriptExpr':
                pa = self.ptr_of(s0['inner'][0], env, depth)
                c = bv_const(self.eval(s0['inner'][1], env, depth))
                if pa is not None and c is not None:
                    return Ptr(pa.base, pa.idx, pa.k + c)
            return None
        if k in ('CXXMemberCallExpr', 'CallExpr'):
            d = callee_decl(n, self.unit)
            fd = self._body_decl(d)
            if fd is not None and depth < self.max_depth:
                r = self.call(fd, call_args(n), env, depth + 1, want_ptr=True)
                if isinstance(r, Ptr):
                    return r
        return None

    def _body_decl(self, d):
        if d is None:
            return None
        if body_of(d) is not None:
            return d
        mn = d.get('mangledName')
        for f in self.unit.functions:
            if mn and f.get('mangledName') == mn and body_of(f) is not None:
                return f
        return None

    def mem(self, p, w, signed):
        sym = ('mem', p.base, p.idx, p.k)
        return BV(w, [('i', sym, b) for b in range(w)], signed)

    # ---- expressions
    def eval(self, n, env, depth=0):
        n0 = strip(n, casts=False)
        k = n0.get('kind')
        if k == 'ArraySubscriptExpr':
            pa = self.ptr_of(n0['inner'][0], env, depth)
            c = bv_const(self.eval(n0['inner'][1], env, depth))
            info = width_of_type(dtype(n0)) or (8, False)
            if pa is not None and c is not None:
                return self.mem(Ptr(pa.base, pa.idx, pa.k + c), info[0], info[1])
        if k == 'ArraySubscriptExpr':
            pa = self.ptr_of(n0['inner'][0], env, depth)
            if pa is not None:
                iv_ = self.eval(n0['inner'][1], env, depth)
                info = width_of_type(dtype(n0)) or (8, False)
                if T not in iv_.b:
                    # non-constant index: the element is a function of the index bits
                    return BV(info[0], tab_cells(pa.base, pa.k, iv_.b, info[0]), info[1])
        if k == 'BinaryOperator' and n0.get('opcode') in ('==', '!=', '<', '>', '<=', '>=') and '*' in (qtype(strip(n0['inner'][0], casts=False)) or '') + (qtype(strip(n0['inner'][1], casts=False)) or ''):
            pa, pb = self.ptr_of(n0['inner'][0], env, depth), self.ptr_of(n0['inner'][1], env, depth)
            if pa is not None and pb is not None and pa.base == pb.base and pa.idx == pb.idx:
                r_ = {'==': pa.k == pb.k, '!=': pa.k != pb.k, '<': pa.k < pb.k, '>': pa.k > pb.k, '<=': pa.k <= pb.k, '>=': pa.k >= pb.k}[n0['opcode']]
                return BV(1, [1 if r_ else 0])
            return BV(1, [T])
        if k == 'BinaryOperator' and n0.get('opcode') == '-' and '*' in (qtype(strip(n0['inner'][0], casts=False)) or '') and '*' in (qtype(strip(n0['inner'][1], casts=False)) or ''):
            pa, pb = self.ptr_of(n0['inner'][0], env, depth), self.ptr_of(n0['inner'][1], env, depth)
            if pa is not None and pb is not None and pa.base == pb.base and pa.idx == pb.idx:
                return const_bv((pa.k - pb.k) & ((1 << 64) - 1), 64, True)
        if k == 'BinaryOperator' and n0.get('opcode') in ('*', '+', '-', '%', '/') and width_of_type(dtype(n0)):
            a = self.eval(n0['inner'][0], env, depth)
            b = self.eval(n0['inner'][1], env, depth)
            if bv_const(a) is None or bv_const(b) is None:
                info = width_of_type(dtype(n0))
                a2, b2 = self.cast(a, dtype(n0)), self.cast(b, dtype(n0))
                op = n0['opcode']
                if op == '+' and bv_const(b2) == 0:
                    return a2
                if op == '+' and bv_const(a2) == 0:
                    return b2
                if op == '*' and (bv_const(b2) == 1):
                    return a2
                if op == '*' and (bv_const(a2) == 1):
                    return b2
                return BV(info[0], u_op({'*': 'mul', '+': 'add', '-': 'sub', '%': 'mod', '/': 'div'}[op], a2.b, b2.b, info[0], commutative=op in ('*', '+')), info[1])
        if k == 'UnaryOperator' and n0.get('opcode') == '*':
            pa = self.ptr_of(n0['inner'][0], env, depth)
            info = width_of_type(dtype(n0)) or (8, False)
            if pa is not None:
                return self.mem(pa, info[0], info[1])
        if k == 'UnaryOperator' and n0.get('opcode') in ('++', '--') and '*' in (qtype(n0['inner'][0]) or ''):
            rd = ref_decl(n0['inner'][0])
            cur = env.get((rd or {}).get('id'))
            if isinstance(cur, Ptr):
                new = Ptr(cur.base, cur.idx, cur.k + (1 if n0['opcode'] == '++' else -1))
                env[rd['id']] = new
                return cur if n0.get('isPostfix') else new
        if k == 'SubstNonTypeTemplateParmExpr' and kids(n0):
            return self.eval(kids(n0)[0], env, depth)
        if k in ('ImplicitCastExpr', 'CStyleCastExpr') and n0.get('castKind') == 'PointerToBoolean':
            return BV(1, [1 if self.ptr_of(kids(n0)[0], env, depth) is not None else T])
        if k == 'UnaryOperator' and n0.get('opcode') == '!' and '*' in (qtype(strip(kids(n0)[0], casts=False)) or ''):
            return BV(1, [0 if self.ptr_of(kids(n0)[0], env, depth) is not None else T])
        if k == 'MemberExpr' and (not kids(n0) or is_this(kids(n0)[0])) and ('member', n0.get('name')) in env:
            return env[('member', n0.get('name'))]
        if k == 'CXXMemberCallExpr' and member_call_object(n0) is not None and not is_this(member_call_object(n0)):
            vec, key = self.vec(member_call_object(n0), env)
            if vec is not None:
                nm = call_name(n0)
                if nm == 'size':
                    return const_bv(len(vec), 64, False)
                if nm == 'empty':
                    return const_bv(0 if vec else 1, 1, False)
                if nm in ('back', 'front') and vec:
                    return vec[-1 if nm == 'back' else 0]
        if k == 'CXXOperatorCallExpr' and call_name(n0) == 'operator[]' and len(kids(n0)) == 3:
            vec, key = self.vec(kids(n0)[1], env)
            if vec is not None:
                i = bv_const(self.eval(kids(n0)[2], env, depth))
                if i is not None and 0 <= i < len(vec):
                    return vec[i]
        if k in ('CXXMemberCallExpr', 'CallExpr'):
            d = callee_decl(n0, self.unit)
            fd = self._body_decl(d)
            obj = member_call_object(n0) if k == 'CXXMemberCallExpr' else None
            if fd is not None and depth < self.max_depth and (obj is None or is_this(obj)):
                r = self.call(fd, call_args(n0), env, depth + 1)
                if isinstance(r, BV):
                    return r
        return super().eval(n, env, depth)

    # ---- calls
    def call(self, fd, args, env, depth=0, want_ptr=False, bound=None):
        frame = dict((k_, v_) for k_, v_ in env.items() if isinstance(k_, tuple))
        if bound is not None:
            frame.update(bound)
        else:
            for p, a in zip(params_of(fd), args):
                if a.get('kind') == 'CXXDefaultArgExpr':
                    de = [c for c in kids(p) if c.get('kind')]
                    if de:
                        frame[p['id']] = self.cast(self.eval(de[-1], {}, depth), dtype(p))
                    continue
                if '*' in (qtype(p) or ''):
                    pv = self.ptr_of(a, env, depth)
                    if pv is not None:
                        frame[p['id']] = pv
                        continue
                v = self.eval(a, env, depth)
                frame[p['id']] = self.cast(v, dtype(p))
                frame[('canon', p['id'])] = canon(a)
        try:
            self.run([body_of(fd)], frame, depth, want_ptr)
        except _Ret as r:
            return r.v
        return None

    # ---- statements
    def run(self, stmts, env, depth=0, want_ptr=False):
        for s in stmts:
            if s is None:
                continue
            k = s.get('kind')
            if not k or k == 'NullStmt':
                continue
            if k == 'CompoundStmt':
                self.run(list(kids(s)), env, depth, want_ptr)
                continue
            if k == 'DeclStmt':
                for vd in kids(s):
                    if vd.get('kind') != 'VarDecl':
                        continue
                    init = [c for c in kids(vd) if c.get('kind') and not c['kind'].endswith('Attr')]
                    if not init:
                        continue
                    if '*' in (qtype(vd) or ''):
                        pv = self.ptr_of(init[-1], env, depth)
                        if pv is not None:
                            env[vd['id']] = pv
                        continue
                    if width_of_type(dtype(vd)):
                        env[vd['id']] = self.cast(self.eval(init[-1], env, depth), dtype(vd))
                continue
            if k == 'ReturnStmt':
                ks = [c for c in kids(s) if c.get('kind')]
                if not ks:
                    raise _Ret(None)
                if want_ptr:
                    pv = self.ptr_of(ks[0], env, depth)
                    if pv is not None:
                        raise _Ret(pv)
                raise _Ret(self.eval(ks[0], env, depth))
            if k == 'BreakStmt':
                raise _Brk()
            if k == 'ContinueStmt':
                raise _Cont()
            if k == 'IfStmt':
                cond, then, els = if_parts(s)
                has_els = els is not None and els.get('kind')
                # guard clauses that only throw are assumed to pass
                if not falls_through(then) and any(t.get('kind') == 'CXXThrowExpr' for t in walk(then)) and not any(r.get('kind') == 'ReturnStmt' for r in walk(then)):
                    if has_els:
                        self.run([els], env, depth, want_ptr)
                    continue
                c = self.truth(self.eval(cond, env, depth))
                if c == 1:
                    self.run([then], env, depth, want_ptr)
                    continue
                if c == 0:
                    if has_els:
                        self.run([els], env, depth, want_ptr)
                    continue
                # data-dependent: if-convert when neither arm transfers control
                ctl = [x for x in walk(s) if x.get('kind') in ('ReturnStmt', 'BreakStmt', 'ContinueStmt', 'CXXThrowExpr')]
                if ctl:
                    raise Unsupported('control transfer under the data-dependent condition `%s` at %s' % (src_text(cond, 40), loc_str(cond)))
                e1 = {k_: (list(v_) if isinstance(v_, list) else v_) for k_, v_ in env.items()}
                self.run([then], e1, depth, want_ptr)
                e2 = {k_: (list(v_) if isinstance(v_, list) else v_) for k_, v_ in env.items()}
                if has_els:
                    self.run([els], e2, depth, want_ptr)
                for key in set(e1) | set(e2):
                    a, b = e1.get(key), e2.get(key)
                    if a is None or b is None:
                        continue
                    if a is b or (isinstance(a, list) and isinstance(b, list) and len(a) == len(b) and all(x is y for x, y in zip(a, b))):
                        env[key] = a
                    elif isinstance(a, BV) and isinstance(b, BV):
                        w = max(a.w, b.w)
                        env[key] = BV(w, [c_ite(c, x, y) for x, y in zip(a.b + [T] * (w - a.w), b.b + [T] * (w - b.w))], a.signed)
                    elif isinstance(a, list) and isinstance(b, list) and len(a) == len(b):
                        env[key] = [BV(x.w, [c_ite(c, p_, q_) for p_, q_ in zip(x.b, y.b)], x.signed) for x, y in zip(a, b)]
                    else:
                        raise Unsupported('cannot merge `%s` after the data-dependent condition at %s' % (key, loc_str(cond)))
                continue
            if k in ('ForStmt', 'WhileStmt', 'DoStmt'):
                if k == 'ForStmt':
                    init, cv, cond, inc, body = for_parts(s)
                    if init is not None and init.get('kind'):
                        self.run([init], env, depth, want_ptr)
                elif k == 'WhileStmt':
                    cond, body = while_parts(s)
                    inc = None
                else:
                    ks = [c for c in kids(s) if c.get('kind')]
                    body, cond, inc = ks[0], ks[1], None
                n = 0
                while True:
                    if k != 'DoStmt' or n > 0:
                        if cond is not None and cond.get('kind'):
                            c = self.truth(self.eval(cond, env, depth))
                            if c == 0:
                                break
                            if c != 1:
                                raise Unsupported('loop condition `%s` is not constant at %s' % (src_text(cond, 40), loc_str(cond)))
                    n += 1
                    if n > self.max_iter:
                        raise Unsupported('loop at %s does not end within %d turns' % (loc_str(s), self.max_iter))
                    try:
                        self.run([body], env, depth, want_ptr)
                    except _Cont:
                        pass
                    except _Brk:
                        break
                    if inc is not None and inc.get('kind'):
                        self.step(inc, env, depth)
                continue
            if k == 'CXXTryStmt':
                self.run([kids(s)[0]], env, depth, want_ptr)
                continue
            if k == 'SwitchStmt':
                ks_ = [c for c in kids(s) if c.get('kind')]
                v_ = bv_const(self.eval(ks_[-2], env, depth))
                if v_ is None:
                    raise Unsupported('switch on a non-constant value at %s' % loc_str(s))
                body_ = ks_[-1]
                sts_ = list(kids(body_)) if body_.get('kind') == 'CompoundStmt' else [body_]
                start, dflt = None, None
                for i_, st_ in enumerate(sts_):
                    x_ = st_
                    while x_ is not None and x_.get('kind') in ('CaseStmt', 'DefaultStmt'):
                        if x_.get('kind') == 'CaseStmt':
                            if bv_const(self.eval(kids(x_)[0], env, depth)) == v_ and start is None:
                                start = i_
                        else:
                            dflt = i_
                        sub_ = [c for c in kids(x_) if c.get('kind')]
                        x_ = sub_[-1] if sub_ else None
                if start is None:
                    start = dflt
                if start is not None:
                    try:
                        for st_ in sts_[start:]:
                            x_ = st_
                            while x_ is not None and x_.get('kind') in ('CaseStmt', 'DefaultStmt'):
                                sub_ = [c for c in kids(x_) if c.get('kind')]
                                x_ = sub_[-1] if sub_ else None
                            if x_ is not None:
                                self.run([x_], env, depth, want_ptr)
                    except _Brk:
                        pass
                continue
            if k == 'AttributedStmt':
                self.run([c for c in kids(s) if c.get('kind') and not c['kind'].endswith('Attr')], env, depth, want_ptr)
                continue
            self.step(s, env, depth)

    def vec(self, n, env):
        """the byte vector (python list of BVs) an expression denotes, keyed by its canonical text"""
        key = ('vec', canon(n))
        return env.get(key), key

    def step(self, s, env, depth):
        e = strip(s, casts=False)
        k = e.get('kind')
        if k in ('BinaryOperator', 'CompoundAssignOperator') and e.get('opcode') in ('=', '|=', '&=', '^=', '<<=', '>>=', '+=', '-=', '*=', '%=', '/='):
            lhs = strip(e['inner'][0], casts=False)
            if e.get('opcode') == '=':
                if '*' in (qtype(lhs) or ''):
                    pv = self.ptr_of(e['inner'][1], env, depth)
                    rd = ref_decl(lhs)
                    if pv is not None and rd is not None:
                        env[rd['id']] = pv
                        return
                v = self.eval(e['inner'][1], env, depth)
            else:
                if '*' in (qtype(lhs) or '') and e['opcode'] in ('+=', '-='):
                    rd = ref_decl(lhs)
                    cur = env.get((rd or {}).get('id'))
                    c = bv_const(self.eval(e['inner'][1], env, depth))
                    if isinstance(cur, Ptr) and c is not None:
                        env[rd['id']] = Ptr(cur.base, cur.idx, cur.k + (c if e['opcode'] == '+=' else -c))
                        return
                    raise Unsupported('pointer update at %s' % loc_str(e))
                ct = e.get('computeResultType') or e.get('type')
                syn = {'kind': 'BinaryOperator', 'opcode': e['opcode'][:-1], 'type': ct, 'inner': e['inner'], '_file': e.get('_file'), '_line': e.get('_line'), '_col': e.get('_col')}
                if e['opcode'] in ('<<=', '>>='):
                    syn['type'] = e.get('computeLHSType') or ct
                v = self.eval(syn, env, depth)
            self.write(lhs, self.cast(v, dtype(lhs)), env, depth)
            return
        if k == 'UnaryOperator' and e.get('opcode') in ('++', '--'):
            lhs = strip(e['inner'][0], casts=False)
            if '*' in (qtype(lhs) or ''):
                self.eval(e, env, depth)
                return
            cur = self.eval(lhs, env, depth)
            x = bv_const(cur)
            info = width_of_type(dtype(lhs)) or (cur.w, cur.signed)
            if x is None:
                raise Unsupported('++/-- of a non-constant at %s' % loc_str(e))
            self.write(lhs, const_bv((x + (1 if e['opcode'] == '++' else -1)) & ((1 << info[0]) - 1), info[0], info[1]), env, depth)
            return
        if k == 'CXXMemberCallExpr':
            obj = member_call_object(e)
            nm = call_name(e)
            if obj is not None and not is_this(obj):
                vec, key = self.vec(obj, env)
                if vec is not None:
                    if nm in ('push_back', 'emplace_back'):
                        vec.append(self.cast(self.eval(call_args(e)[0], env, depth), 'unsigned char'))
                        return
                    if nm == 'pop_back':
                        vec.pop()
                        return
                    if nm in ('reserve',):
                        return
            d = callee_decl(e, self.unit)
            fd = self._body_decl(d)
            if fd is not None and (obj is None or is_this(obj)) and depth < self.max_depth:
                self.call(fd, call_args(e), env, depth + 1)
                # member state written by the callee lives in tuple keys: copy back
                return
        if k == 'CallExpr' and call_name(e) == 'swap' and len(call_args(e)) == 2:
            ra, rb = ref_decl(call_args(e)[0]), ref_decl(call_args(e)[1])
            if ra is not None and rb is not None and ra.get('id') in env and rb.get('id') in env:
                env[ra['id']], env[rb['id']] = env[rb['id']], env[ra['id']]
                return
        if k == 'CXXOperatorCallExpr' and call_name(e) == 'operator+=' and len(kids(e)) == 3:
            vec, key = self.vec(kids(e)[1], env)
            if vec is not None:
                vec.append(self.cast(self.eval(kids(e)[2], env, depth), 'unsigned char'))
                return
        if k == 'CXXOperatorCallExpr' and call_name(e) == 'operator=' and len(kids(e)) == 3 and '*' in (qtype(kids(e)[1]) or ''):
            pass
        if k in ('CallExpr', 'CXXOperatorCallExpr', 'CXXMemberCallExpr'):
            self.eval(e, env, depth)
            return
        if k in ('CXXThrowExpr',):
            raise Unsupported('throw reached at %s' % loc_str(e))
        if k in ('ExprWithCleanups', 'ParenExpr', 'ImplicitCastExpr') and kids(e):
            return self.step(kids(e)[0], env, depth)
        raise Unsupported('statement %s at %s' % (k, loc_str(e)))

    def write(self, lhs, v, env, depth):
        k = lhs.get('kind')
        if k == 'DeclRefExpr':
            rd = ref_decl(lhs)
            env[rd['id']] = v
            return
        if k == 'MemberExpr' and (not kids(lhs) or is_this(kids(lhs)[0])):
            env[('member', lhs.get('name'))] = v
            return
        # element of a modelled byte vector: v.back() / v[v.size() - 1] / v[const]
        tgt = self.vec_elem(lhs, env, depth)
        if tgt is not None:
            vec, i = tgt
            vec[i] = self.cast(v, 'unsigned char')
            return
        raise Unsupported('assignment to `%s` at %s' % (src_text(lhs, 40), loc_str(lhs)))

    def vec_elem(self, n, env, depth):
        n = strip(n, casts=False)
        k = n.get('kind')
        if k == 'CXXMemberCallExpr' and call_name(n) in ('back', 'front'):
            vec, key = self.vec(member_call_object(n), env)
            if vec:
                return vec, (len(vec) - 1 if call_name(n) == 'back' else 0)
        if k == 'CXXOperatorCallExpr' and call_name(n) == 'operator[]':
            vec, key = self.vec(kids(n)[1], env)
            if vec is not None:
                i = bv_const(self.eval(kids(n)[2], env, depth))
                if i is not None and 0 <= i < len(vec):
                    return vec, i
        return None


def _bvexec_eval_hook(self, n, env, depth=0):
    return None
