"""Thorough tier, part 2: calibration of the rule set against the committed corpora.

For the property being checked, every seeded change (seeded/<Cxx>-n/patch.diff, written by
independent sub-agents and confirmed to break the property) and every benign variant
(benign/<Cxx>-*.diff, behaviour-preserving rewrites that keep the property) is applied to a
scratch copy of the CURRENT /repo sources (made under $TMPDIR, removed afterwards) and the same
static rules are run on the patched sources.  Nothing is executed: the patched tree is only parsed.
The result is evidence about the checker (sensitivity / specificity on today's tree); it never
changes the verdict on /repo itself.  A patch that no longer applies to the current tree is
reported as skipped."""
import concurrent.futures
import glob
import json
import os
import re
import shutil
import subprocess
import sys
import tempfile

VERIF = os.path.dirname(os.path.dirname(os.path.abspath(__file__)))


def _one(args):
    pid, name, patch, repo, root, expect = args
    d = os.path.join(root, name)
    os.makedirs(d)
    try:
        shutil.copytree(os.path.join(repo, 'src'), os.path.join(d, 'src'))
        for f in os.listdir(repo):
            p = os.path.join(repo, f)
            if os.path.isfile(p):
                shutil.copy(p, d)
        r = subprocess.run(['patch', '-p1', '-s', '-f', '--no-backup-if-mismatch', '-i', patch], cwd=d, stdout=subprocess.PIPE, stderr=subprocess.STDOUT, text=True)
        if r.returncode != 0:
            return {'case': name, 'expect': expect, 'result': 'skipped', 'why': 'patch does not apply to the current tree'}
        env = dict(os.environ, VERIF_REPO=d, VERIF_EVDIR=os.path.join(d, '_ev'), VERIF_TIER='quick')
        o = subprocess.run([sys.executable, os.path.join(VERIF, 'sa', 'check.py'), pid, '--tier', 'quick'], env=env, stdout=subprocess.PIPE, stderr=subprocess.STDOUT, text=True)
        rules = sorted(set(re.findall(r'^violation: (C\d+-R\d+)', o.stdout, re.M)))
        sites = sorted(set(m.replace(d + '/', '') for m in re.findall(r'^violation: C\d+-R\d+ \S+ at (\S+?):? ', o.stdout, re.M)))[:4]
        if o.returncode == 1:
            res = 'reported'
        elif o.returncode == 0:
            res = 'silent' if 'UNDECIDED:' not in o.stdout else 'silent-with-undecided'
        else:
            res = 'analysis-broken'
        return {'case': name, 'expect': expect, 'result': res, 'rules': rules, 'sites': sites}
    finally:
        shutil.rmtree(d, ignore_errors=True)


def calibrate(pid, repo):
    cases = []
    for p in sorted(glob.glob(os.path.join(VERIF, 'seeded', pid + '-*', 'patch.diff'))):
        cases.append((os.path.basename(os.path.dirname(p)), p, 'reported'))
    for p in sorted(glob.glob(os.path.join(VERIF, 'benign', pid + '-*.diff'))):
        cases.append(('benign:' + os.path.basename(p)[:-5], p, 'silent'))
    root = tempfile.mkdtemp(prefix='verif-cal-%s-' % pid)
    try:
        with concurrent.futures.ThreadPoolExecutor(max_workers=min(12, max(1, len(cases)))) as ex:
            rows = list(ex.map(_one, [(pid, n.replace(':', '_'), p, repo, root, e) for n, p, e in cases]))
    finally:
        shutil.rmtree(root, ignore_errors=True)
    seeds = [r for r in rows if r['expect'] == 'reported' and r['result'] != 'skipped']
    ben = [r for r in rows if r['expect'] == 'silent' and r['result'] != 'skipped']
    summary = {
        'what': 'seeded breaking changes and benign variants applied to a scratch copy of the current sources and analysed with the same rules (no execution)',
        'seeded_applicable': len(seeds), 'seeded_reported': sum(1 for r in seeds if r['result'] == 'reported'),
        'benign_applicable': len(ben), 'benign_silent': sum(1 for r in ben if r['result'] in ('silent', 'silent-with-undecided')), 'benign_silent_with_undecided': sum(1 for r in ben if r['result'] == 'silent-with-undecided'),
        'benign_undecided': sum(1 for r in ben if r['result'] == 'analysis-broken'), 'benign_false_alarm': sum(1 for r in ben if r['result'] == 'reported'),
        'skipped': [r['case'] for r in rows if r['result'] == 'skipped'],
        'unexpected': [r for r in rows if r['result'] != 'skipped' and r['result'] != r['expect'] and not (r['expect'] == 'silent' and r['result'] in ('analysis-broken', 'silent-with-undecided'))],
        'cases': rows,
    }
    return summary
