"""E-SHAPE: pointer-shape evaluation of small list-surgery functions over the AST.

A function whose body only tests and assigns pointers (fields of `this`, of the item it is given and
of the items those point at) is folded, checker-side, on every doubly linked list of up to N nodes
with the item at every position.  Nothing is compiled or run; the functions touch only objects at
distance <= 1 from the item and from head/tail, so lists of up to 5 nodes exhibit every aliasing
pattern between {item, its neighbours, head, tail}."""
from ast_ import *
from path import if_parts


class ShapeUndecided(Exception):
    pass


class Node:
    def __init__(self, name):
        self.name = name
        self.f = {'prev': None, 'next': None}

    def __repr__(self):
        return self.name


class _Ret(Exception):
    pass


class _LV:
    """an lvalue: field `name` of object `obj`, or a local slot"""

    def __init__(self, obj, name):
        self.obj, self.name = obj, name

    def get(self):
        if self.obj is None:
            raise ShapeUndecided('null dereference')
        d = self.obj.f if isinstance(self.obj, Node) else self.obj
        if self.name not in d:
            raise ShapeUndecided('field %s' % self.name)
        return d[self.name]

    def set(self, v):
        d = self.obj.f if isinstance(self.obj, Node) else self.obj
        d[self.name] = v


class NullDeref(Exception):
    pass


class Shape:
    def __init__(self, unit, funcs_by_name):
        self.u = unit
        self.funcs = funcs_by_name
        self.steps = 0

    def call(self, f, this, args, depth=0):
        if depth > 6:
            raise ShapeUndecided('call depth')
        env = {}
        ps = params_of(f)
        if len(ps) != len(args):
            raise ShapeUndecided('arity')
        for p, a in zip(ps, args):
            env[p['id']] = a
        try:
            self.run(body_of(f), this, env, depth)
        except _Ret:
            pass

    def run(self, s, this, env, depth):
        self.steps += 1
        if self.steps > 20000:
            raise ShapeUndecided('step budget')
        s = strip(s)
        if s is None or not s.get('kind'):
            return
        k = s.get('kind')
        if k == 'CompoundStmt':
            for c in kids(s):
                self.run(c, this, env, depth)
        elif k == 'IfStmt':
            cond, then, els = if_parts(s)
            if self.truth(self.ev(cond, this, env, depth)):
                self.run(then, this, env, depth)
            elif els is not None:
                self.run(els, this, env, depth)
        elif k == 'ReturnStmt':
            if [c for c in kids(s) if c.get('kind')]:
                raise ShapeUndecided('value return')
            raise _Ret()
        elif k == 'DeclStmt':
            for v in kids(s):
                if v.get('kind') != 'VarDecl':
                    raise ShapeUndecided('declaration')
                init = [c for c in kids(v) if c.get('kind')]
                if (qtype(v) or '').rstrip().endswith('&') and init:
                    env[v['id']] = ('ref', self.lv(init[-1], this, env, depth))
                else:
                    env[v['id']] = self.ev(init[-1], this, env, depth) if init else None
        elif k == 'NullStmt':
            return
        else:
            self.ev(s, this, env, depth)

    def truth(self, v):
        if isinstance(v, bool):
            return v
        if v is None or isinstance(v, Node):
            return v is not None
        raise ShapeUndecided('condition value')

    def lv(self, n, this, env, depth):
        n = strip(n)
        k = n.get('kind')
        if k == 'MemberExpr':
            base = strip(kids(n)[0])
            nm = n.get('name')
            if n.get('isArrow'):
                o = self.ev(base, this, env, depth)
                if o is None:
                    raise NullDeref(canon(n))
            else:
                o = self.obj(base, this, env, depth)
            if not isinstance(o, (Node, dict)):
                raise ShapeUndecided('member of %r' % (o,))
            return _LV(o, nm)
        if k == 'DeclRefExpr':
            rd = ref_decl(n)
            if rd is None or rd.get('id') not in env:
                raise ShapeUndecided('name %s' % canon(n))
            v = env[rd['id']]
            if isinstance(v, tuple) and v[0] == 'ref':
                return v[1]
            return _LV(env, rd['id'])
        if k == 'UnaryOperator' and n.get('opcode') == '*':
            o = self.ev(kids(n)[0], this, env, depth)
        raise ShapeUndecided('lvalue %s' % k)

    def obj(self, n, this, env, depth):
        """the object an expression of class type designates"""
        n = strip(n)
        k = n.get('kind')
        if k == 'DeclRefExpr':
            rd = ref_decl(n)
            v = env.get((rd or {}).get('id'))
            if isinstance(v, tuple) and v[0] == 'objref':
                return v[1]
            raise ShapeUndecided('object %s' % canon(n))
        if k == 'UnaryOperator' and n.get('opcode') == '*':
            o = self.ev(kids(n)[0], this, env, depth)
            if o is None:
                raise NullDeref(canon(n))
            return o
        if k == 'CXXThisExpr':
            return this
        raise ShapeUndecided('object expression %s' % k)

    def ev(self, n, this, env, depth):
        n = strip(n)
        if n is None:
            raise ShapeUndecided('empty expression')
        k = n.get('kind')
        if k in ('ImplicitCastExpr', 'ParenExpr', 'ExprWithCleanups', 'CXXStaticCastExpr', 'CStyleCastExpr', 'CXXConstCastExpr', 'MaterializeTemporaryExpr') and kids(n):
            return self.ev(kids(n)[0], this, env, depth)
        if k in ('CXXNullPtrLiteralExpr', 'GNUNullExpr'):
            return None
        if k == 'IntegerLiteral' and int(n.get('value', '1')) == 0:
            return None
        if k == 'CXXBoolLiteralExpr':
            return bool(n.get('value'))
        if k == 'CXXThisExpr':
            return this
        if k in ('MemberExpr', 'DeclRefExpr'):
            if k == 'DeclRefExpr':
                v = env.get((ref_decl(n) or {}).get('id'), '?')
                if isinstance(v, tuple) and v[0] == 'objref':
                    raise ShapeUndecided('object used as a value')
            return self.lv(n, this, env, depth).get()
        if k == 'UnaryOperator':
            op = n.get('opcode')
            if op == '!':
                return not self.truth(self.ev(kids(n)[0], this, env, depth))
            if op == '&':
                return self.obj(kids(n)[0], this, env, depth)
            raise ShapeUndecided('unary %s' % op)
        if k == 'BinaryOperator':
            op = n.get('opcode')
            a, b = kids(n)[0], kids(n)[1]
            if op == '=':
                v = self.ev(b, this, env, depth)
                if not (v is None or isinstance(v, Node)):
                    raise ShapeUndecided('assignment of a non-pointer')
                self.lv(a, this, env, depth).set(v)
                return v
            if op in ('==', '!='):
                x, y = self.ev(a, this, env, depth), self.ev(b, this, env, depth)
                for z in (x, y):
                    if not (z is None or isinstance(z, Node)):
                        raise ShapeUndecided('comparison of non-pointers')
                return (x is y) == (op == '==')
            if op == '&&':
                return self.truth(self.ev(a, this, env, depth)) and self.truth(self.ev(b, this, env, depth))
            if op == '||':
                return self.truth(self.ev(a, this, env, depth)) or self.truth(self.ev(b, this, env, depth))
            raise ShapeUndecided('binary %s' % op)
        if k == 'ConditionalOperator':
            c, a, b = kids(n)[:3]
            return self.ev(a if self.truth(self.ev(c, this, env, depth)) else b, this, env, depth)
        if k == 'CXXMemberCallExpr':
            nm = call_name(n)
            tgt = self.funcs.get(nm)
            o = member_call_object(n)
            if tgt is None or (o is not None and strip(o).get('kind') != 'CXXThisExpr'):
                raise ShapeUndecided('call of %s' % nm)
            args = []
            for p, a in zip(params_of(tgt), call_args(n)):
                if (qtype(p) or '').rstrip().endswith('&'):
                    args.append(('objref', self.obj(a, this, env, depth)))
                else:
                    args.append(self.ev(a, this, env, depth))
            self.call(tgt, this, args, depth + 1)
            return None
        raise ShapeUndecided('expression %s' % k)


def make_list(n):
    nodes = [Node('n%d' % i) for i in range(n)]
    for i, x in enumerate(nodes):
        x.f['prev'] = nodes[i - 1] if i else None
        x.f['next'] = nodes[i + 1] if i + 1 < n else None
    this = {'head': nodes[0] if nodes else None, 'tail': nodes[-1] if nodes else None}
    return this, nodes


def list_state(this, universe):
    """(forward order from head, backward order from tail, well-formedness problems)"""
    fwd, seen = [], set()
    x = this['head']
    while x is not None and id(x) not in seen and len(fwd) < 20:
        seen.add(id(x))
        fwd.append(x)
        x = x.f['next']
    cyc = x is not None
    bwd, seen = [], set()
    x = this['tail']
    while x is not None and id(x) not in seen and len(bwd) < 20:
        seen.add(id(x))
        bwd.append(x)
        x = x.f['prev']
    cyc = cyc or x is not None
    return fwd, bwd, cyc


def check_list(this, want):
    """None when the list reachable from `this` is exactly `want` (head first), well linked both ways"""
    fwd, bwd, cyc = list_state(this, want)
    if cyc:
        return 'the links form a cycle'
    if [x.name for x in fwd] != [x.name for x in want]:
        return 'from head the list reads %s, expected %s' % ([x.name for x in fwd], [x.name for x in want])
    if [x.name for x in bwd] != [x.name for x in reversed(want)]:
        return 'from tail the list reads %s, expected %s' % ([x.name for x in bwd], [x.name for x in reversed(want)])
    if want and (want[0].f['prev'] is not None or want[-1].f['next'] is not None):
        return 'the head has a predecessor or the tail a successor'
    return None
