"""E-TABLE helpers: evaluate an encoder's per-character if/else chain under a
constant character and report the text it emits (no phosg code runs: the chain is
interpreted over the AST with constant bindings)."""
from ast_ import *
from path import *
from bits import *
from props.c04 import ConstEval, enum_env, string_lit, printf_emit

CTYPE = {
    'isalnum': lambda c: 1 if (48 <= c <= 57 or 65 <= c <= 90 or 97 <= c <= 122) else 0,
    'isalpha': lambda c: 1 if (65 <= c <= 90 or 97 <= c <= 122) else 0,
    'isdigit': lambda c: 1 if 48 <= c <= 57 else 0,
    'isxdigit': lambda c: 1 if (48 <= c <= 57 or 65 <= c <= 70 or 97 <= c <= 102) else 0,
    'isupper': lambda c: 1 if 65 <= c <= 90 else 0,
    'islower': lambda c: 1 if 97 <= c <= 122 else 0,
    'isspace': lambda c: 1 if c in (32, 9, 10, 11, 12, 13) else 0,
    'isblank': lambda c: 1 if c in (32, 9) else 0,
    'isprint': lambda c: 1 if 32 <= c <= 126 else 0,
}


class TableEval(ConstEval):
    """ConstEval + canonical-text overrides + the C-locale <ctype.h> predicates on constants."""

    def __init__(self, unit, enums=None):
        super().__init__(unit, enums if enums is not None else enum_env(unit))
        self.ov = {}

    def eval(self, n, env, depth=0):
        n0 = strip(n, casts=False)
        k = n0.get('kind')
        if k in ('ArraySubscriptExpr', 'DeclRefExpr', 'MemberExpr') and self.ov:
            c = canon(n0)
            if c in self.ov:
                info = width_of_type(dtype(n0)) or (8, False)
                return const_bv(self.ov[c] & ((1 << info[0]) - 1), info[0], info[1])
        if k == 'CallExpr' and call_name(n0) in CTYPE:
            v = bv_const(self.eval(call_args(n0)[0], env, depth))
            if v is not None:
                return const_bv(CTYPE[call_name(n0)](v if 0 <= v <= 255 else -1), 32, True)
        return super().eval(n, env, depth)


def emit_chain(I, stmt, env, acc='ret'):
    """Text appended to `acc` when stmt executes under env; None if undecidable."""
    out = bytearray()

    def run(st):
        s0 = strip(st)
        k = s0.get('kind')
        if not k:
            return True
        if k == 'CompoundStmt':
            return all(run(c) for c in kids(s0))
        if k == 'IfStmt':
            cond, then, els = if_parts(s0)
            v = I.truth(I.eval(cond, env))
            if v not in (0, 1):
                return False
            br = then if v == 1 else els
            return run(br) if br is not None else True
        if k == 'DeclStmt':
            for vd in kids(s0):
                if vd.get('kind') == 'VarDecl' and kids(vd):
                    env[vd['id']] = I.cast(I.eval(kids(vd)[-1], env), dtype(vd))
            return True
        if k in ('CompoundAssignOperator', 'BinaryOperator') and s0.get('opcode') in ('+=', '-=', '=') and ref_decl(s0['inner'][0]) and ref_decl(s0['inner'][0]).get('id') in env:
            rid = ref_decl(s0['inner'][0])['id']
            cur = bv_const(env[rid])
            d = bv_const(I.eval(s0['inner'][1], env))
            if cur is None or d is None:
                return False
            nv = {'+=': cur + d, '-=': cur - d, '=': d}[s0['opcode']]
            env[rid] = const_bv(nv & ((1 << env[rid].w) - 1), env[rid].w, env[rid].signed)
            return True
        if k == 'CXXOperatorCallExpr' and call_name(s0) == 'operator+=' and canon(s0['inner'][1]) == acc:
            return append(s0['inner'][2])
        if k == 'CXXMemberCallExpr' and call_name(s0) == 'push_back' and canon(member_call_object(s0)) == acc:
            return append(call_args(s0)[0])
        return False

    def append(rhs):
        lit = string_lit(rhs)
        if lit is not None:
            out.extend(lit)
            return True
        for c in walk(rhs):
            if c.get('kind') == 'CallExpr' and call_name(c) == 'string_printf':
                a = call_args(c)
                fmt = string_lit(a[0])
                if fmt is None or len(a) != 2:
                    return False
                bv = I.eval(a[1], env)
                v = bv_const(bv)
                if v is None:
                    return False
                # default argument promotion: narrower than int -> int (value preserved)
                txt = printf_emit(fmt.decode('latin1'), v)
                if txt is None:
                    return False
                out.extend(txt.encode('latin1'))
                return True
        v = bv_const(I.eval(rhs, env))
        if v is None:
            return False
        out.append(v & 0xFF)
        return True
    return bytes(out) if run(stmt) else None


def loop_char_var(loop):
    """(char variable decl, statements of the per-character chain) of `for (..) { char ch = s[x]; <chain> }`
    or `for (char ch : s) <chain>`."""
    body = loop_body(loop)
    if loop.get('kind') == 'CXXForRangeStmt':
        vd = None
        for x in walk(loop):
            if x.get('kind') == 'VarDecl' and x.get('name') and not x['name'].startswith('__'):
                vd = x
                break
        return vd, stmts_of(body)
    st = stmts_of(body)
    if st and st[0].get('kind') == 'DeclStmt':
        vd = kids(st[0])[0]
        return vd, st[1:]
    return None, st
