"""E-AST: load clang's type-checked AST (JSON dump) for a phosg unit and index it.

Nothing here executes phosg code: units are parsed with `clang++ -fsyntax-only`.
Nodes are the raw dicts of clang's JSON dump, annotated in place with
  _p     parent node
  _file  file of the node's (expansion) begin location
  _line  line, _col column, _off begin offset, _end end offset (exclusive)
"""
import hashlib
import json
import os
import re
import subprocess
import sys
import time

VERIF = os.path.dirname(os.path.dirname(os.path.abspath(__file__)))
REPO = os.environ.get('VERIF_REPO', '/repo')
WORK = os.path.join(VERIF, '.work')
CACHE = os.path.join(WORK, 'ast')
CACHE_CAP_BYTES = 1500 * 1024 * 1024
CHECKER_VERSION = '3'


class AnalysisBroken(Exception):
    """The analysis cannot be carried out (anchor vanished, unit does not parse,
    unsupported construct).  Exit code 2: never a pass, never a violation."""


def src_dir():
    return os.path.join(REPO, 'src')


def base_flags():
    # Flags of the real build: CMakeLists.txt sets CMAKE_CXX_STANDARD 20 and
    # the library's include root; gnu++20 is what cmake passes to g++/clang.
    return ['-std=gnu++20', '-I' + REPO, '-I' + src_dir(), '-UNDEBUG',
            '-Wno-everything']


def _source_state_hash(unit_path, flags):
    h = hashlib.sha256()
    h.update(CHECKER_VERSION.encode())
    h.update(' '.join(flags).encode())
    names = sorted(os.listdir(src_dir()))
    for n in names:
        if n.endswith('.hh') or n.endswith('.h'):
            p = os.path.join(src_dir(), n)
            h.update(n.encode())
            with open(p, 'rb') as f:
                h.update(f.read())
    with open(unit_path, 'rb') as f:
        h.update(unit_path.encode())
        h.update(f.read())
    # witness units may include .cc files of the repo
    if unit_path.startswith(VERIF):
        for n in names:
            if n.endswith('.cc'):
                with open(os.path.join(src_dir(), n), 'rb') as f:
                    h.update(n.encode())
                    h.update(f.read())
    return h.hexdigest()[:32]


def _evict_cache():
    try:
        ents = []
        for n in os.listdir(CACHE):
            p = os.path.join(CACHE, n)
            st = os.stat(p)
            ents.append((st.st_mtime, st.st_size, p))
        total = sum(e[1] for e in ents)
        ents.sort()
        while total > CACHE_CAP_BYTES and ents:
            m, s, p = ents.pop(0)
            try:
                os.unlink(p)
            except OSError:
                pass
            total -= s
    except OSError:
        pass


def dump_path(unit_path, extra_flags=(), filt='phosg'):
    """Return the path of the JSON dump for unit_path at the current source state,
    producing it with clang if it is not cached."""
    flags = base_flags() + list(extra_flags)
    os.makedirs(CACHE, exist_ok=True)
    key = _source_state_hash(unit_path, flags)
    out = os.path.join(CACHE, '%s-%s%s.json' % (os.path.basename(unit_path), key, '' if filt == 'phosg' else '-' + filt))
    if os.path.exists(out):
        os.utime(out, None)
        return out
    tmp = out + '.tmp%d' % os.getpid()
    cmd = ['clang++'] + flags + ['-fsyntax-only', '-Xclang', '-ast-dump=json',
                                 '-Xclang', '-ast-dump-filter=' + filt, unit_path]
    with open(tmp, 'wb') as f:
        r = subprocess.run(cmd, stdout=f, stderr=subprocess.PIPE)
    if r.returncode != 0:
        try:
            os.unlink(tmp)
        except OSError:
            pass
        raise AnalysisBroken('clang failed to parse %s:\n%s' % (unit_path, r.stderr.decode()[-3000:]))
    os.rename(tmp, out)
    _evict_cache()
    return out


def try_compile(unit_path, extra_flags=()):
    """(ok, diagnostics) of a front-end-only compile of a witness unit."""
    cmd = ['clang++'] + [f for f in base_flags() if f != '-Wno-everything'] + list(extra_flags) + ['-fsyntax-only', '-ferror-limit=0', '-Wno-everything', unit_path]
    r = subprocess.run(cmd, stdout=subprocess.PIPE, stderr=subprocess.PIPE)
    return r.returncode == 0, r.stderr.decode('utf8', 'replace')


def prefetch(unit_paths, jobs=16):
    """Produce the dumps of several units in parallel (cold-cache speed-up)."""
    from concurrent.futures import ThreadPoolExecutor
    with ThreadPoolExecutor(max_workers=jobs) as ex:
        list(ex.map(lambda p: dump_path(p), unit_paths))


# --------------------------------------------------------------------------
# node helpers

def kids(n):
    return n.get('inner', ())


def kind(n):
    return n.get('kind')


def qtype(n):
    t = n.get('type')
    return t.get('qualType') if t else None


def dtype(n):
    """Desugared type string."""
    t = n.get('type')
    if not t:
        return None
    return t.get('desugaredQualType', t.get('qualType'))


def walk(n):
    """Pre-order traversal."""
    stack = [n]
    while stack:
        x = stack.pop()
        yield x
        inner = x.get('inner')
        if inner:
            stack.extend(reversed(inner))


TRANSPARENT = {'ImplicitCastExpr', 'ParenExpr', 'ExprWithCleanups', 'MaterializeTemporaryExpr',
               'CXXBindTemporaryExpr', 'ConstantExpr', 'FullExpr', 'SubstNonTypeTemplateParmExpr', 'CXXRewrittenBinaryOperator'}


def strip(n, casts=True):
    """Skip wrappers that do not change the value (implicit casts are kept visible
    through strip(n, casts=False))."""
    while n is not None:
        k = n.get('kind')
        if k in TRANSPARENT and (casts or k != 'ImplicitCastExpr'):
            inner = n.get('inner')
            if not inner:
                return n
            n = inner[0] if k != 'SubstNonTypeTemplateParmExpr' else inner[-1]
            continue
        if casts and k in ('CStyleCastExpr', 'CXXStaticCastExpr', 'CXXFunctionalCastExpr') and n.get('castKind') == 'NoOp':
            c = n['inner'][0]
            # clang models static_cast<int>(d) as an explicit NoOp cast around an implicit
            # conversion marked isPartOfExplicitCast: that is a value-changing cast
            if c.get('kind') == 'ImplicitCastExpr' and c.get('isPartOfExplicitCast') and c.get('castKind') not in BENIGN_CASTS:
                return n
            n = c
            continue
        return n
    return n


BENIGN_CASTS = ('NoOp', 'LValueToRValue', 'ArrayToPointerDecay', 'FunctionToPointerDecay', 'NullToPointer', 'DerivedToBase', 'UncheckedDerivedToBase', 'ConstructorConversion', 'UserDefinedConversion')


def parent(n):
    return n.get('_p')


def ancestors(n):
    p = n.get('_p')
    while p is not None:
        yield p
        p = p.get('_p')


def enclosing(n, kinds):
    for a in ancestors(n):
        if a.get('kind') in kinds:
            return a
    return None


FUNC_KINDS = {'FunctionDecl', 'CXXMethodDecl', 'CXXConstructorDecl', 'CXXDestructorDecl', 'CXXConversionDecl'}
RECORD_KINDS = {'CXXRecordDecl', 'ClassTemplateSpecializationDecl', 'ClassTemplatePartialSpecializationDecl'}


def enclosing_function(n):
    for a in ancestors(n):
        if a.get('kind') in FUNC_KINDS:
            return a
        if a.get('kind') == 'LambdaExpr':
            # the lambda's call operator is a CXXMethodDecl below the closure record
            continue
    return None


def loc_str(n):
    f = n.get('_file') or '?'
    if f.startswith(REPO + '/'):
        f = f[len(REPO) + 1:]
    return '%s:%s:%s' % (f, n.get('_line', '?'), n.get('_col', '?'))


_file_cache = {}


def file_text(path):
    t = _file_cache.get(path)
    if t is None:
        try:
            with open(path, 'rb') as f:
                t = f.read()
        except OSError:
            t = b''
        _file_cache[path] = t
    return t


def src_text(n, limit=200):
    """Source text of a node (for diagnostics only; rules never match on text)."""
    f, a, b = n.get('_file'), n.get('_off'), n.get('_end')
    if f is None or a is None or b is None or b < a:
        return '<%s>' % n.get('kind')
    t = file_text(f)[a:b].decode('utf8', 'replace')
    t = ' '.join(t.split())
    if len(t) > limit:
        t = t[:limit] + '...'
    return t


# --------------------------------------------------------------------------
# unit loading

DECLS = {}   # decl id -> node, across all loaded units (ids are unique per clang run; used for constness lookups)


class Unit:
    def __init__(self, path, roots):
        self.path = path
        self.roots = roots          # top-level dumped decls (NamespaceDecl phosg ...)
        self.by_id = {}             # decl id -> node
        self.functions = []         # all function-like decls that have a body
        self.all_functions = []     # including declarations without body
        self.records = []           # record definitions
        self._qn = {}
        self._index()

    # ---- indexing
    def _index(self):
        for r in self.roots:
            for n in walk(r):
                i = n.get('id')
                k = n.get('kind')
                if i and k and k.endswith('Decl'):
                    old = self.by_id.get(i)
                    # brief references (e.g. the specialisation list of a template) carry no children
                    if old is None or ('inner' not in old and 'inner' in n):
                        self.by_id[i] = n
                        DECLS.setdefault(i, []).append(n)
                if k in FUNC_KINDS:
                    self.all_functions.append(n)
                    if body_of(n) is not None:
                        self.functions.append(n)
                elif k in RECORD_KINDS and n.get('completeDefinition'):
                    self.records.append(n)

    # ---- names
    def context_of(self, d):
        """Semantic declaration context of d (follows parentDeclContextId for
        out-of-line definitions)."""
        pid = d.get('parentDeclContextId')
        if pid and pid in self.by_id:
            return self.by_id[pid]
        p = d.get('_p')
        while p is not None and p.get('kind') in ('FunctionTemplateDecl', 'ClassTemplateDecl', 'LinkageSpecDecl'):
            p = p.get('_p')
        return p

    def qualname(self, d):
        i = id(d)
        q = self._qn.get(i)
        if q is not None:
            return q
        parts = []
        x = d
        guard = 0
        while x is not None and guard < 50:
            guard += 1
            k = x.get('kind')
            nm = x.get('name')
            if k in RECORD_KINDS:
                if nm:
                    parts.append(nm + record_template_args(x))
                else:
                    parts.append('(anon)')
            elif k == 'NamespaceDecl':
                parts.append(nm or '(anon)')
            elif k in FUNC_KINDS or k in ('VarDecl', 'FieldDecl', 'EnumDecl', 'TypedefDecl', 'TypeAliasDecl'):
                if nm:
                    parts.append(nm)
            elif k == 'TranslationUnitDecl':
                break
            x = self.context_of(x)
        q = '::'.join(reversed(parts))
        self._qn[i] = q
        return q

    def record_of(self, f):
        c = self.context_of(f)
        if c is not None and c.get('kind') in RECORD_KINDS:
            return c
        return None

    def funcs(self, qualname, with_body=True):
        """Function definitions whose qualified name equals qualname.  Template
        arguments of records are part of the name ('phosg::LRUSet<int>::erase');
        a name given without arguments matches every instantiation."""
        out = []
        src = self.functions if with_body else self.all_functions
        for f in src:
            q = self.qualname(f)
            if q == qualname or strip_targs(q) == qualname:
                if is_dependent_pattern(f, self):
                    continue
                out.append(f)
        return out

    def func(self, qualname, **kw):
        fs = self.funcs(qualname, **kw)
        if not fs:
            raise AnalysisBroken('anchor function %s not found in %s' % (qualname, os.path.basename(self.path)))
        return fs

    def record(self, qualname):
        out = [r for r in self.records if self.qualname(r) == qualname or strip_targs(self.qualname(r)) == qualname]
        return out


def strip_targs(q):
    out = []
    depth = 0
    for ch in q:
        if ch == '<':
            depth += 1
        elif ch == '>':
            depth -= 1
        elif depth == 0:
            out.append(ch)
    return ''.join(out)


def record_template_args(r):
    if r.get('kind') != 'ClassTemplateSpecializationDecl':
        return ''
    args = []
    for c in kids(r):
        if c.get('kind') == 'TemplateArgument':
            if 'type' in c:
                args.append(c['type'].get('qualType', '?'))
            elif 'value' in c:
                args.append(str(c['value']))
            elif c.get('inner'):
                args.append(const_repr(c['inner'][0]))
            else:
                args.append('?')
    return '<' + ', '.join(args) + '>'


def const_repr(n):
    n = strip(n)
    if n.get('kind') in ('IntegerLiteral', 'CXXBoolLiteralExpr', 'CharacterLiteral'):
        return str(n.get('value'))
    if n.get('kind') == 'DeclRefExpr':
        return n['referencedDecl'].get('name', '?')
    return n.get('kind', '?')


def body_of(f):
    for c in kids(f):
        if c.get('kind') in ('CompoundStmt', 'CXXTryStmt'):
            return c
    return None


def params_of(f):
    return [c for c in kids(f) if c.get('kind') == 'ParmVarDecl']


def is_dependent_pattern(f, unit):
    """True for the uninstantiated pattern of a template (function template pattern
    or member of a class template pattern): its body has dependent nodes."""
    p = f.get('_p')
    if p is not None and p.get('kind') == 'FunctionTemplateDecl':
        # first FunctionDecl child of a FunctionTemplateDecl is the pattern;
        # specializations carry TemplateArgument children
        if not any(c.get('kind') == 'TemplateArgument' for c in kids(f)):
            return True
    x = unit.context_of(f)
    guard = 0
    while x is not None and guard < 20:
        guard += 1
        if x.get('kind') == 'CXXRecordDecl':
            pp = x.get('_p')
            if pp is not None and pp.get('kind') == 'ClassTemplateDecl':
                return True
        if x.get('kind') == 'ClassTemplatePartialSpecializationDecl':
            return True
        x = unit.context_of(x)
    return False


def _annotate(root):
    """Resolve clang's delta-encoded locations and set parent pointers."""
    state = {'file': None, 'line': None}

    def bare(l):
        # returns (file, line, col, offset, tokLen)
        if 'file' in l:
            state['file'] = l['file']
        if 'line' in l:
            state['line'] = l['line']
        return (state['file'], state['line'], l.get('col'), l.get('offset'), l.get('tokLen', 0))

    def resolve(l):
        if not l:
            return None
        if 'spellingLoc' in l or 'expansionLoc' in l:
            sp = ex = None
            # emission order: spellingLoc then expansionLoc
            for k, v in l.items():
                if k == 'spellingLoc':
                    sp = bare(v)
                elif k == 'expansionLoc':
                    ex = bare(v)
            return ex or sp
        if 'offset' in l:
            return bare(l)
        return None

    stack = [(root, None)]
    while stack:
        n, p = stack.pop()
        if p is not None:
            n['_p'] = p
        b = e = None
        for k in ('loc', 'range'):
            v = n.get(k)
            if v is None:
                continue
            if k == 'loc':
                r = resolve(v)
                if r and b is None:
                    lb = r
                    n['_file'], n['_line'], n['_col'] = lb[0], lb[1], lb[2]
            else:
                b = resolve(v.get('begin'))
                e = resolve(v.get('end'))
                if b:
                    if '_file' not in n or kind(n) is None or not kind(n).endswith('Decl'):
                        n['_file'], n['_line'], n['_col'] = b[0], b[1], b[2]
                    n['_off'] = b[3]
                    n['_bfile'] = b[0]
                if e and e[3] is not None:
                    n['_end'] = e[3] + (e[4] or 0)
                    n['_eline'] = e[1]
        inner = n.get('inner')
        if inner:
            # children must be processed in document order for the delta decoding
            for c in reversed(inner):
                stack.append((c, n))
    return root


def _annotate_ordered(root):
    """Document-order annotate (the stack version above pops children in order
    because they are pushed reversed; kept as a single entry point)."""
    return _annotate(root)


def decode_dump(path):
    with open(path, 'r') as f:
        s = f.read()
    dec = json.JSONDecoder()
    i, n = 0, len(s)
    roots = []
    while i < n:
        while i < n and s[i] in ' \n\r\t':
            i += 1
        if i >= n:
            break
        if s[i] != '{':
            j = s.find('\n', i)
            if j < 0:
                break
            i = j + 1
            continue
        o, i = dec.raw_decode(s, i)
        roots.append(o)
    return roots


_units = {}


def load_unit(unit_path, extra_flags=()):
    key = (unit_path, tuple(extra_flags))
    u = _units.get(key)
    if u is not None:
        return u
    if not os.path.exists(unit_path):
        raise AnalysisBroken('unit %s does not exist' % unit_path)
    p = dump_path(unit_path, extra_flags)
    roots = decode_dump(p)
    if not roots:
        raise AnalysisBroken('empty AST dump for %s' % unit_path)
    for r in roots:
        _annotate(r)
    u = Unit(unit_path, roots)
    _units[key] = u
    return u


_aux = {}


def aux_decls(unit_path, filt):
    """Declarations outside namespace phosg whose name contains filt (e.g. the
    std::holds_alternative specialisations used by a unit): id -> node."""
    key = (unit_path, filt)
    if key in _aux:
        return _aux[key]
    roots = decode_dump(dump_path(unit_path, (), filt))
    out = {}
    for r in roots:
        for n in walk(r):
            i = n.get('id')
            if i and (n.get('kind') or '').endswith('Decl') and ('inner' in n or i not in out):
                out[i] = n
    _aux[key] = out
    return out


def repo_unit(name):
    """Load a library unit by file name, e.g. 'Strings.cc'."""
    return load_unit(os.path.join(src_dir(), name))


def witness_unit(name):
    return load_unit(os.path.join(VERIF, 'witness', name))


# --------------------------------------------------------------------------
# canonical expression strings (semantic normal form used for instance keys
# and for matching guards against accesses; built from the AST, never from text)

def ref_decl(n):
    """Referenced declaration stub of a DeclRefExpr / MemberExpr."""
    n = strip(n)
    if n is None:
        return None
    if n.get('kind') == 'DeclRefExpr':
        return n.get('referencedDecl')
    return None


def is_this(n):
    n = strip(n)
    return n is not None and n.get('kind') == 'CXXThisExpr'


def member_name(n):
    n = strip(n)
    if n is not None and n.get('kind') == 'MemberExpr':
        return n.get('name')
    return None


def callee_decl(call, unit=None):
    """Resolved callee of a call expression: returns a dict with at least
    name/kind (the referenced decl stub, or the full decl if found in unit)."""
    k = call.get('kind')
    if k in ('CXXMemberCallExpr',):
        m = strip(call['inner'][0])
        if m.get('kind') == 'MemberExpr':
            rid = m.get('referencedMemberDecl')
            d = unit.by_id.get(rid) if unit and rid else None
            return d or {'name': m.get('name'), 'id': rid, 'kind': 'CXXMethodDecl'}
        return None
    if k in ('CallExpr', 'CXXOperatorCallExpr', 'UserDefinedLiteral'):
        c = strip(call['inner'][0])
        if c.get('kind') == 'DeclRefExpr':
            rd = c.get('referencedDecl') or {}
            d = unit.by_id.get(rd.get('id')) if unit else None
            return d or rd
        if c.get('kind') == 'MemberExpr':
            rid = c.get('referencedMemberDecl')
            d = unit.by_id.get(rid) if unit and rid else None
            return d or {'name': c.get('name'), 'id': rid, 'kind': 'CXXMethodDecl'}
        return None
    return None


def call_name(call):
    d = callee_decl(call)
    return d.get('name') if d else None


def call_args(call):
    k = call.get('kind')
    inner = call.get('inner', [])
    if k in ('CallExpr', 'CXXMemberCallExpr', 'UserDefinedLiteral'):
        return inner[1:]
    if k == 'CXXOperatorCallExpr':
        return inner[1:]
    if k in ('CXXConstructExpr', 'CXXTemporaryObjectExpr'):
        return inner
    return inner


def member_call_object(call):
    """Implicit object expression of a member call."""
    m = strip(call['inner'][0])
    if m.get('kind') == 'MemberExpr' and m.get('inner'):
        return m['inner'][0]
    return None


def int_value(n):
    """Integer constant value of a (possibly cast / negated / folded) literal
    expression, else None."""
    n0 = n
    n = strip(n)
    if n is None:
        return None
    k = n.get('kind')
    if k == 'IntegerLiteral':
        return int(n['value'])
    if k == 'CharacterLiteral':
        return int(n['value'])
    if k == 'CXXBoolLiteralExpr':
        return 1 if n['value'] else 0
    if k == 'ConstantExpr' and 'value' in n:
        try:
            return int(n['value'])
        except (TypeError, ValueError):
            return None
    if k == 'UnaryOperator' and n.get('opcode') in ('-', '+', '~'):
        v = int_value(n['inner'][0])
        if v is None:
            return None
        return {'-': -v, '+': v, '~': ~v}[n['opcode']]
    if k in ('CStyleCastExpr', 'CXXStaticCastExpr', 'CXXFunctionalCastExpr', 'ImplicitCastExpr') and n.get('castKind') in ('IntegralCast', 'NoOp', 'IntegralToBoolean'):
        v = int_value(n['inner'][0])
        if v is None:
            return None
        return wrap_to_type(v, dtype(n))
    if k == 'BinaryOperator':
        a = int_value(n['inner'][0])
        b = int_value(n['inner'][1])
        if a is None or b is None:
            return None
        op = n.get('opcode')
        try:
            r = {'+': a + b, '-': a - b, '*': a * b, '<<': a << b if 0 <= b < 128 else None, '>>': a >> b if 0 <= b < 128 else None,
                 '&': a & b, '|': a | b, '^': a ^ b,
                 '/': (abs(a) // abs(b)) * (1 if (a < 0) == (b < 0) else -1) if b else None,
                 '%': (abs(a) % abs(b)) * (1 if a >= 0 else -1) if b else None}.get(op)
        except (ValueError, OverflowError):
            return None
        if r is None:
            return None
        return wrap_to_type(r, dtype(n))
    if k == 'UnaryExprOrTypeTraitExpr' and n.get('name') == 'sizeof':
        at = n.get('argType', {})
        cands = [at.get('qualType'), at.get('desugaredQualType')]
        if n.get('inner'):
            cands += [qtype(n['inner'][0]), dtype(n['inner'][0])]
        for t in cands:
            v = sizeof_type(t) if t else None
            if v is not None:
                return v
        return None
    if k == 'DeclRefExpr':
        rd = n.get('referencedDecl') or {}
        if rd.get('kind') == 'EnumConstantDecl':
            return None
        if rd.get('kind') == 'VarDecl':
            # a const-qualified integral variable with a constant initialiser is that constant
            # (named constants replacing magic numbers must not change any verdict)
            qt = ((rd.get('type') or {}).get('qualType') or '')
            if (qt.startswith('const ') or ' const' in qt) and '*' not in qt and '&' not in qt and '[' not in qt:
                if _CONST_DEPTH[0] < 6:
                    _CONST_DEPTH[0] += 1
                    try:
                        for d in DECLS.get(rd.get('id'), ()):
                            if d.get('kind') == 'VarDecl' and d.get('name') == rd.get('name') and d.get('inner'):
                                init = [c for c in d['inner'] if c.get('kind') and not c['kind'].endswith('Attr')]
                                if init:
                                    v = int_value(init[-1])
                                    if v is not None:
                                        return wrap_to_type(v, (d.get('type') or {}).get('desugaredQualType') or (d.get('type') or {}).get('qualType'))
                    finally:
                        _CONST_DEPTH[0] -= 1
    return None


_CONST_DEPTH = [0]


INT_TYPES = {
    'bool': (1, False), 'char': (8, True), 'signed char': (8, True), 'unsigned char': (8, False),
    'short': (16, True), 'unsigned short': (16, False), 'int': (32, True), 'unsigned int': (32, False),
    'long': (64, True), 'unsigned long': (64, False), 'long long': (64, True), 'unsigned long long': (64, False),
    'wchar_t': (32, True), 'char8_t': (8, False), 'char16_t': (16, False), 'char32_t': (32, False),
    '__int128': (128, True), 'unsigned __int128': (128, False),
    'uint8_t': (8, False), 'int8_t': (8, True), 'uint16_t': (16, False), 'int16_t': (16, True), 'uint32_t': (32, False), 'int32_t': (32, True),
    'uint64_t': (64, False), 'int64_t': (64, True), 'size_t': (64, False), 'ssize_t': (64, True), 'uintptr_t': (64, False), 'intptr_t': (64, True),
    'std::size_t': (64, False), 'off_t': (64, True), 'ptrdiff_t': (64, True),
}


def int_type_info(t):
    """(bits, signed) of a desugared builtin integer type name, else None."""
    if t is None:
        return None
    t = t.replace('const ', '').replace('volatile ', '').strip()
    if t.endswith(' const'):
        t = t[:-6]
    return INT_TYPES.get(t)


def wrap_to_type(v, t):
    info = int_type_info(t)
    if info is None:
        return v
    bits, signed = info
    if bits == 1:
        return 1 if v else 0
    v &= (1 << bits) - 1
    if signed and v >> (bits - 1):
        v -= 1 << bits
    return v


SIZEOF = {'float': 4, 'double': 8, 'long double': 16}


def sizeof_type(t):
    if t is None:
        return None
    t = t.replace('const ', '').strip()
    import re as _re
    ma = _re.match(r'^(.+?)\s*\[(\d+)\]$', t)
    if ma and '(' not in ma.group(1):
        e = sizeof_type(ma.group(1))
        return e * int(ma.group(2)) if e is not None else None
    if '*' in t:
        return 8
    i = int_type_info(t)
    if i:
        return max(1, i[0] // 8)
    if t in SIZEOF:
        return SIZEOF[t]
    # phosg endian wrappers: size encoded by name
    import re
    m = re.search(r'(?:^|::)(?:be|le|re)_(?:u?int)(\d+)_t$', t)
    if m:
        return int(m.group(1)) // 8
    m = re.search(r'(?:^|::)(?:be|le|re)_(float|double)$', t)
    if m:
        return 4 if m.group(1) == 'float' else 8
    m = re.search(r'(?:^|::)(?:big|little|reverse|same)_endian<([^,<>]+)(?:,.*)?>$', t)
    if m:
        return sizeof_type(m.group(1).strip())
    return None


COMMUTATIVE = {'+', '*', '&', '|', '^', '==', '!='}


def canon(n, unit=None, names=None):
    """Canonical string of an expression: value-preserving wrappers removed,
    `this->f` printed as `this.f`, locals by name (or via names map: decl id ->
    canonical replacement, used for parameter renaming), integer constants folded."""
    n = strip(n)
    if n is None:
        return '?'
    v = int_value(n)
    if v is not None and n.get('kind') not in ('DeclRefExpr',):
        return str(v)
    k = n.get('kind')
    if k == 'DeclRefExpr':
        rd = n.get('referencedDecl') or {}
        if names and rd.get('id') in names:
            return names[rd['id']]
        return rd.get('name', '?')
    if k == 'CXXThisExpr':
        return 'this'
    if k == 'MemberExpr':
        base = n['inner'][0] if n.get('inner') else None
        b = canon(base, unit, names) if base is not None else 'this'
        return '%s.%s' % (b, n.get('name'))
    if k == 'UnaryOperator':
        op = n.get('opcode')
        a = canon(n['inner'][0], unit, names)
        if n.get('isPostfix'):
            return '(%s%s)' % (a, op)
        if op == '*' and a.startswith('&'):
            return a[1:]
        return '%s%s' % (op, a)
    if k in ('BinaryOperator', 'CompoundAssignOperator'):
        op = n.get('opcode')
        a = canon(n['inner'][0], unit, names)
        b = canon(n['inner'][1], unit, names)
        if op in COMMUTATIVE and b < a:
            a, b = b, a
        return '(%s %s %s)' % (a, op, b)
    if k == 'CXXOperatorCallExpr':
        d = callee_decl(n)
        nm = d.get('name', 'operator?') if d else 'operator?'
        args = [canon(a, unit, names) for a in n['inner'][1:]]
        op = nm[len('operator'):]
        if len(args) == 2 and op != '()':
            if op == '[]':
                return '%s[%s]' % (args[0], args[1])
            return '(%s %s %s)' % (args[0], op, args[1])
        if len(args) == 1:
            return '%s%s' % (op, args[0])
        return '%s(%s)' % (nm, ', '.join(args))
    if k == 'CXXMemberCallExpr':
        m = strip(n['inner'][0])
        obj = canon(m['inner'][0], unit, names) if m.get('inner') else 'this'
        args = [canon(a, unit, names) for a in n['inner'][1:] if a.get('kind') != 'CXXDefaultArgExpr']
        return '%s.%s(%s)' % (obj, m.get('name'), ', '.join(args))
    if k == 'CallExpr':
        c = strip(n['inner'][0])
        nm = canon(c, unit, names)
        args = [canon(a, unit, names) for a in n['inner'][1:] if a.get('kind') != 'CXXDefaultArgExpr']
        return '%s(%s)' % (nm, ', '.join(args))
    if k == 'ArraySubscriptExpr':
        return '%s[%s]' % (canon(n['inner'][0], unit, names), canon(n['inner'][1], unit, names))
    if k in ('CStyleCastExpr', 'CXXStaticCastExpr', 'CXXFunctionalCastExpr', 'CXXReinterpretCastExpr', 'CXXConstCastExpr', 'ImplicitCastExpr'):
        inner = canon(n['inner'][0], unit, names) if n.get('inner') else '?'
        ck = n.get('castKind')
        c0 = n['inner'][0] if n.get('inner') else {}
        if ck == 'NoOp' and c0.get('kind') == 'ImplicitCastExpr' and c0.get('isPartOfExplicitCast') and c0.get('castKind') not in BENIGN_CASTS:
            return '(%s)%s' % (dtype(n), inner)
        if ck in ('IntegralCast', 'NoOp', 'LValueToRValue', 'BitCast', 'ArrayToPointerDecay', 'FunctionToPointerDecay', 'DerivedToBase', 'UncheckedDerivedToBase'):
            if ck == 'IntegralCast':
                return '(%s)%s' % (dtype(n), inner)
            if ck == 'BitCast':
                return '(%s)%s' % (qtype(n), inner)
            return inner
        return '(%s)%s' % (qtype(n), inner)
    if k == 'ConditionalOperator':
        c, a, b = n['inner'][:3]
        c0 = strip(c)
        if c0 is not None and c0.get('kind') == 'BinaryOperator' and c0.get('opcode') in ('<', '<=', '>', '>='):
            x_, y_ = canon(c0['inner'][0], unit, names), canon(c0['inner'][1], unit, names)
            a_, b_ = canon(a, unit, names), canon(b, unit, names)
            less = c0['opcode'] in ('<', '<=')
            if (a_, b_) == (x_, y_):
                return '%s(%s, %s)' % ('min' if less else 'max', x_, y_)
            if (a_, b_) == (y_, x_):
                return '%s(%s, %s)' % ('max' if less else 'min', x_, y_)
        return '(%s ? %s : %s)' % (canon(c, unit, names), canon(a, unit, names), canon(b, unit, names))
    if k == 'StringLiteral':
        return n.get('value', '""')
    if k == 'FloatingLiteral':
        return str(n.get('value'))
    if k == 'CXXNullPtrLiteralExpr':
        return 'nullptr'
    if k == 'UnaryExprOrTypeTraitExpr':
        t = n.get('argType', {}).get('qualType')
        if t is None and n.get('inner'):
            t = 'expr:' + canon(n['inner'][0], unit, names)
        return '%s(%s)' % (n.get('name'), t)
    if k in ('CXXConstructExpr', 'CXXTemporaryObjectExpr'):
        args = [canon(a, unit, names) for a in kids(n) if a.get('kind') != 'CXXDefaultArgExpr']
        if len(args) == 1 and n.get('kind') == 'CXXConstructExpr' and (n.get('elidable') or True) and dtype(n) == dtype(strip(n['inner'][0])):
            return args[0]
        return '%s{%s}' % (qtype(n), ', '.join(args))
    if k == 'CXXDefaultArgExpr':
        return '<default>'
    if k == 'InitListExpr':
        return '{%s}' % ', '.join(canon(a, unit, names) for a in kids(n))
    if k == 'LambdaExpr':
        return '<lambda@%s>' % n.get('_line')
    if k == 'CXXNewExpr':
        return 'new %s(%s)' % (qtype(n), ', '.join(canon(a, unit, names) for a in kids(n)))
    if k == 'CXXThrowExpr':
        return 'throw %s' % (', '.join(canon(a, unit, names) for a in kids(n)))
    return '<%s>' % k


def stmts_of(body):
    if body is None:
        return []
    if body.get('kind') == 'CompoundStmt':
        return list(kids(body))
    return [body]


def calls_in(n):
    for x in walk(n):
        if x.get('kind') in ('CallExpr', 'CXXMemberCallExpr', 'CXXOperatorCallExpr'):
            yield x


def lambda_bodies(n):
    for x in walk(n):
        if x.get('kind') == 'LambdaExpr':
            yield x


# --------------------------------------------------------------------------
# normal form: like canon(), but sums and products are flattened and sorted
# after an optional leaf renaming, so that `y*w + x`, `x + w*y` and the same
# expression under a variable renaming compare equal.

def nf(n, leaf=None):
    n = strip(n)
    if n is None:
        return '?'
    v = int_value(n)
    if v is not None:
        return str(v)
    k = n.get('kind')
    if k in ('BinaryOperator', 'CompoundAssignOperator'):
        op = n.get('opcode')
        if op in ('+', '*', '&', '|', '^', '&&', '||'):
            terms = []

            def flat(x):
                x = strip(x)
                if x.get('kind') == 'BinaryOperator' and x.get('opcode') == op and int_value(x) is None:
                    flat(x['inner'][0])
                    flat(x['inner'][1])
                else:
                    terms.append(nf(x, leaf))
            flat(n)
            if op in ('&&', '||'):
                return '(' + (' %s ' % op).join(terms) + ')'
            if op in ('+', '*'):
                # fold the constant factors/terms of a flattened product/sum (minutes * 60 * 1000000 -> 60000000 * minutes)
                consts = [int(t) for t in terms if t.lstrip('-').isdigit()]
                rest = [t for t in terms if not t.lstrip('-').isdigit()]
                if len(consts) > 1 or (consts and not rest):
                    acc = 1 if op == '*' else 0
                    for c_ in consts:
                        acc = acc * c_ if op == '*' else acc + c_
                    terms = rest + [str(acc)]
                    if not rest:
                        return str(acc)
            return '(' + (' %s ' % op).join(sorted(terms)) + ')'
        a, b = nf(n['inner'][0], leaf), nf(n['inner'][1], leaf)
        if op in ('==', '!=') and b < a:
            a, b = b, a
        if op in ('>', '>='):
            a, b, op = b, a, {'>': '<', '>=': '<='}[op]
        return '(%s %s %s)' % (a, op, b)
    if k == 'UnaryOperator':
        a = nf(n['inner'][0], leaf)
        op = n.get('opcode')
        if op == '*' and leaf:
            r = leaf('*' + a)
            if r is not None:
                return r
        return ('(%s%s)' % (a, op)) if n.get('isPostfix') else ('%s%s' % (op, a))
    if k in ('CStyleCastExpr', 'CXXStaticCastExpr', 'CXXFunctionalCastExpr', 'CXXReinterpretCastExpr', 'ImplicitCastExpr', 'CXXConstCastExpr'):
        # integral casts are kept out of the normal form (signedness of comparisons is checked separately)
        return nf(n['inner'][0], leaf) if n.get('inner') else '?'
    if k == 'ConditionalOperator':
        c, a, b = n['inner'][:3]
        if int_value(a) == 1 and int_value(b) == 0 and dtype(strip(c)) == 'bool':
            return nf(c, leaf)     # (flag ? 1 : 0) is the flag
        # (x < y) ? x : y  is min(x, y);  (x < y) ? y : x  is max(x, y)   (any of < <= > >=)
        c0 = strip(c)
        if c0 is not None and c0.get('kind') == 'BinaryOperator' and c0.get('opcode') in ('<', '<=', '>', '>='):
            x_, y_ = nf(c0['inner'][0], leaf), nf(c0['inner'][1], leaf)
            a_, b_ = nf(a, leaf), nf(b, leaf)
            less = c0['opcode'] in ('<', '<=')
            if (a_, b_) == (x_, y_):
                return '%s(%s)' % ('min' if less else 'max', ', '.join(sorted([x_, y_])))
            if (a_, b_) == (y_, x_):
                return '%s(%s)' % ('max' if less else 'min', ', '.join(sorted([x_, y_])))
        return '(%s ? %s : %s)' % (nf(c, leaf), nf(a, leaf), nf(b, leaf))
    if k == 'CXXMemberCallExpr':
        m = strip(n['inner'][0])
        obj = nf(m['inner'][0], leaf) if m.get('inner') else 'this'
        nm = m.get('name')
        s = '%s.%s(%s)' % (obj, nm, ', '.join(nf(a, leaf) for a in n['inner'][1:] if a.get('kind') != 'CXXDefaultArgExpr'))
        if leaf:
            r = leaf(s)
            if r is not None:
                return r
        return s
    if k == 'ArraySubscriptExpr':
        return '%s[%s]' % (nf(n['inner'][0], leaf), nf(n['inner'][1], leaf))
    if k in ('CXXConstructExpr', 'CXXFunctionalCastExpr', 'CXXTemporaryObjectExpr'):
        args = [a for a in kids(n) if a.get('kind') != 'CXXDefaultArgExpr']
        if len(args) == 1:
            return nf(args[0], leaf)   # converting construction (uint32_t -> le_uint32_t, const char* -> std::string)
    s = canon(n)
    if leaf:
        r = leaf(s)
        if r is not None:
            return r
    return s


def prod_form(n, env=None, leaf=None):
    """(constant, sorted symbolic factors) of a product expression.  env maps a
    canonical leaf string (e.g. 'this.width') to an int or to an AST node that is
    substituted for it; sums whose terms all fold become constants."""
    env = env or {}
    n = strip(n)
    if n is None:
        return (1, ['?'])
    c = canon(n)
    if c in env:
        v = env[c]
        if isinstance(v, int):
            return (v, [])
        if isinstance(v, str):
            return (1, [v])
        return prod_form(v, env, leaf)
    iv = int_value(n)
    if iv is not None and n.get('kind') != 'DeclRefExpr':
        return (iv, [])
    k = n.get('kind')
    if k in ('CStyleCastExpr', 'CXXStaticCastExpr', 'CXXFunctionalCastExpr', 'ImplicitCastExpr') and n.get('inner'):
        return prod_form(n['inner'][0], env, leaf)
    if k == 'ConditionalOperator':
        cnd, a, b = n['inner'][:3]
        if int_value(a) == 1 and int_value(b) == 0:
            return prod_form(cnd, env, leaf)
        cv = prod_form(cnd, env, leaf)
        if not cv[1]:
            return prod_form(a if cv[0] else b, env, leaf)
        return (1, ['(%s ? %s : %s)' % (pf_str(cv), pf_str(prod_form(a, env, leaf)), pf_str(prod_form(b, env, leaf)))])
    if k == 'BinaryOperator':
        op = n.get('opcode')
        a, b = prod_form(n['inner'][0], env, leaf), prod_form(n['inner'][1], env, leaf)
        if op == '*':
            return (a[0] * b[0], sorted(a[1] + b[1]))
        if not a[1] and not b[1]:
            try:
                r = {'+': a[0] + b[0], '-': a[0] - b[0], '/': a[0] // b[0] if b[0] else None, '%': a[0] % b[0] if b[0] else None,
                     '==': int(a[0] == b[0]), '!=': int(a[0] != b[0]), '<': int(a[0] < b[0]), '>': int(a[0] > b[0])}.get(op)
            except ZeroDivisionError:
                r = None
            if r is not None:
                return (r, [])
        sa, sb = pf_str(a), pf_str(b)
        if op in ('+',) and sb < sa:
            sa, sb = sb, sa
        return (1, ['(%s %s %s)' % (sa, op, sb)])
    s = nf(n, leaf)
    return (1, [s])


def pf_str(pf):
    c, fs = pf
    if not fs:
        return str(c)
    if c == 1:
        return ' * '.join(fs) if len(fs) == 1 else '(' + ' * '.join(fs) + ')'
    return '(' + ' * '.join([str(c)] + fs) + ')'


def walk_deep(node, unit, depth=2, _seen=None):
    """walk(node), continued through the bodies of the repository's own functions that are called
    inside it (helpers extracted from the anchored function are analysed as part of it)."""
    if _seen is None:
        _seen = set()
    for x in walk(node):
        yield x
        if depth > 0 and x.get('kind') in ('CallExpr', 'CXXMemberCallExpr', 'CXXOperatorCallExpr'):
            d = callee_decl(x, unit)
            if d is None:
                continue
            b = body_of(d)
            if b is None:
                mn = d.get('mangledName')
                for f in unit.functions:
                    if mn and f.get('mangledName') == mn and body_of(f) is not None:
                        d, b = f, body_of(f)
                        break
            if b is None or id(b) in _seen:
                continue
            f_ = d.get('_file') or ''
            if '/usr/' in f_ or 'include/c++' in f_:
                continue
            _seen.add(id(b))
            for y in walk_deep(b, unit, depth - 1, _seen):
                yield y


def renorm(s):
    """Re-normalise a canonical expression string after textual substitution: operands of the
    commutative operators are sorted again, redundant outer parentheses dropped."""
    s = s.strip()

    def split_top(body):
        parts, ops, depth, cur, i = [], [], 0, '', 0
        while i < len(body):
            ch = body[i]
            if ch in '([':
                depth += 1
            elif ch in ')]':
                depth -= 1
            if depth == 0 and ch == ' ':
                m = re.match(r' (\+|\*|-|/|%|&&|\|\||&|\||\^|<<|>>|<=|>=|==|!=|<|>|\?|:) ', body[i:])
                if m:
                    parts.append(cur)
                    ops.append(m.group(1))
                    cur = ''
                    i += m.end()
                    continue
            cur += ch
            i += 1
        parts.append(cur)
        return parts, ops

    def outer_parens(t):
        if not (t.startswith('(') and t.endswith(')')):
            return False
        depth = 0
        for i, ch in enumerate(t):
            if ch == '(':
                depth += 1
            elif ch == ')':
                depth -= 1
                if depth == 0 and i != len(t) - 1:
                    return False
        return True

    def norm(t):
        t = t.strip()
        while outer_parens(t):
            inner = t[1:-1]
            parts, ops = split_top(inner)
            if not ops:
                t = inner.strip()
                continue
            parts = [norm(p) for p in parts]
            if len(set(ops)) == 1 and ops[0] in ('+', '*', '&', '|', '^'):
                # flatten nested same-operator operands
                flat = []
                for p in parts:
                    if outer_parens(p):
                        ip, io = split_top(p[1:-1])
                        if io and set(io) == {ops[0]}:
                            flat.extend(x.strip() for x in ip)
                            continue
                    flat.append(p)
                return '(' + (' %s ' % ops[0]).join(sorted(flat)) + ')'
            out = parts[0]
            for o, p in zip(ops, parts[1:]):
                out += ' %s %s' % (o, p)
            return '(' + out + ')'
        return t
    return norm(s)
