"""E-GUARD: bounds obligations.  An access is (start A, extent E, capacity L);
it is discharged iff the facts holding at the site contain  A <= L (or A < L)
and  E <= L - A  in subtraction form (or E is literally L - A).  A guard in
sum form (A + E compared with L) is never accepted: for A or E near 2^64 the
sum wraps and the test passes while the access is out of bounds."""
from ast_ import *
from path import *

CASTS = ('CStyleCastExpr', 'CXXStaticCastExpr', 'CXXFunctionalCastExpr', 'CXXReinterpretCastExpr', 'CXXConstCastExpr', 'ImplicitCastExpr')


def strip_casts(n):
    while n is not None:
        n = strip(n)
        if n is not None and n.get('kind') in CASTS and n.get('inner'):
            n = n['inner'][0]
            continue
        return n
    return n


def up_through_casts(n):
    """Parent of n above any cast/paren wrappers, and the child through which it
    was reached."""
    c = n
    p = n.get('_p')
    while p is not None and (p.get('kind') in CASTS or p.get('kind') in TRANSPARENT):
        c = p
        p = p.get('_p')
    return p, c


class GetterInliner:
    """canon() with trivial const getters of the same class expanded
    (`this->remaining()` -> `(this.length - this.offset)`)."""

    def __init__(self, unit, record_qualname):
        self.unit = unit
        self.map = {}
        self.nodes = {}
        for f in unit.functions:
            q = unit.qualname(f)
            if not strip_targs(q).startswith(record_qualname + '::'):
                continue
            if params_of(f):
                continue
            b = body_of(f)
            st = stmts_of(b)
            if len(st) == 1 and st[0].get('kind') == 'ReturnStmt' and kids(st[0]):
                e = kids(st[0])[0]
                if not any(x.get('kind') in ('CallExpr', 'CXXMemberCallExpr') for x in walk(e)):
                    self.map['this.%s()' % f.get('name')] = canon(e)
                    self.nodes['this.%s()' % f.get('name')] = e

    def c(self, n):
        s = canon(n)
        for k, v in self.map.items():
            if k in s:
                s = s.replace(k, v)
        return subst_locals(s, n, self)


_LOCAL_DEFS = {}


def local_defs(func, inl=None):
    """{name: canonical initialiser} of the locals of func that are assigned exactly once (their
    declaration): hoisting a sub-expression into such a local must not change any verdict."""
    key = (id(func), id(inl))
    if key in _LOCAL_DEFS:
        return _LOCAL_DEFS[key]
    out = {}
    body = body_of(func)
    if body is None:
        _LOCAL_DEFS[key] = out
        return out
    written = {}
    for x in walk(body):
        k = x.get('kind')
        if k in ('BinaryOperator', 'CompoundAssignOperator') and x.get('opcode') in ASSIGN_OPS:
            rd = ref_decl(x['inner'][0])
            if rd:
                written[rd.get('id')] = written.get(rd.get('id'), 0) + 1
        elif k == 'UnaryOperator' and x.get('opcode') in ('++', '--', '&'):
            rd = ref_decl(x['inner'][0])
            if rd:
                written[rd.get('id')] = written.get(rd.get('id'), 0) + 1
    names = {}
    for x in walk(body):
        if x.get('kind') == 'VarDecl' and x.get('name'):
            names[x['name']] = names.get(x['name'], 0) + 1
    for x in walk(body):
        if x.get('kind') == 'VarDecl' and x.get('name') and kids(x) and not written.get(x['id']) and names.get(x['name']) == 1:
            t = dtype(x) or ''
            qt_ = (qtype(x) or '').rstrip()
            if (int_type_info(t) is None and not (qt_.endswith('*const') or qt_.endswith('* const') or qt_.endswith('*'))) or (x.get('storageClass') == 'static' and not (qtype(x) or '').startswith('const')):
                continue
            if enclosing(x, ('ForStmt', 'WhileStmt', 'DoStmt', 'CXXForRangeStmt')) is not None and False:
                continue
            init = kids(x)[-1]
            if int_type_info(t) is None and any(c.get('kind') in ('CallExpr', 'CXXMemberCallExpr', 'CXXOperatorCallExpr') and (call_name(c) or '') not in ('data', 'c_str', 'get') for c in walk(init)):
                continue     # a pointer obtained from a container observer (front(), begin(), ...) is not stable across mutations
            def _observer(c):
                # a const member function without arguments (get_width(), size(), ...)
                if c.get('kind') != 'CXXMemberCallExpr' or call_args(c):
                    return False
                m_ = strip(kids(c)[0])
                from path import _method_is_const
                return m_.get('kind') == 'MemberExpr' and _method_is_const(m_)
            if any(c.get('kind') in ('CallExpr', 'CXXMemberCallExpr', 'CXXOperatorCallExpr') and (call_name(c) or '') not in ('min', 'max', 'size', 'length', 'remaining', 'where', 'operator[]', 'at', 'data', 'c_str') and not (call_name(c) or '').startswith('operator ') and not _observer(c) for c in walk(init)):
                continue     # only pure arithmetic over parameters / fields / observers
            s = canon(init)
            if inl is not None:
                for k_, v_ in inl.map.items():
                    if k_ in s:
                        s = s.replace(k_, v_)
            out[x['name']] = s
    # resolve chains (a local defined from another local)
    import re as _re
    for _ in range(4):
        changed = False
        for nm, s in list(out.items()):
            for o, so in out.items():
                if o != nm and _re.search(r'(?<![\w.>])%s(?![\w(])' % _re.escape(o), s):
                    out[nm] = _re.sub(r'(?<![\w.>])%s(?![\w(])' % _re.escape(o), so, s)
                    changed = True
        if not changed:
            break
    _LOCAL_DEFS[key] = out
    return out


def subst_locals(s, node, inl=None):
    f = enclosing_function(node) if node is not None else None
    if f is None:
        return s
    defs = local_defs(f, inl)
    if not defs:
        return s
    import re as _re
    for nm, e in defs.items():
        if nm in s:
            s = _re.sub(r'(?<![\w.>])%s(?![\w(])' % _re.escape(nm), e, s)
    return s


_CLAMP = {}


def clamp_summary(func):
    """(index of the capacity parameter, index of the start parameter) when every return of func is
    either 0 or min(capacity - start, something) reached under start < capacity: a "how much may a
    clamping read take" helper.  A non-zero result r then implies start < capacity and r <= capacity - start."""
    key = id(func)
    if key in _CLAMP:
        return _CLAMP[key]
    res = None
    ps = params_of(func)
    body = body_of(func)
    if body is not None and len(ps) >= 2 and all(int_type_info(dtype(p) or '') for p in ps):
        names = [p.get('name') for p in ps]
        cand = None
        ok = True
        rets = [r for r in walk(body) if r.get('kind') == 'ReturnStmt' and kids(r)]
        for r in rets:
            e = subst_locals(nf(kids(r)[0]), r)
            if int_value(kids(r)[0]) == 0 or e == '0':
                continue
            found = None
            for iL, L in enumerate(names):
                for iO, O in enumerate(names):
                    if iL == iO:
                        continue
                    diff = '(%s - %s)' % (L, O)
                    if e == diff or (e.startswith('min(') and diff in _call_args_of(e)):
                        rl = [(subst_locals(nf(x[0]), r), x[1], subst_locals(nf(x[2]), r)) for x in [relation(n_, p_) for n_, p_ in atoms(path_facts(r))] if x]
                        if holds(rl, O, ('<',), L):
                            found = (iL, iO)
            if found is None or (cand is not None and cand != found):
                ok = False
                break
            cand = found
        if ok and cand is not None and rets:
            res = cand
    _CLAMP[key] = res
    return res


def rels_at(site, inl, extra=(), _no_inv=False):
    """Normalised relations (lhs, op, rhs) as canon strings holding at site."""
    out = []
    for n, pol in atoms(path_facts(site)):
        r = relation(n, pol)
        if r:
            out.append((inl.c(r[0]), r[1], inl.c(r[2])))
            # `v != 0` / `v > 0` where v = clamp(capacity, start, n): start < capacity and v <= capacity - start
            for v_, z_ in ((r[0], r[2]), (r[2], r[0])):
                if int_value(z_) == 0 and ((r[1] in ('!=', '>') and v_ is r[0]) or (r[1] in ('!=', '<') and v_ is r[2])):
                    rd = ref_decl(v_)
                    f_ = enclosing_function(site)
                    vd = next((x for x in walk(body_of(f_)) if x.get('kind') == 'VarDecl' and rd is not None and x.get('id') == rd.get('id') and kids(x)), None) if f_ is not None and body_of(f_) is not None else None
                    call = strip(kids(vd)[-1]) if vd is not None else None
                    while call is not None and call.get('kind') in ('ImplicitCastExpr', 'ExprWithCleanups', 'ParenExpr') and kids(call):
                        call = strip(kids(call)[0])
                    if call is not None and call.get('kind') == 'CallExpr' and getattr(inl, 'unit', None) is not None:
                        d = callee_decl(call, inl.unit)
                        cs = clamp_summary(d) if d is not None and body_of(d) is not None else None
                        a_ = call_args(call)
                        if cs and len(a_) > max(cs):
                            L_, O_ = inl.c(a_[cs[0]]), inl.c(a_[cs[1]])
                            out.append((O_, '<', L_))
                            out.append((inl.c(v_), '<=', '(%s - %s)' % (L_, O_)))
        elif strip(n).get('kind') == 'CXXMemberCallExpr' and canon(n) in getattr(inl, 'nodes', {}):
            # a boolean getter (`eof()` = `offset >= length`) tested as a condition: its comparison, with the polarity
            r2 = relation(inl.nodes[canon(n)], pol)
            if r2:
                out.append((inl.c(r2[0]), r2[1], inl.c(r2[2])))
        elif pol and ref_decl(n) is not None:
            pass
    out.extend(extra)
    if not _no_inv:
        out.extend(counter_invariants(site, inl, out))
    return derive_strict(out)


def derive_strict(out):
    """v <= L together with v != L is v < L"""
    for a, op, b in list(out):
        if op == '<=' and any((x == a and y == b) or (x == b and y == a) for x, o2, y in out if o2 == '!='):
            out.append((a, '<', b))
        if op == '>=' and any((x == a and y == b) or (x == b and y == a) for x, o2, y in out if o2 == '!='):
            out.append((a, '>', b))
    return out


def with_cond(rels, cond, pol, inl):
    """rels extended with the comparison atoms of `cond` taken with polarity pol"""
    out = list(rels)
    for n, p_ in atoms([Fact(cond, pol, cond)]):
        r = relation(n, p_)
        if r:
            out.append((inl.c(r[0]), r[1], inl.c(r[2])))
    return derive_strict(out)


_COUNTERS = {}


def counter_invariants(site, inl, rels_here):
    """Facts about monotone counters: a local `v` initialised to A with A <= L, whose only write is one
    `++v` / `v += 1` inside a while/for loop whose condition has the conjunct `v != L` or `v < L`,
    satisfies v <= L everywhere after its declaration (induction over the iterations: the increment runs
    only under v < L).  Also v - A <= L - A while nothing A mentions has been written."""
    f = enclosing_function(site)
    if f is None or body_of(f) is None:
        return []
    key = (id(f), id(inl))
    if key not in _COUNTERS:
        found = []
        body = body_of(f)
        for vd in walk(body):
            if vd.get('kind') != 'VarDecl' or not kids(vd) or int_type_info(dtype(vd) or '') is None or enclosing(vd, ('LambdaExpr',)) is not None:
                continue
            ws = []
            for x in walk(body):
                k = x.get('kind')
                if k in ('BinaryOperator', 'CompoundAssignOperator') and x.get('opcode') in ASSIGN_OPS and (ref_decl(x['inner'][0]) or {}).get('id') == vd['id']:
                    ws.append(x)
                elif k == 'UnaryOperator' and x.get('opcode') in ('++', '--') and (ref_decl(x['inner'][0]) or {}).get('id') == vd['id']:
                    ws.append(x)
                elif k == 'UnaryOperator' and x.get('opcode') == '&' and (ref_decl(x['inner'][0]) or {}).get('id') == vd['id']:
                    ws.append({'kind': 'escape'})
            if len(ws) != 1:
                continue
            w = ws[0]
            if not ((w.get('kind') == 'UnaryOperator' and w.get('opcode') == '++') or (w.get('kind') == 'CompoundAssignOperator' and w.get('opcode') == '+=' and int_value(w['inner'][1]) == 1)):
                continue
            lp = enclosing(w, LOOPS)
            if lp is None or lp.get('kind') not in ('WhileStmt', 'ForStmt') or any(y is vd for y in walk(lp)) and lp.get('kind') == 'WhileStmt':
                continue
            cond = while_parts(lp)[0] if lp.get('kind') == 'WhileStmt' else for_parts(lp)[1]
            if cond is None:
                continue
            in_for_init = lp.get('kind') == 'ForStmt' and any(y is vd for y in walk(for_parts(lp)[0] or {}))
            if not in_for_init and any(y is vd for y in walk(lp)):
                continue
            for n_, pol in atoms([Fact(cond, True, lp)]):
                r = relation(n_, pol)
                if not r:
                    continue
                for a_, o_, b_ in ((r[0], r[1], r[2]), (r[2], FLIP[r[1]], r[0])):
                    if (ref_decl(a_) or {}).get('id') == vd['id'] and o_ in ('!=', '<'):
                        L = inl.c(b_)
                        if vd.get('name') in _identifiers(L):
                            continue
                        found.append((vd, lp, L, o_))
        _COUNTERS[key] = found
    out = []
    for vd, lp, L, o_ in _COUNTERS[key]:
        if vd.get('_off', 0) > site.get('_off', 0):
            continue
        A = inl.c(kids(vd)[-1])
        # L must not be written in the function, A <= L at the declaration
        fbody = body_of(f)
        lw = [x for x in walk(fbody) if x.get('kind') in ('BinaryOperator', 'CompoundAssignOperator', 'UnaryOperator') and x.get('opcode') in tuple(ASSIGN_OPS) + ('++', '--') and kids(x) and canon(x['inner'][0]) in _identifiers(L) | {L}]
        if lw:
            continue
        rels_decl = rels_at(vd, inl, _no_inv=True)
        if not (A == L or holds(rels_decl, A, ('<=', '<'), L) or A == '0'):
            continue
        v = vd.get('name')
        out.append((v, '<=', L))
        aw = [x for x in walk(fbody) if x.get('kind') in ('BinaryOperator', 'CompoundAssignOperator', 'UnaryOperator') and x.get('opcode') in tuple(ASSIGN_OPS) + ('++', '--') and kids(x) and canon(x['inner'][0]) in _identifiers(A) and x.get('_off', 0) < site.get('_off', 0)]
        if not aw and A != '0':
            out.append(('(%s - %s)' % (v, A), '<=', '(%s - %s)' % (L, A)))
            out.append((A, '<=', v))
    return out


def _identifiers(s):
    import re
    return set(re.findall(r'[A-Za-z_][A-Za-z_0-9.]*', s or ''))


def holds(rels, lhs, ops, rhs):
    """Is `lhs op rhs` among rels for some op in ops (either orientation)?"""
    for a, op, b in rels:
        if a == lhs and b == rhs and op in ops:
            return True
        if a == rhs and b == lhs and FLIP[op] in ops:
            return True
    return False


def _const(s):
    try:
        return int(s)
    except (TypeError, ValueError):
        return None


def sum_form_guards(rels, A, E, L):
    """Relations that compare a sum containing A (or E) with L: the wrapping idiom."""
    bad = []
    for a, op, b in rels:
        for side, other in ((a, b), (b, a)):
            if other == L and side.startswith('(') and ' + ' in side:
                terms = _sum_terms(side)
                if A in terms or (E in terms and _const(E) is None):
                    bad.append('%s %s %s' % (a, op, b))
    return bad


def _sum_terms(s):
    # top-level terms of a canonical sum "(x + y)"
    if not (s.startswith('(') and s.endswith(')')):
        return [s]
    body = s[1:-1]
    depth = 0
    terms = []
    cur = ''
    i = 0
    while i < len(body):
        ch = body[i]
        if ch == '(' or ch == '[':
            depth += 1
        elif ch == ')' or ch == ']':
            depth -= 1
        if depth == 0 and body.startswith(' + ', i):
            terms.append(cur)
            cur = ''
            i += 3
            continue
        cur += ch
        i += 1
    terms.append(cur)
    if len(terms) == 1:
        return [s]
    out = []
    for t in terms:
        out.extend(_sum_terms(t) if t.startswith('(') and ' + ' in t else [t])
    return out


def split_const(A):
    """A = base + k with k a non-negative constant -> (base, k)."""
    terms = _sum_terms(A)
    ks = [t for t in terms if _const(t) is not None]
    others = [t for t in terms if _const(t) is None]
    if len(others) == 1 and len(ks) <= 1:
        return others[0], (_const(ks[0]) if ks else 0)
    if not others and len(ks) == 1:
        return '0', _const(ks[0])
    if len(others) > 1 and len(ks) == 1:
        return '(' + ' + '.join(sorted(others)) + ')', _const(ks[0])
    return A, 0


def _call_args_of(s):
    body = s[s.index('(') + 1:-1]
    out, depth, cur = [], 0, ''
    for ch in body:
        if ch in '([<':
            depth += 1
        elif ch in ')]>':
            depth -= 1
        if ch == ',' and depth == 0:
            out.append(cur.strip())
            cur = ''
        else:
            cur += ch
    if cur.strip():
        out.append(cur.strip())
    return out


def inbounds(rels, A, E, L):
    """(ok, reason).  A, E, L canonical strings."""
    base, k = split_const(A)
    ec = _const(E)
    if k and ec is None:
        return False, 'start %s has a constant displacement but the extent %s is not constant' % (A, E)
    need = (k + ec) if ec is not None else None   # bytes needed from base
    if base == '0':
        a_ok = True
        diff = L
    else:
        a_ok = holds(rels, base, ('<=', '<'), L)
        diff = '(%s - %s)' % (L, base)
    if need is not None:
        e_ok = False
        if need == 0:
            e_ok = True
        for a, op, b in rels:
            for x, o, y in ((a, op, b), (b, FLIP[op], a)):
                if x == diff and _const(y) is not None:
                    c = _const(y)
                    if (o == '>=' and c >= need) or (o == '>' and c + 1 >= need):
                        e_ok = True
        if not e_ok and base != '0' and holds(rels, base, ('<',), L) and need <= 1:
            e_ok = True   # base < L gives one byte
    else:
        e_ok = (E == diff) or holds(rels, E, ('<=', '<'), diff)
        if base == '0' and E == L:
            e_ok = True
        if not e_ok and E.startswith('min(') and E.endswith(')'):
            # E = min(x, y) <= each operand
            for arg in _call_args_of(E):
                if arg == diff or holds(rels, arg, ('<=', '<'), diff) or (base == '0' and arg == L):
                    e_ok = True
    if a_ok and e_ok:
        return True, 'guarded by %s <= %s and %s <= %s' % (base, L, E if need is None else need, diff)
    # the mirrored overflow-safe form: E <= L and A <= L - E (equally free of wrap-around)
    if not k and need is None and base != '0' and holds(rels, E, ('<=', '<'), L) and holds(rels, base, ('<=', '<'), '(%s - %s)' % (L, E)):
        return True, 'guarded by %s <= %s and %s <= (%s - %s)' % (E, L, base, L, E)
    sums = sum_form_guards(rels, base, E, L)
    if sums:
        return False, 'wrapping-sum guard `%s`: for %s or %s near 2^64 the sum wraps, the test passes and the access is out of bounds' % (sums[0], base, E)
    miss = []
    if not a_ok:
        miss.append('%s <= %s' % (base, L))
    if not e_ok:
        miss.append('%s <= %s' % (E if need is None else need, diff))
    return False, 'no dominating overflow-safe guard establishes %s (facts here: %s)' % (' and '.join(miss), ['%s %s %s' % r for r in rels][:6])
