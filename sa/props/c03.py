"""C03 - endian-explicit scalars act as native values stored in the named byte order."""
import re

from ast_ import *
from path import *
from bits import *

ALIASES = ['%s_%s' % (e, t) for e in ('re', 'le', 'be') for t in ('uint16_t', 'int16_t', 'uint32_t', 'int32_t', 'uint64_t', 'int64_t', 'float', 'double')]
ALIAS_SIZE = {'uint16_t': 2, 'int16_t': 2, 'uint32_t': 4, 'int32_t': 4, 'uint64_t': 8, 'int64_t': 8, 'float': 4, 'double': 8}


def targs(f):
    return [c['type']['qualType'] for c in kids(f) if c.get('kind') == 'TemplateArgument' and 'type' in c]


def bswap_spec(N, RW, sym='a'):
    out = []
    nb = N // 8
    for i in range(RW):
        if i < N:
            j, b = divmod(i, 8)
            out.append(('i', sym, 8 * (nb - 1 - j) + b))
        else:
            out.append(0)
    return out


def check_lane_functions(ctx, u, I):
    R = 'C03-R1'
    for nm, N in (('bswap16', 16), ('bswap24', 24), ('bswap32', 32), ('bswap48', 48), ('bswap64', 64)):
        f = u.func('phosg::' + nm)[0]
        ctx.fn('phosg::' + nm)
        p = params_of(f)[0]
        pw, ps = int_type_info(dtype(p))
        I.notes = []
        v = I.eval_function(f, {p['id']: sym_bv('a', pw, ps)})
        if v is None:
            ctx.bad(R, nm + '|lanes', f, 'body is not straight-line shift/mask code; lane map cannot be derived')
            continue
        bad = expect_lanes(v, bswap_spec(N, v.w))
        if bad and all(g_ == T for _, g_, _w in bad):
            ctx.undecided(R, nm + '|lanes', f, 'the bit map could not be derived for %d bit(s) (an operation outside the bit-provenance domain): neither confirmed nor refuted' % len(bad))
        else:
            ctx.check(not bad and not I.notes, R, nm + '|lanes', f, 'output byte j = input byte %d-1-j for the low %d bits, bits above are 0' % (N // 8, N),
                  'lane map differs from byte reversal of the low %d bits: %s %s' % (N, describe_mismatch(bad), '; '.join(I.notes)))
        # involution on the low N bits
        v2 = I.eval_function(f, {p['id']: I.cast(v, dtype(p))})
        bad2 = expect_lanes(v2, [('i', 'a', i) for i in range(N)]) if v2 is not None else [(0, None, 0)]
        if bad2 and all(g_ == T for _, g_, _w in bad2):
            ctx.undecided(R, nm + '|involution', f, 'the bit map could not be derived for %d bit(s) (an operation outside the bit-provenance domain): neither confirmed nor refuted' % len(bad2))
        else:
            ctx.check(not bad2, R, nm + '|involution', f, '%s(%s(a)) = a on the low %d bits' % (nm, nm, N), 'applying %s twice does not give back the low %d bits: %s' % (nm, N, describe_mismatch(bad2)))
    for nm, N in (('bswap24s', 24), ('bswap48s', 48)):
        f = u.func('phosg::' + nm)[0]
        ctx.fn('phosg::' + nm)
        p = params_of(f)[0]
        pw, ps = int_type_info(dtype(p))
        I.notes = []
        v = I.eval_function(f, {p['id']: sym_bv('a', pw, ps)})
        if v is None:
            ctx.bad(R, nm + '|lanes', f, 'lane map cannot be derived')
            continue
        spec = bswap_spec(N, v.w)
        for i in range(N, v.w):
            spec[i] = spec[N - 1]
        bad = expect_lanes(v, spec)
        if bad and all(g_ == T for _, g_, _w in bad):
            ctx.undecided(R, nm + '|lanes', f, 'the bit map could not be derived for %d bit(s) (an operation outside the bit-provenance domain): neither confirmed nor refuted' % len(bad))
        else:
            ctx.check(not bad and not I.notes, R, nm + '|lanes', f, 'byte reversal of the low %d bits, bits >= %d replicate result bit %d' % (N, N, N - 1),
                  'lane map differs from sign-extended byte reversal: %s %s' % (describe_mismatch(bad), '; '.join(I.notes)))
        v2 = I.eval_function(f, {p['id']: I.cast(v, dtype(p))})
        bad2 = expect_lanes(v2, [('i', 'a', i) for i in range(N)]) if v2 is not None else [(0, None, 0)]
        if bad2 and all(g_ == T for _, g_, _w in bad2):
            ctx.undecided(R, nm + '|involution', f, 'the bit map could not be derived for %d bit(s) (an operation outside the bit-provenance domain): neither confirmed nor refuted' % len(bad2))
        else:
            ctx.check(not bad2, R, nm + '|involution', f, 'involution on the low %d bits' % N, 'applying %s twice does not give back the low %d bits: %s' % (nm, N, describe_mismatch(bad2)))
    # float forms: pointer punning around bswap32/64, no numeric conversion
    for f in u.func('phosg::bswap32f') + u.func('phosg::bswap64f'):
        nm = f.get('name')
        want = 'bswap32' if nm == 'bswap32f' else 'bswap64'
        pt = dtype(params_of(f)[0])
        key = '%s(%s)' % (nm, pt)
        ctx.fn('phosg::' + key)
        conv = [x for x in walk(body_of(f)) if x.get('castKind') in ('FloatingToIntegral', 'IntegralToFloating', 'FloatingCast', 'FloatingToBoolean')]
        calls = [c for c in walk(body_of(f)) if c.get('kind') == 'CallExpr']
        mp = memcpy_puns(body_of(f))
        names = [call_name(c) for c in calls if not any(c is m_[0] for m_ in mp)]
        puns = [x for x in walk(body_of(f)) if x.get('kind') == 'UnaryOperator' and x.get('opcode') == '*' and
                any(y.get('castKind') == 'BitCast' for y in walk(x)) and any(y.get('kind') == 'UnaryOperator' and y.get('opcode') == '&' for y in walk(x))]
        puns = puns + [m_[0] for m_ in mp]
        ctx.check(not conv and names == [want] and len(puns) == 1, R, key + '|punning', f, 'bit pattern reinterpreted (no numeric conversion) around %s' % want,
                  'float form is not a pure reinterpretation around %s: conversions=%d calls=%s puns=%d' % (want, len(conv), names, len(puns)))
    # bswap<T> specialisations dispatch to the function of their own width
    specs = [f for f in u.funcs('phosg::bswap') if body_of(f) is not None]
    ctx.require(len(specs) >= 12, 'bswap<> specialisations not found (%d)' % len(specs))
    for f in specs:
        ta = targs(f)
        p = params_of(f)[0]
        key = 'bswap<%s>' % ','.join(ta)
        ctx.fn('phosg::' + key)
        pi = int_type_info(dtype(p))
        rt = (f.get('type', {}).get('qualType') or '').split('(')[0].strip()
        ri = int_type_info({'uint8_t': 'unsigned char', 'int8_t': 'signed char', 'uint16_t': 'unsigned short', 'int16_t': 'short', 'uint32_t': 'unsigned int', 'int32_t': 'int', 'uint64_t': 'unsigned long', 'int64_t': 'long'}.get(rt, rt))
        if pi and ri:
            I.notes = []
            v = I.eval_function(f, {p['id']: sym_bv('a', pi[0], pi[1])})
            if v is None:
                ctx.bad(R, key + '|lanes', f, 'lane map cannot be derived')
                continue
            v = I.cast(v, {8: 'unsigned char', 16: 'unsigned short', 32: 'unsigned int', 64: 'unsigned long'}[ri[0]])
            bad = expect_lanes(v, bswap_spec(pi[0], ri[0]))
            if bad and all(g_ == T for _, g_, _w in bad):
                ctx.undecided(R, key + '|lanes', f, 'the bit map could not be derived for %d bit(s) (an operation outside the bit-provenance domain): neither confirmed nor refuted' % len(bad))
            else:
                ctx.check(not bad, R, key + '|lanes', f, 'full byte reversal at %d bits' % pi[0], 'specialisation does not reverse the %d-bit value: %s' % (pi[0], describe_mismatch(bad)))
        else:
            rets = [x for x in walk(body_of(f)) if x.get('kind') == 'ReturnStmt']
            calls = [c for c in walk(body_of(f)) if c.get('kind') == 'CallExpr']
            sz = sizeof_type(dtype(p))
            want = 'bswap32f' if sz == 4 else 'bswap64f'
            okc = len(calls) == 1 and call_name(calls[0]) == want and (ref_decl(call_args(calls[0])[0]) or {}).get('id') == p['id']
            ctx.check(okc and len(rets) == 1, R, key + '|dispatch', f, 'returns %s(v)' % want, 'float specialisation does not return %s(v)' % want)


def check_ext(ctx, u, I):
    R = 'C03-R2'
    for nm, N in (('ext24', 24), ('ext48', 48)):
        f = u.func('phosg::' + nm)[0]
        ctx.fn('phosg::' + nm)
        p = params_of(f)[0]
        pw, ps = int_type_info(dtype(p))
        I.notes = []
        v = I.eval_function(f, {p['id']: sym_bv('a', pw, ps, free_bits=N)})
        if v is None:
            ctx.bad(R, nm, f, 'cannot derive the bit map of %s' % nm)
            continue
        spec = [('i', 'a', i) if i < N else ('i', 'a', N - 1) for i in range(v.w)]
        bad = expect_lanes(v, spec)
        if bad and all(g_ == T for _, g_, _w in bad):
            ctx.undecided(R, nm + '|sign-replication', f, 'the bit map could not be derived for %d bit(s) (an operation outside the bit-provenance domain): neither confirmed nor refuted' % len(bad))
        else:
            ctx.check(not bad and not I.notes, R, nm + '|sign-replication', f, 'bits >= %d equal bit %d of the argument, low bits unchanged' % (N, N - 1),
                  '%s does not replicate bit %d into bits %d..%d: %s %s' % (nm, N - 1, N, v.w - 1, describe_mismatch(bad), '; '.join(I.notes)))
    fs = [f for f in u.funcs('phosg::sign_extend') if body_of(f) is not None]
    ctx.require(len(fs) >= 11, 'sign_extend instantiations missing (%d)' % len(fs))
    for f in fs:
        ta = targs(f)
        p = params_of(f)[0]
        key = 'sign_extend<%s>' % ','.join(ta)
        ctx.fn('phosg::' + key)
        pw, ps = int_type_info(dtype(p))
        I.notes = []
        check_no_goto(f)
        v = I.eval_function(f, {p['id']: sym_bv('s', pw, ps)})
        if v is None:
            ctx.bad(R, key, f, 'cannot derive the bit map')
            continue
        spec = [('i', 's', i) if i < pw else ('i', 's', pw - 1) for i in range(v.w)]
        bad = expect_lanes(v, spec)
        if bad and all(g_ == T for _, g_, _w in bad):
            ctx.undecided(R, key + '|sign-replication', f, 'the bit map could not be derived for %d bit(s) (an operation outside the bit-provenance domain): neither confirmed nor refuted' % len(bad))
        else:
            ctx.check(not bad and not I.notes, R, key + '|sign-replication', f, 'bits >= %d equal bit %d of the source' % (pw, pw - 1),
                  'result is not the sign extension of the %d-bit source: %s %s' % (pw, describe_mismatch(bad), '; '.join(I.notes)))


OPS = {'operator+=': '+', 'operator-=': '-', 'operator*=': '*', 'operator/=': '/', 'operator%=': '%', 'operator&=': '&', 'operator|=': '|',
       'operator^=': '^', 'operator<<=': '<<', 'operator>>=': '>>'}


def _fn_record(call, u):
    """qualified name of the record whose static `fn` is called, else None."""
    if call is None or call.get('kind') != 'CallExpr':
        return None
    d = callee_decl(call, u)
    if not d or d.get('name') != 'fn':
        return None
    full = u.by_id.get(d.get('id'), d)
    rec = u.record_of(full) if full.get('_p') is not None else None
    return u.qualname(rec) if rec is not None else None


def _is_value(n):
    n = strip(n)
    return n is not None and n.get('kind') == 'MemberExpr' and n.get('name') == 'value' and (not n.get('inner') or is_this(n['inner'][0]))


def check_wrapper(ctx, u, rec):
    """Representation discipline in one converted_endian specialisation."""
    R = 'C03-R3'
    q = u.qualname(rec)
    ta = [c['type']['qualType'] for c in kids(rec) if c.get('kind') == 'TemplateArgument']
    ctx.require(len(ta) == 4, 'converted_endian template arguments changed: %s' % q)
    exposed, stored, on_store, on_load = ta
    short = 'converted_endian<%s,%s,%s>' % (exposed, stored, on_store.split('<')[0].replace('phosg::', ''))

    def norm(t):
        t = (t or '').replace('phosg::', '').replace(' ', '')
        m = re.match(r'^(bswap_st|ident_st)<([^,<>]+)>$', t)
        if m:  # default template argument ResultT = ArgT
            t = '%s<%s,%s>' % (m.group(1), m.group(2), m.group(2))
        return t
    store_rec, load_rec = norm(on_store), norm(on_load)

    def is_load(n):
        n = strip(n)
        # through the class's own load() / conversion operator (themselves checked to be OnLoadSt::fn(value))
        def _self(o):
            o0 = strip(o) if o is not None else None
            while o0 is not None and o0.get('kind') in ('ImplicitCastExpr', 'ParenExpr') and kids(o0):
                o0 = strip(kids(o0)[0])
            return o is None or is_this(o) or (o0 is not None and o0.get('kind') == 'UnaryOperator' and o0.get('opcode') == '*' and is_this(o0['inner'][0]))
        if n.get('kind') == 'CXXMemberCallExpr' and _self(member_call_object(n)):
            d = callee_decl(n, u)
            if d is not None and (d.get('name') == 'load' or d.get('kind') == 'CXXConversionDecl') and not call_args(n):
                return True
        rq = _fn_record(n, u)
        return rq is not None and norm(rq) == load_rec and len(call_args(n)) == 1 and _is_value(call_args(n)[0])

    def stored_expr(a):
        """E when statement a is `value = OnStoreSt::fn(E)` or `this->store(E)` (store() is checked to be that)"""
        a = strip(a)
        if a.get('kind') == 'BinaryOperator' and a.get('opcode') == '=' and _is_value(a['inner'][0]):
            return is_store_of(a['inner'][1])
        if a.get('kind') == 'CXXMemberCallExpr' and (member_call_object(a) is None or is_this(member_call_object(a))) and call_name(a) == 'store' and len(call_args(a)) == 1:
            return call_args(a)[0]
        return None

    def is_store_of(n):
        n = strip(n)
        rq = _fn_record(n, u)
        if rq is not None and norm(rq) == store_rec and len(call_args(n)) == 1:
            return call_args(n)[0]
        return None

    methods = [m for m in walk(rec) if m.get('kind') in FUNC_KINDS and body_of(m) is not None and not m.get('isImplicit') and not m.get('explicitlyDefaulted') and u.record_of(m) is rec]
    all_members = {x.get('id'): x for x in walk(rec) if x.get('kind') in FUNC_KINDS and body_of(x) is not None}

    def base_type(t):
        return (t or '').replace('const ', '').replace('&', '').replace('volatile ', '').strip()

    def sym_method(f, cur, args, depth=0):
        """(term of this->value afterwards, returned term) of a straight-line member function; terms:
        'X0' initial exposed value, 'D' the operand, ('S', t) / ('L', t) the store / load conversions with
        L(S(x)) = x, ('bin', op, a, b), ('narrow', type, t) a conversion the native operation does not have"""
        if depth > 4:
            raise SymUnrec('helper depth')
        env = {}
        ps = params_of(f)
        for p_, a_ in zip(ps, args):
            env[p_['id']] = a_
        state = {'cur': cur}

        def simp(t):
            if isinstance(t, tuple) and t[0] == 'L' and isinstance(t[1], tuple) and t[1][0] == 'S':
                return simp(t[1][1])
            if isinstance(t, tuple):
                return tuple(simp(x_) if isinstance(x_, tuple) else x_ for x_ in t)
            return t

        def inner_type(e):
            e0 = strip(e)
            while e0 is not None and e0.get('kind') in ('ImplicitCastExpr', 'ParenExpr', 'ExprWithCleanups', 'MaterializeTemporaryExpr') and kids(e0):
                e0 = strip(kids(e0)[0])
            return base_type(dtype(e0))

        def bind(decl, e, t):
            dt, it = base_type(dtype(decl)), inner_type(e)
            if dt != it and isinstance(t, (tuple, str)) and t != ('this',):
                return ('narrow', dt, t)
            return t

        def term(e):
            e0 = strip(e)
            while e0 is not None and e0.get('kind') in ('ImplicitCastExpr', 'ParenExpr', 'CStyleCastExpr', 'CXXStaticCastExpr', 'CXXFunctionalCastExpr', 'ExprWithCleanups', 'MaterializeTemporaryExpr') and kids(e0):
                if is_load(e0):
                    break
                if e0.get('kind') in ('CStyleCastExpr', 'CXXStaticCastExpr', 'CXXFunctionalCastExpr') and base_type(dtype(e0)) != inner_type(kids(e0)[0]):
                    return ('narrow', base_type(dtype(e0)), term(kids(e0)[0]))
                e0 = strip(kids(e0)[0])
            if e0 is None:
                raise SymUnrec('empty expression')
            if is_load(e0):
                return simp(('L', state['cur']))
            so = is_store_of(e0)
            if so is not None:
                return ('S', term(so))
            if _is_value(e0):
                return state['cur']
            k = e0.get('kind')
            if k == 'DeclRefExpr' and (ref_decl(e0) or {}).get('id') in env:
                return env[ref_decl(e0)['id']]
            if k == 'UnaryOperator' and e0.get('opcode') == '*' and is_this(e0['inner'][0]):
                return ('this',)
            if k == 'BinaryOperator' and e0.get('opcode') in OPS.values():
                return ('bin', e0['opcode'], term(e0['inner'][0]), term(e0['inner'][1]))
            if int_value(e0) is not None:
                return ('const', int_value(e0))
            if k == 'UnaryOperator' and e0.get('opcode') in ('-', '~', '+'):
                return ('un', e0['opcode'], term(e0['inner'][0]))
            if k in ('CXXTemporaryObjectExpr', 'CXXConstructExpr', 'CXXFunctionalCastExpr', 'CXXBindTemporaryExpr') or (k == 'DeclRefExpr' and 'std::' in (dtype(e0) or '')):
                mf = re.match(r'^(?:const )?std::(plus|minus|multiplies|divides|modulus|bit_and|bit_or|bit_xor)<(.*)>$', (dtype(e0) or '').strip())
                if mf:
                    fop = {'plus': '+', 'minus': '-', 'multiplies': '*', 'divides': '/', 'modulus': '%', 'bit_and': '&', 'bit_or': '|', 'bit_xor': '^'}[mf.group(1)]
                    return ('functor', fop, None if mf.group(2).strip() in ('void', '') else base_type(mf.group(2)))
            if k == 'LambdaExpr':
                return ('lambda', e0)
            if k == 'CXXOperatorCallExpr' and call_name(e0) == 'operator()' and len(kids(e0)) >= 2:
                ft = term(kids(e0)[1])
                if isinstance(ft, tuple) and ft[0] == 'functor' and len(kids(e0)) == 4:
                    ops_ = []
                    for a_ in kids(e0)[2:]:
                        t_ = term(a_)
                        if ft[2] is not None and inner_type(a_) != ft[2]:
                            t_ = ('narrow', ft[2], t_)
                        ops_.append(t_)
                    return ('bin', ft[1], ops_[0], ops_[1])
                if isinstance(ft, tuple) and ft[0] == 'lambda':
                    d_ = ref_decl(kids(e0)[0])
                    fd_ = u.by_id.get((d_ or {}).get('id')) if d_ else None
                    if fd_ is None or body_of(fd_) is None:
                        # generic lambda: the instantiated call operator is a child of the closure type
                        fd_ = next((x for x in walk(ft[1]) if x.get('kind') == 'CXXMethodDecl' and x.get('name') == 'operator()' and body_of(x) is not None and x.get('id') == (d_ or {}).get('id')), None)
                    if fd_ is None or body_of(fd_) is None:
                        raise SymUnrec('call of a lambda whose body is not available')
                    av = [bind(p_, a_, term(a_)) for p_, a_ in zip(params_of(fd_), kids(e0)[2:])]
                    c2, r2 = sym_method(fd_, state['cur'], av, depth + 1)
                    return r2
                raise SymUnrec('call through `%s`' % src_text(kids(e0)[1], 30))
            if k == 'CXXOperatorCallExpr' and call_name(e0) in ('operator++', 'operator--') and len(kids(e0)) in (2, 3) and term(kids(e0)[1]) == ('this',):
                d_ = ref_decl(kids(e0)[0])
                tgt = all_members.get((d_ or {}).get('id'))
                if tgt is None or tgt is f:
                    raise SymUnrec('call of %s' % call_name(e0))
                c2, r2 = sym_method(tgt, state['cur'], [('const', 0)] if len(kids(e0)) == 3 else [], depth + 1)
                state['cur'] = c2
                return r2
            if k == 'CXXOperatorCallExpr' and len(kids(e0)) == 3 and term(kids(e0)[1]) == ('this',):
                d_ = ref_decl(kids(e0)[0])
                tgt = all_members.get((d_ or {}).get('id'))
                if tgt is None or tgt is f:
                    raise SymUnrec('call of %s' % call_name(e0))
                a_ = kids(e0)[2]
                c2, r2 = sym_method(tgt, state['cur'], [bind(params_of(tgt)[0], a_, term(a_))], depth + 1)
                state['cur'] = c2
                return r2
            if k == 'CXXMemberCallExpr' and (member_call_object(e0) is None or is_this(member_call_object(e0))):
                me = strip(kids(e0)[0])
                tgt = all_members.get((me.get('referencedMemberDecl') if me is not None else None))
                if tgt is None:
                    d_ = callee_decl(e0, u)
                    tgt = all_members.get((d_ or {}).get('id'))
                if tgt is None or tgt is f:
                    raise SymUnrec('call of %s' % call_name(e0))
                av = [bind(p_, a_, term(a_)) for p_, a_ in zip(params_of(tgt), call_args(e0))]
                c2, r2 = sym_method(tgt, state['cur'], av, depth + 1)
                state['cur'] = c2
                return r2
            raise SymUnrec('expression `%s`' % src_text(e0, 40))
        ret = None
        for st_ in stmts_of(body_of(f)):
            s0 = strip(st_)
            k = s0.get('kind')
            if k == 'DeclStmt':
                for vd in kids(s0):
                    if vd.get('kind') in ('TypeAliasDecl', 'TypedefDecl', 'StaticAssertDecl', 'UsingDecl'):
                        continue
                    if vd.get('kind') != 'VarDecl' or not kids(vd):
                        raise SymUnrec('declaration')
                    env[vd['id']] = bind(vd, kids(vd)[-1], term(kids(vd)[-1]))
            elif stored_expr(s0) is not None:
                state['cur'] = ('S', term(stored_expr(s0)))
            elif k == 'BinaryOperator' and s0.get('opcode') == '=' and _is_value(s0['inner'][0]):
                state['cur'] = term(s0['inner'][1])
            elif k == 'CompoundAssignOperator' and s0.get('opcode') in ('&=', '|=', '^=') and _is_value(s0['inner'][0]) and is_store_of(strip(s0['inner'][1])) is not None:
                # Store is a bit permutation: value OP= Store(t)  ==  value = Store(Load(value) OP t)
                state['cur'] = ('S', ('bin', s0['opcode'][0], simp(('L', state['cur'])), term(is_store_of(strip(s0['inner'][1])))))
            elif k == 'ReturnStmt':
                ret = term(kids(s0)[0]) if kids(s0) else None
                break
            elif k in ('CXXMemberCallExpr', 'CXXOperatorCallExpr'):
                term(s0)
            else:
                raise SymUnrec('statement `%s`' % src_text(s0, 40))
        return simp(state['cur']), (simp(ret) if isinstance(ret, tuple) else ret)
    n_ops = 0
    for m in methods:
        nm = m.get('name')
        mta = targs(m)
        mkey = '%s::%s%s' % (short, nm, ('<%s>' % ','.join(mta)) if mta else '') + ('(int)' if nm in ('operator++', 'operator--') and params_of(m) else '')
        ctx.fn(mkey)
        body = body_of(m)
        # every use of `value` is classified
        for x in walk(m):
            if _is_value(x) and x.get('kind') == 'MemberExpr':
                p = x.get('_p')
                while p is not None and p.get('kind') in TRANSPARENT:
                    p = p.get('_p')
                role = None
                if p is not None and p.get('kind') == 'BinaryOperator' and p.get('opcode') == '=' and strip(p['inner'][0]) is x:
                    rhs = strip(p['inner'][1])
                    if is_store_of(rhs) is not None:
                        role = 'written from OnStoreSt::fn'
                    elif nm == 'store_raw' and (ref_decl(rhs) or {}).get('kind') == 'ParmVarDecl':
                        role = 'store_raw'
                elif p is not None and p.get('kind') == 'CompoundAssignOperator' and p.get('opcode') in ('&=', '|=', '^=') and strip(p['inner'][0]) is x and is_store_of(strip(p['inner'][1])) is not None:
                    # the store conversion is a permutation of bits (byte swap or identity), and & | ^ act on
                    # each bit separately: value OP= Store(m) is Store(Load(value) OP m)
                    role = 'bitwise update in the stored domain with a converted operand'
                elif p is not None and p.get('kind') == 'CallExpr' and is_load(p):
                    role = 'read through OnLoadSt::fn'
                elif nm == 'load_raw' and p is not None and p.get('kind') == 'ReturnStmt':
                    role = 'load_raw'
                ctx.check(role is not None, R, '%s|value-use@%s' % (mkey, canon(p)[:60] if p is not None else '?'), x, role or '',
                          'the stored representation `value` is used outside OnLoadSt::fn / OnStoreSt::fn / load_raw / store_raw: %s' % (src_text(p) if p is not None else ''))
        # constructor initialiser
        if m.get('kind') == 'CXXConstructorDecl':
            for ci in kids(m):
                if ci.get('kind') == 'CXXCtorInitializer' and ci.get('anyInit', {}).get('name') == 'value':
                    arg = is_store_of(ci['inner'][0]) if ci.get('inner') else None
                    ctx.check(arg is not None and (ref_decl(arg) or {}).get('kind') == 'ParmVarDecl', R, mkey + '|ctor-stores', ci, 'value(OnStoreSt::fn(v))', 'constructor does not initialise value from OnStoreSt::fn(v)')
            continue
        stmts = stmts_of(body)
        rets = [x for x in walk(body) if x.get('kind') == 'ReturnStmt']
        rt = (m.get('type', {}).get('qualType') or '').split('(')[0].strip()
        if nm in OPS:
            n_ops += 1
            op = OPS[nm]
            good = False
            why = 'body is not `value = OnStoreSt::fn(OnLoadSt::fn(value) %s delta); return *this;`' % op
            if len(stmts) == 2:
                a = strip(stmts[0])
                if stored_expr(a) is not None:
                    arg = stored_expr(a)
                    e = strip(arg) if arg is not None else None
                    if e is not None and e.get('kind') == 'BinaryOperator':
                        lhs, rhs = e['inner'][0], e['inner'][1]
                        if e.get('opcode') != op:
                            why = 'operator%s= computes with `%s`' % (op, e.get('opcode'))
                        elif not is_load(lhs):
                            why = 'left operand is not OnLoadSt::fn(value): %s' % canon(lhs)
                        elif (ref_decl(rhs) or {}).get('id') != params_of(m)[0]['id']:
                            why = 'right operand is not the parameter: %s' % canon(rhs)
                        else:
                            r = strip(kids(stmts[1])[0]) if stmts[1].get('kind') == 'ReturnStmt' and kids(stmts[1]) else None
                            if r is not None and r.get('kind') == 'UnaryOperator' and r.get('opcode') == '*' and is_this(r['inner'][0]):
                                good = True
                            else:
                                why = 'does not return *this'
            sym_und = None
            if not good and why.startswith('body is not'):
                # another arrangement (helpers, named temporaries): derive the stored term by symbolic execution
                try:
                    cur_, ret_ = sym_method(m, ('S', 'X0'), ['D'])
                    def un_narrow(t_):
                        return un_narrow(t_[2]) if isinstance(t_, tuple) and t_[0] == 'narrow' and t_[1].replace('const ', '') == exposed else t_
                    c2 = cur_
                    if isinstance(c2, tuple) and c2[0] == 'S':
                        c2 = ('S', un_narrow(c2[1]))
                    # narrowing an integer operand to the exposed integer type before a ring operation gives
                    # the same stored value (arithmetic modulo 2^bits commutes with truncation)
                    if isinstance(c2, tuple) and c2[0] == 'S' and isinstance(c2[1], tuple) and c2[1][0] == 'bin' and c2[1][1] in ('+', '-', '*', '&', '|', '^') and \
                            mta and int_type_info(mta[0]) is not None and int_type_info(exposed) is not None:
                        c2 = ('S', ('bin', c2[1][1]) + tuple(un_narrow(x_) for x_ in c2[1][2:]))
                    if isinstance(c2, tuple) and c2[0] == 'S' and isinstance(c2[1], tuple) and c2[1][0] == 'bin' and c2[1][1] in ('+', '*', '&', '|', '^') and c2[1][2:] == ('D', 'X0'):
                        c2 = ('S', ('bin', c2[1][1], 'X0', 'D'))
                    if c2 == ('S', ('bin', op, 'X0', 'D')) and ret_ == ('this',):
                        good = True
                    elif c2 != ('S', ('bin', op, 'X0', 'D')):
                        why = 'the stored value is %s, not Store(Load(value) %s delta)' % (show_term(cur_), op)
                    else:
                        why = 'returns %s, not *this' % show_term(ret_)
                except SymUnrec as e_:
                    sym_und = str(e_)
            if sym_und is not None:
                ctx.undecided(R, mkey + '|shape', m, 'operator%s= is not written in a form the rule reads (%s)' % (op, sym_und))
            else:
                ctx.check(good, R, mkey + '|shape', m, 'value = Store(Load(value) %s delta); return *this' % op, why)
            # the operand enters the operation in its own type (the native `n op= d` computes in the common type
            # of n and d and narrows afterwards): the operand parameter is the deduced template parameter
            pt = (dtype(params_of(m)[0]) or '').replace('const ', '').replace('&', '').strip() if params_of(m) else None
            siblings = [m2 for m2 in methods if m2.get('name') == nm and not targs(m2)]
            if mta:
                if pt == mta[0].replace('const ', '').strip():
                    ctx.ok(R, mkey + '|operand-type', m, 'operand taken as the deduced type %s' % mta[0])
                else:
                    ctx.undecided(R, mkey + '|operand-type', m, 'operand parameter has type %s for template argument %s' % (pt, mta[0]))
            elif len(siblings) > 1:
                ctx.undecided(R, mkey + '|operand-type', m, 'operator%s= is an overload set over fixed operand types' % op)
            else:
                ctx.bad(R, mkey + '|operand-type', m, 'operator%s= takes its operand as %s: an operand of another type is converted to it before the operation (`x %s= 2u` on a signed wrapper, a floating or wider operand), whereas the native type computes `x %s d` in the common type of both and narrows afterwards' % (op, pt, op, op))
        elif nm in ('operator++', 'operator--'):
            n_ops += 1
            op = '+' if nm == 'operator++' else '-'
            post = bool(params_of(m))
            good = False
            why = 'unrecognised body'
            # symbolic execution of the (straight-line) body: terms over the initial exposed value X0
            #   raw value R0 = S(X0);  Load(R) = L(R) with L(S(x)) = x;  x +- 1
            bad_stmt = None
            cur = ('S', 'X0')
            envs = {}
            ret = None

            def simp(t):
                if isinstance(t, tuple) and t[0] == 'L' and isinstance(t[1], tuple) and t[1][0] == 'S':
                    return simp(t[1][1])
                if isinstance(t, tuple):
                    return tuple(simp(x_) if isinstance(x_, tuple) else x_ for x_ in t)
                return t

            def term(e):
                e0 = strip(e)
                while e0 is not None and e0.get('kind') in ('ImplicitCastExpr', 'ParenExpr', 'CStyleCastExpr', 'CXXStaticCastExpr', 'CXXFunctionalCastExpr') and kids(e0):
                    if is_load(e0):
                        break
                    e0 = strip(kids(e0)[0])
                if e0 is None:
                    return ('?',)
                if is_load(e0):
                    return simp(('L', cur))
                so = is_store_of(e0)
                if so is not None:
                    return ('S', term(so))
                if _is_value(e0):
                    return cur
                if e0.get('kind') == 'DeclRefExpr' and (ref_decl(e0) or {}).get('id') in envs:
                    return envs[ref_decl(e0)['id']]
                if e0.get('kind') == 'BinaryOperator' and e0.get('opcode') in ('+', '-') and int_value(e0['inner'][1]) == 1:
                    return ('op', e0['opcode'], term(e0['inner'][0]))
                return ('?', canon(e0))
            for st_ in stmts:
                s0 = strip(st_)
                if s0.get('kind') == 'DeclStmt':
                    for vd in kids(s0):
                        if vd.get('kind') == 'VarDecl' and kids(vd):
                            envs[vd['id']] = term(kids(vd)[-1])
                elif stored_expr(s0) is not None:
                    cur = ('S', term(stored_expr(s0)))
                elif s0.get('kind') == 'BinaryOperator' and s0.get('opcode') == '=' and _is_value(s0['inner'][0]):
                    cur = term(s0['inner'][1])
                elif s0.get('kind') == 'ReturnStmt' and kids(s0):
                    ret = term(kids(s0)[0])
                    break
                else:
                    bad_stmt = s0
                    break
            want_cur = ('S', ('op', op, 'X0'))
            want_ret = 'X0' if post else ('op', op, 'X0')
            if bad_stmt is not None:
                why = 'unrecognised statement `%s`' % src_text(bad_stmt, 50)
            elif simp(cur) != want_cur:
                why = 'the stored value is %s, not Store(Load(value) %s 1)' % (simp(cur), op)
            elif ret is None or simp(ret) != want_ret:
                if not post and ret is not None and simp(ret) == ('S', ('op', op, 'X0')):
                    why = 'prefix %s returns the raw stored representation, not the loaded (exposed-domain) value: for a byte-swapped wrapper the bytes come back swapped' % nm
                elif post:
                    why = 'postfix %s returns %s, not the value the object held before' % (nm, simp(ret) if ret is not None else None)
                else:
                    why = 'prefix %s returns %s, not the updated value' % (nm, simp(ret) if ret is not None else None)
            else:
                good = True
            inc_und = None
            if not good:
                # another arrangement (load()/store(), `*this += 1`, a named next value): general symbolic execution
                try:
                    cur2, ret2 = sym_method(m, ('S', 'X0'), [('const', 0)] if post else [])
                    def unn(t_):
                        if isinstance(t_, tuple) and t_[0] == 'narrow' and t_[1].replace('const ', '') == exposed:
                            return unn(t_[2])
                        if isinstance(t_, tuple):
                            return tuple(unn(x_) if isinstance(x_, tuple) else x_ for x_ in t_)
                        return t_
                    cur2, ret2 = unn(cur2), unn(ret2) if isinstance(ret2, tuple) else ret2
                    want_c = ('S', ('bin', op, 'X0', ('const', 1)))
                    want_r = 'X0' if post else ('bin', op, 'X0', ('const', 1))
                    if cur2 == want_c and ret2 == want_r:
                        good = True
                    elif cur2 != want_c:
                        why = 'the stored value is %s, not Store(Load(value) %s 1)' % (show_term(cur2), op)
                    else:
                        why = '%s %s returns %s, not %s' % ('postfix' if post else 'prefix', nm, show_term(ret2), 'the value the object held before' if post else 'the updated value')
                except SymUnrec as e_:
                    inc_und = str(e_)
            if inc_und is not None:
                ctx.undecided(R, mkey + '|shape', m, '%s is not written in a form the rule reads (%s)' % (nm, inc_und))
            else:
                ctx.check(good, R, mkey + '|shape', m, ('old = Load(value); value = Store(old %s 1); return old' if post else 'value = Store(Load(value) %s 1); return Load(value)') % op, why)
        elif nm in ('load',) or m.get('kind') == 'CXXConversionDecl':
            ok = len(rets) == 1 and kids(rets[0]) and is_load(kids(rets[0])[0])
            ctx.check(ok, R, mkey + '|returns-loaded', m, 'returns OnLoadSt::fn(value)', 'does not return OnLoadSt::fn(value)')
        elif nm in ('store', 'operator='):
            a = strip(stmts[0]) if stmts else None
            ok = a is not None and a.get('kind') == 'BinaryOperator' and a.get('opcode') == '=' and _is_value(a['inner'][0]) and \
                (ref_decl(is_store_of(a['inner'][1]) or {}) or {}).get('kind') == 'ParmVarDecl'
            ctx.check(ok, R, mkey + '|stores', m, 'value = OnStoreSt::fn(v)', 'does not store OnStoreSt::fn(v)')
    return n_ops


class SymUnrec(Exception):
    pass


def show_term(t):
    if isinstance(t, tuple):
        if t[0] == 'S':
            return 'Store(%s)' % show_term(t[1])
        if t[0] == 'L':
            return 'Load(%s)' % show_term(t[1])
        if t[0] == 'bin':
            return '(%s %s %s)' % (show_term(t[2]), t[1], show_term(t[3]))
        if t[0] == 'narrow':
            return '(%s)%s' % (t[1], show_term(t[2]))
        if t[0] == 'this':
            return '*this'
        if t[0] == 'un':
            return '%s%s' % (t[1], show_term(t[2]))
        if t[0] == 'const':
            return str(t[1])
        return str(t)
    return {'X0': 'Load(value)', 'D': 'delta'}.get(t, str(t))


def memcpy_puns(body):
    """memcpy(&dst, &src, n) between two objects of n bytes each: a bit-pattern reinterpretation
    (the aliasing-safe spelling of `*(T*)&x`)"""
    out = []
    for c in walk(body):
        if c.get('kind') == 'CallExpr' and call_name(c) in ('memcpy', '__builtin_memcpy') and len(call_args(c)) == 3:
            a, b, n_ = call_args(c)
            sa, sb = strip_addr(a), strip_addr(b)
            nb = int_value(n_)
            if sa is not None and sb is not None and nb is not None and sizeof_type(dtype(sa)) == nb and sizeof_type(dtype(sb)) == nb:
                out.append((c, sa, sb))
    return out


def strip_addr(n):
    n = strip(n)
    while n is not None and n.get('kind') in ('ImplicitCastExpr', 'CStyleCastExpr', 'CXXReinterpretCastExpr', 'CXXStaticCastExpr', 'ParenExpr') and kids(n):
        n = strip(kids(n)[0])
    if n is not None and n.get('kind') == 'UnaryOperator' and n.get('opcode') == '&':
        return strip(kids(n)[0])
    return None


def check_converters(ctx, u):
    """bswap_st::fn forwards to bswap<ArgT,ResultT>; ident_st::fn is a same-size reinterpretation."""
    R = 'C03-R3'
    n = 0
    for rec in u.records:
        q = u.qualname(rec)
        if not (q.startswith('phosg::bswap_st<') or q.startswith('phosg::ident_st<')):
            continue
        ta = [c['type']['qualType'] for c in kids(rec) if c.get('kind') == 'TemplateArgument']
        for m in walk(rec):
            if m.get('kind') == 'CXXMethodDecl' and m.get('name') == 'fn' and body_of(m) is not None:
                n += 1
                key = q.replace('phosg::', '') + '::fn'
                ctx.fn(key)
                p = params_of(m)[0]
                rets = [x for x in walk(body_of(m)) if x.get('kind') == 'ReturnStmt']
                if q.startswith('phosg::bswap_st<'):
                    calls = [c for c in walk(body_of(m)) if c.get('kind') == 'CallExpr']
                    ok = len(calls) == 1 and call_name(calls[0]) == 'bswap' and (ref_decl(call_args(calls[0])[0]) or {}).get('id') == p['id']
                    if ok:
                        d = callee_decl(calls[0], u)
                        cta = targs(d)
                        if len(cta) == 1:
                            cta = cta * 2
                        ok = [t.replace('phosg::', '') for t in cta] == [t.replace('phosg::', '') for t in ta]
                    ctx.check(ok and len(rets) == 1, R, key + '|forwards', m, 'returns bswap<%s>(v)' % ','.join(ta), 'does not return bswap<%s>(v)' % ','.join(ta))
                else:
                    r = strip(kids(rets[0])[0]) if len(rets) == 1 and kids(rets[0]) else None
                    ok = r is not None and r.get('kind') == 'UnaryOperator' and r.get('opcode') == '*' and \
                        any(y.get('kind') == 'CXXReinterpretCastExpr' for y in walk(r)) and \
                        any(y.get('kind') == 'UnaryOperator' and y.get('opcode') == '&' and (ref_decl(y['inner'][0]) or {}).get('id') == p['id'] for y in walk(r)) and \
                        not any(y.get('castKind') in ('FloatingToIntegral', 'IntegralToFloating', 'FloatingCast') for y in walk(body_of(m)))
                    if not ok and r is not None:
                        # aliasing-safe spelling: `ResultT ret; memcpy(&ret, &v, sizeof(ResultT)); return ret;`
                        mp = memcpy_puns(body_of(m))
                        ok = len(mp) == 1 and (ref_decl(mp[0][2]) or {}).get('id') == p['id'] and (ref_decl(r) or {}).get('id') == (ref_decl(mp[0][1]) or {}).get('id') and \
                            not any(y.get('castKind') in ('FloatingToIntegral', 'IntegralToFloating', 'FloatingCast') for y in walk(body_of(m)))
                    same = sizeof_type(ta[0]) == sizeof_type(ta[1]) and sizeof_type(ta[0]) is not None
                    ctx.check(ok and same, R, key + '|reinterpret', m, 'same-size reinterpretation of v', 'ident_st::fn is not a same-size reinterpretation of its argument (sizes %s/%s)' % (sizeof_type(ta[0]), sizeof_type(ta[1])))
    return n


def check_layout(ctx, u):
    R = 'C03-R4'
    ns = 'phosg_witness_c03'
    seen = 0
    for alias in ALIASES:
        e, t = alias.split('_', 1)
        vds = [x for x in u.by_id.values() if x.get('kind') == 'VarDecl' and x.get('name') == 'layout_value_' + alias]
        if not vds:
            raise AnalysisBroken('witness layout variable for %s missing' % alias)
        ty = vds[0].get('type', {}).get('desugaredQualType', '')
        m = re.search(r'Layout<(\d+), (\d+), (true|false), (true|false)>', ty)
        ctx.require(m is not None, 'cannot read layout facts of %s from %r' % (alias, ty))
        size, align, triv = int(m.group(1)), int(m.group(2)), m.group(3) == 'true'
        want = ALIAS_SIZE[t]
        seen += 1
        ctx.check(size == want and align == 1 and triv, R, alias + '|layout', vds[0], 'sizeof=%d alignof=1 trivially copyable' % size,
                  'wrapper %s has sizeof=%d (expected %d), alignof=%d (expected 1, packed), trivially_copyable=%s' % (alias, size, want, align, triv))
    # host order selection: this analysis targets a little-endian host
    for tmpl, want_base in (('big_endian', 'reverse_endian'), ('little_endian', 'same_endian'), ('reverse_endian', 'converted_endian'), ('same_endian', 'converted_endian')):
        recs = [r for r in u.records if u.qualname(r).startswith('phosg::%s<' % tmpl)]
        ctx.require(len(recs) >= 8, 'instantiations of %s missing' % tmpl)
        for r in recs:
            bases = [b.get('type', {}).get('qualType', '') for b in r.get('bases', [])]
            ta = [c['type']['qualType'] for c in kids(r) if c.get('kind') == 'TemplateArgument']
            key = '%s<%s>|base' % (tmpl, ','.join(ta))
            ok = len(bases) == 1 and bases[0].replace('phosg::', '').startswith(want_base + '<')
            if ok and want_base == 'converted_endian':
                conv = 'bswap_st' if tmpl == 'reverse_endian' else 'ident_st'
                b = bases[0].replace('phosg::', '').replace(' ', '')
                E, S = ta[0].replace(' ', ''), (ta[1] if len(ta) > 1 else ta[0]).replace(' ', '')
                # converted_endian<E, S, conv<E,S>, conv<S,E>>
                want1 = 'converted_endian<%s,%s,%s<%s,%s>,%s<%s,%s>>' % (E, S, conv, E, S, conv, S, E)
                want2 = 'converted_endian<ExposedT,StoredT,%s<ExposedT,StoredT>,%s<StoredT,ExposedT>>' % (conv, conv)
                ok = b in (want1, want2) or (E == S and b == 'converted_endian<%s,%s,%s<%s>,%s<%s>>' % (E, S, conv, E, conv, S))
            ctx.check(ok, R, key, r, 'derives from %s' % bases, '%s<%s> derives from %s; on this little-endian host it must derive from %s%s' % (tmpl, ','.join(ta), bases, want_base, ' with store converter <Exposed,Stored> and load converter <Stored,Exposed>' if want_base == 'converted_endian' else ''))
    # alias -> template mapping
    for alias in ALIASES:
        e, t = alias.split('_', 1)
        tds = [x for x in u.by_id.values() if x.get('kind') in ('TypeAliasDecl', 'TypedefDecl') and x.get('name') == alias and u.qualname(x).startswith('phosg::')]
        ctx.require(len(tds) >= 1, 'alias %s not found' % alias)
        ty = (tds[0].get('type', {}).get('qualType') or '').replace('phosg::', '')
        want_t = {'re': 'reverse_endian', 'le': 'little_endian', 'be': 'big_endian'}[e]
        want_args = {'float': 'float, uint32_t', 'double': 'double, uint64_t'}.get(t, t)
        ctx.check(ty.replace(' ', '') == ('%s<%s>' % (want_t, want_args)).replace(' ', ''), R, alias + '|alias', tds[0], '%s = %s' % (alias, ty), 'alias %s names %s, expected %s<%s>' % (alias, ty, want_t, want_args))


def run(ctx):
    ctx.rule('C03-R1', 'bswap16/24/32/48/64(+s, +f, bswap<T>) lane maps equal byte reversal of the low N bits (E-BITS), involutions; float forms are pure reinterpretation', 26)
    ctx.rule('C03-R2', 'ext24/ext48/sign_extend<R,S>: bits >= N replicate bit N-1, low bits unchanged, no undefined shift (E-BITS)', 13)
    ctx.rule('C03-R3', 'converted_endian: `value` only crosses domains through OnStoreSt::fn / OnLoadSt::fn; every operator has the shape value = Store(Load(value) OP delta); exposed-typed results are loaded values', 400)
    ctx.rule('C03-R4', 'layout: sizeof(W)=sizeof(T), alignof 1, trivially copyable; be_* reverse / le_* same on this host; aliases name the right template', 80)
    u = ctx.unit(witness_unit('c03.cc'))
    I = Interp(u)
    check_lane_functions(ctx, u, I)
    check_ext(ctx, u, I)
    recs = [r for r in u.records if u.qualname(r).startswith('phosg::converted_endian<') and r.get('kind') == 'ClassTemplateSpecializationDecl']
    ctx.require(len(recs) == 16, 'expected 16 converted_endian specialisations (8 value types x {bswap, ident}), found %d' % len(recs))
    nops = 0
    for r in recs:
        nops += check_wrapper(ctx, u, r)
    ctx.require(nops >= 16 * 8 + 12 * 6, 'fewer operator instantiations than the witness requests (%d)' % nops)
    nconv = check_converters(ctx, u)
    ctx.require(nconv >= 16, 'converter structs missing (%d)' % nconv)
    check_layout(ctx, u)
    ctx.note('Instantiation matrix: all 24 wrapper aliases x every member incl. the 10 compound-assignment member templates (integer wrappers) / 4 (float wrappers); sign_extend for 11 (R,S) pairs.')
