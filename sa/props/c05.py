"""C05 - JSON parser is total and standard-conformant; strict mode = no extensions."""
from ast_ import *
from path import *
from exc import *

ALLOWED_EXC = {'phosg::JSON::parse_error', 'std::out_of_range'}
CONSUMERS = {'get_s8', 'get_u8', 'skip_if', 'go', 'skip', 'readx', 'read', 'get_line', 'get_cstr'}


def parse_fns(u):
    fs = u.func('phosg::JSON::parse')
    reader = [f for f in fs if 'StringReader' in (qtype(params_of(f)[0]) or '')]
    cptr = [f for f in fs if (qtype(params_of(f)[0]) or '') == 'const char *']
    strs = [f for f in fs if 'string' in (qtype(params_of(f)[0]) or '') and 'StringReader' not in (qtype(params_of(f)[0]) or '')]
    return reader, cptr, strs


def flag_param(f):
    ps = [p for p in params_of(f) if dtype(p) == 'bool']
    return ps[-1] if ps else None


def char_const(n):
    v = int_value(n)
    return v


def make_assume(flag_id, ctx_vars):
    """assumption function for eval3: the strict flag is true; ctx_vars maps a
    variable decl id to the character it is known to hold."""
    def assume(n):
        rd = ref_decl(n)
        if rd and rd.get('id') == flag_id:
            return True
        r = relation(n, True)
        if r and r[1] in ('==', '!='):
            for a, b in ((r[0], r[2]), (r[2], r[0])):
                rda = ref_decl(a)
                cv = int_value(b)
                if rda and rda.get('id') in ctx_vars and cv is not None:
                    eq = ctx_vars[rda['id']] == cv
                    return eq if r[1] == '==' else (not eq)
        return None
    return assume


IGNORE = set()   # the reader parameter: consuming input does not change flags or separators


def reachable_under(site, assume):
    """False when some fact that must hold to reach site is definitely false
    under the assumption; True otherwise (possibly reachable)."""
    for ft in path_facts(site, ignore_kills_of=IGNORE):
        v = eval3(ft.cond, assume)
        if v is not None and v != ft.pol:
            return False
    return True


def peeks_char(site, ch):
    """some fact on the path compares a non-advancing read with ch"""
    for n, pol in atoms(path_facts(site, ignore_kills_of=IGNORE)):
        r = relation(n, pol)
        if r and r[1] == '==':
            for a, b in ((r[0], r[2]), (r[2], r[0])):
                a = strip(a)
                if int_value(b) == ch and a.get('kind') == 'CXXMemberCallExpr' and call_name(a) in ('get_s8', 'get_u8', 'pget_s8', 'pget_u8'):
                    return True
    return False


def is_consuming_call(c, f, u):
    k = c.get('kind')
    if k == 'CXXMemberCallExpr':
        nm = call_name(c)
        obj = member_call_object(c)
        if 'StringReader' not in (dtype(obj) or ''):
            return False
        if nm in ('get_s8', 'get_u8'):
            a = [x for x in call_args(c) if x.get('kind') != 'CXXDefaultArgExpr']
            return not a or int_value(a[0]) == 1
        return nm in CONSUMERS
    if k == 'CallExpr':
        d = callee_decl(c, u)
        if d and d.get('name') == 'parse' and (d.get('mangledName') or '').startswith('_ZN5phosg4JSON5parse'):
            return True
    return False


def consumes(stmt, f, u):
    """every normally-completing path through stmt consumes input"""
    if stmt is None or not stmt.get('kind'):
        return False
    k = stmt.get('kind')
    if k == 'CompoundStmt':
        for s in kids(stmt):
            if not falls_through(s):
                return True      # paths leave the loop body here: nothing completes normally past this point
            if consumes(s, f, u):
                return True
        return False
    if k == 'IfStmt':
        cond, then, els = if_parts(stmt)
        if any(is_consuming_call(c, f, u) for c in _uncond(cond)):
            return True
        t = consumes(then, f, u) or not falls_through(then)
        e = (consumes(els, f, u) or not falls_through(els)) if els is not None else False
        return t and e
    if k in ('ReturnStmt', 'BreakStmt', 'ContinueStmt', 'CXXThrowExpr'):
        # `continue` re-enters the loop without progress unless something was consumed before it
        return k != 'ContinueStmt'
    if k in LOOPS or k in ('SwitchStmt', 'CXXTryStmt', 'LambdaExpr'):
        if k == 'CXXTryStmt':
            return consumes(kids(stmt)[0], f, u)
        if k == 'DoStmt':
            # the body of a do-while runs at least once before its condition is looked at
            body_ = next((c for c in kids(stmt) if c.get('kind')), None)
            # (a `break` / `goto` inside leaves only the inner loop: keep the conservative answer then)
            return body_ is not None and not any(x.get('kind') in ('BreakStmt', 'GotoStmt') for x in walk(body_)) and consumes(body_, f, u)
        return False
    return any(is_consuming_call(c, f, u) for c in _uncond(stmt))


def _uncond(n):
    out = []
    stack = [n]
    while stack:
        x = stack.pop()
        if x is None or not x.get('kind'):
            continue
        k = x.get('kind')
        if x is not n and k in ('IfStmt', 'ForStmt', 'WhileStmt', 'DoStmt', 'CXXForRangeStmt', 'LambdaExpr', 'SwitchStmt'):
            continue
        if k == 'ConditionalOperator':
            stack.append(x['inner'][0])
            continue
        if k == 'BinaryOperator' and x.get('opcode') in ('&&', '||'):
            stack.append(x['inner'][0])
            continue
        if k in ('CXXMemberCallExpr', 'CallExpr'):
            out.append(x)
        stack.extend(kids(x))
    return out



def check_parser_by_evaluation(ctx, u, us, Pr, Pc, Pstr):
    """C05-R10: the three entry points folded on a document corpus (nothing is compiled or run:
    the checker interprets the AST of the current source with models of std::string, the reader
    object and the JSON value)."""
    import json as _json
    from peval import PEval, Lit, Str, JV, Rec, Thrown, Fault, Undecided
    R = 'C05-R10'
    PE = PEval([u, us], max_depth=80, max_iter=20000)
    OKEXC = ('phosg::JSON::parse_error', 'std::out_of_range')

    def run_c(txt, strict):
        return PE.call_with(Pc, [Lit(bytes(txt)), len(txt), strict])

    def outcome(fn):
        try:
            v = fn()
            return ('value', v.py() if isinstance(v, JV) else v, v)
        except Thrown as e:
            return ('throw', e.etype, e)
        except Fault as e:
            return ('fault', str(e), None)

    def same(a, b):
        if isinstance(a, float) or isinstance(b, float):
            return isinstance(a, float) and isinstance(b, float) and (a == b or abs(a - b) <= 1e-9 * max(abs(a), abs(b)))
        if isinstance(a, list):
            return isinstance(b, list) and len(a) == len(b) and all(same(x, y) for x, y in zip(a, b))
        if isinstance(a, dict):
            return isinstance(b, dict) and set(a) == set(b) and all(same(a[k], b[k]) for k in a)
        return type(a) is type(b) and a == b

    def ref(txt):
        def conv(o):
            if isinstance(o, str):
                return o.encode('latin1')
            if isinstance(o, list):
                return [conv(x) for x in o]
            if isinstance(o, dict):
                return {k.encode('latin1'): conv(v) for k, v in o.items()}
            return o
        return conv(_json.loads(txt.decode('latin1'), strict=False))
    std_docs = [b'null', b'true', b'false', b'0', b'-0', b'1', b'-1', b'12', b'1234567890', b'9223372036854775807', b'-9223372036854775807',
                b'0.5', b'-0.25', b'1.5e3', b'5e-1', b'1E+2', b'1e0', b'2.5E-3', b'12.5e1', b'1.0',
                b'""', b'"a"', b'"abc def"', b'"\\""', b'"\\\\"', b'"\\/"', b'"\\b\\f\\n\\r\\t"', b'"\\u0041"', b'"\\u00e9"', b'"\\u00FF"', b'"a\\u0020b"',
                b'[]', b'{}', b'[1]', b'[1,2,3]', b'[[]]', b'[[],[]]', b'[{}]', b'{"a":1}', b'{"a":{"b":[1,{"c":null}]}}', b'{"":""}', b'{"k":[true,false,null]}',
                b' [ 1 , 2 ] ', b'\t{\r\n "a" : [ ] ,\n "b" : { } }\n', b'[1.5,"x",{"y":[2e2]}]', b'[0,-1,5e-1,"\\n"]']
    ext_docs = [(b'[1,]', [1]), (b'[1,2 , ]', [1, 2]), (b'{"a":1,}', {b'a': 1}), (b'0x1F', 31), (b'-0x10', -16), (b'[0xff]', [255]),
                (b'n', None), (b't', True), (b'f', False), (b'[t,f,n]', [True, False, None]), (b'// c\n1', 1), (b'[1, // c\n 2]', [1, 2]), (b'{"a": // x\r 1}', {b'a': 1}), (b'{"a":[1,]}', {b'a': [1]})]
    bad = []
    und = [None]
    n_ok = [0]

    def note(key, why, node=None):
        bad.append((key, why, node))

    skipped = []

    def guarded(fn):
        try:
            return outcome(fn)
        except Undecided as e:
            if 'did not terminate within' in str(e):
                # a loop counted by a parsed value (an exponent of millions): it ends, but not within the
                # evaluator's budget; this input is left out
                skipped.append(str(e))
                return ('skip', None, None)
            und[0] = str(e)
            return None
    # (a) standard documents: both modes, both flat entry points, and the reader entry point's extent
    for d in std_docs:
        want = ref(d.strip(b' \t\r\n') if False else d)
        for strict in (0, 1):
            for nm, call in (('(const char*, size_t)', lambda: run_c(d, strict)), ('(const std::string&)', lambda: PE.call_with(Pstr, [Str(d), strict]))):
                o = guarded(call)
                if o is None:
                    break
                if o[0] != 'value':
                    note('standard|%s' % d.decode('latin1'), 'the standard document %r is rejected by parse%s in %s mode (%s)' % (d.decode('latin1'), nm, 'strict' if strict else 'default', o[1]), getattr(o[2], 'node', None))
                elif not same(o[1], want):
                    note('standard|%s' % d.decode('latin1'), 'the standard document %r parses to %r in %s mode; the reference value is %r' % (d.decode('latin1'), o[1], 'strict' if strict else 'default', want))
                else:
                    n_ok[0] += 1
            if und[0]:
                break
            # reader entry point: exactly one value is consumed (leading whitespace included, nothing after it)
            core = d.rstrip(b' \t\r\n')
            rd = PE.new_object('phosg::StringReader')
            tail = b' ,]x'
            if rd is not None:
                rd.f.update({'data': Lit(core + tail), 'length': len(core + tail), 'offset': 0})
                o = guarded(lambda: PE.call_with(Pr, [rd, strict]))
                if o is not None and o[0] == 'value' and rd.f.get('offset') != len(core):
                    note('reader-extent|%s' % d.decode('latin1'), 'parse(StringReader&) on %r followed by other data leaves the reader at offset %s; the value ends at %d' % (core.decode('latin1'), rd.f.get('offset'), len(core)))
                elif o is not None and o[0] == 'value':
                    n_ok[0] += 1
        if und[0]:
            break
    # (b) extensions: default mode gives the documented meaning, strict mode rejects with parse_error
    if not und[0]:
        for d, want in ext_docs:
            o = guarded(lambda: run_c(d, 0))
            if o is None:
                break
            if o[0] != 'value' or not same(o[1], want):
                note('extension|%s' % d.decode('latin1'), 'in default mode %r gives %s; the documented meaning is %r' % (d.decode('latin1'), o[1] if o[0] == 'value' else 'an exception (%s)' % o[1], want), getattr(o[2], 'node', None))
            else:
                n_ok[0] += 1
            o = guarded(lambda: run_c(d, 1))
            if o is None:
                break
            if not (o[0] == 'throw' and o[1] == 'phosg::JSON::parse_error'):
                note('strict|%s' % d.decode('latin1'), 'strict mode %s the extension document %r; it must be rejected with parse_error' % ('accepts (value %r)' % (o[1],) if o[0] == 'value' else 'answers %s to' % o[1], d.decode('latin1')), getattr(o[2], 'node', None))
            else:
                n_ok[0] += 1
    # (c) robustness: truncations and single-byte edits end in a value, parse_error or out_of_range
    if not und[0]:
        base = std_docs + [d for d, _ in ext_docs]
        if ctx.tier != 'thorough':
            base = [b'{"a":[1,{"c":null}]}', b'[1.5e1,"x\\n"]', b'"\\u00e9"', b'[1, // c\n 2]', b'-0x10', b'{"a":1,}']
        seen = set()
        for d in base:
            variants = [d[:k] for k in range(len(d))]
            for k in range(len(d)):
                for c in (b'"', b'\\', b',', b'}', b']', b'x', b'\x00', b'\xff', b'-', b'e', b'/') if ctx.tier == 'thorough' else (b'\\', b'\x00'):
                    variants.append(d[:k] + c + d[k + 1:])
                variants.append(d[:k] + d[k + 1:])
            for v_ in variants:
                if v_ in seen:
                    continue
                seen.add(v_)
                for strict in (0, 1):
                    o = guarded(lambda: run_c(v_, strict))
                    if o is None:
                        break
                    if o[0] == 'skip':
                        continue
                    if o[0] == 'fault':
                        note('robust|fault', 'on the input %r (%s mode) the parser %s' % (v_, 'strict' if strict else 'default', o[1]))
                    elif o[0] == 'throw' and o[1] not in OKEXC:
                        note('robust|exception', 'on the input %r (%s mode) the parser lets %s escape; only parse_error and out_of_range are documented' % (v_, 'strict' if strict else 'default', o[1]), getattr(o[2], 'node', None))
                    else:
                        n_ok[0] += 1
                if und[0]:
                    break
            if und[0]:
                break
    if und[0]:
        ctx.undecided(R, 'corpus', Pr, 'the parser could not be evaluated (%s)' % und[0])
    groups = {}
    for key, why, node in bad:
        groups.setdefault(key.split('|')[0], []).append((key, why, node))
    for g in ('standard', 'reader-extent', 'extension', 'strict', 'robust'):
        items = groups.get(g, [])
        if items:
            for key, why, node in items[:6]:
                ctx.bad(R, key, node or Pc, why)
        elif not und[0]:
            ctx.ok(R, g + '|all', Pc, {'standard': 'every standard document is accepted in both modes with the reference value', 'reader-extent': 'the reader entry point consumes exactly one value',
                                       'extension': 'every documented extension has its documented meaning in default mode', 'strict': 'strict mode rejects every extension document with parse_error',
                                       'robust': 'every truncation / single-byte edit ends in a value, parse_error or out_of_range'}[g] + ' (%d evaluations in all)' % n_ok[0])

def run(ctx):
    ctx.rule('C05-R1', 'every extension site (comment start, early close after a comma in dict/list, hex integer, n/t/f) is unreachable when disable_extensions is true', 7)
    ctx.rule('C05-R2', 'every recursive parse / skip_whitespace_and_comments call passes the caller\'s own disable_extensions', 10)
    ctx.rule('C05-R3', 'under strict mode the close bracket directly after the opening bracket still completes the container (empty {} and [] accepted)', 2)
    ctx.rule('C05-R4', 'only parse_error and out_of_range can escape the three parse entry points (exception-escape analysis with checked exemptions)', 3)
    ctx.rule('C05-R5', 'the parser touches its input only through value-returning, bounds-checked StringReader members; the single go() is dominated by where()+2 < size()', 10)
    ctx.rule('C05-R6', 'every loop of the parser consumes input, leaves the loop, or counts a variable down on each iteration', 8)
    ctx.rule('C05-R7', 'string entry points reject trailing data: skip whitespace, then throw unless eof; std::string overload forwards with the flag', 3)
    ctx.rule('C05-R8', 'numerals with a fraction or an exponent are classified as floats before the int/float decision; fraction digits are accumulated in floating point', 4)
    ctx.rule('C05-R9', 'whitespace skipping stops at every byte other than space, tab, CR, LF (and the `//` of the comment extension): evaluated for all 256 byte values under both modes', 512)
    ctx.rule('C05-R10', 'parser by evaluation (E-TABLE with an object model of StringReader and JSON values): standard documents are accepted in both modes with the value python json assigns; each documented extension is accepted in default mode with its meaning and rejected with parse_error in strict mode (also nested); the reader entry point consumes exactly one value; every truncation and single-byte edit of the documents terminates with a value, parse_error or out_of_range and never reads outside the input', 4)
    u = ctx.unit(repo_unit('JSON.cc'))
    us = ctx.unit(repo_unit('Strings.cc'))
    reader, cptr, strs = parse_fns(u)
    ctx.require(len(reader) == 1 and len(cptr) == 1 and len(strs) == 1, 'the three JSON::parse overloads were not found')
    P = reader[0]
    skips = [f for f in u.functions if f.get('name') == 'skip_whitespace_and_comments' and body_of(f) is not None]
    ctx.require(len(skips) == 1, 'skip_whitespace_and_comments not found')
    S = skips[0]
    for f in (P, S, cptr[0], strs[0]):
        check_no_goto(f)
        ctx.fn(u.qualname(f) + '(' + ','.join(qtype(p) for p in params_of(f)) + ')')
    pflag, sflag = flag_param(P), flag_param(S)
    ctx.require(pflag is not None and sflag is not None, 'disable_extensions parameter not found')
    body = body_of(P)
    IGNORE.clear()
    IGNORE.update({params_of(P)[0]['id'], params_of(S)[0]['id']})

    with ctx.section('C05-R9', 'C05'):
        check_whitespace_set(ctx, u, S, sflag)
    with ctx.section('C05-R10', P):
        check_parser_by_evaluation(ctx, u, us, reader[0], cptr[0], strs[0])
    with ctx.section('C05-R1', P, also=('C05-R2', 'C05-R3', 'C05-R4', 'C05-R5', 'C05-R6', 'C05-R7', 'C05-R8')):
        # ---- locate the container branches: `ret = JSON::dict()` / `JSON::list()` followed by a loop on the separator
        containers = []
        for x in walk(body):
            if x.get('kind') == 'WhileStmt':
                cond, wb = while_parts(x)
                r = relation(cond, True)
                if r and r[1] == '!=' and int_value(r[2]) in (ord('}'), ord(']')) and ref_decl(r[0]):
                    containers.append((x, ref_decl(r[0])['id'], int_value(r[2])))
        ctx.require(len(containers) == 2, 'container loops (`while (separator != close)`) not found: %d' % len(containers))

        # ---- R1 / R3
        R1, R3 = 'C05-R1', 'C05-R3'
        for loop, sep_id, close_ch in containers:
            open_ch = ord('{') if close_ch == ord('}') else ord('[')
            name = 'dict' if close_ch == ord('}') else 'list'
            cond, wb = while_parts(loop)
            breaks = [b for b in walk(wb) if b.get('kind') == 'BreakStmt' and enclosing(b, LOOPS) is loop]
            early = [b for b in breaks if peeks_char(b, close_ch)]
            if not early:
                ctx.bad(R3, name + '|empty-accepted', loop, 'no early close (`peek == close bracket` then break) in the %s loop: an empty container cannot complete without parsing an element' % name)
                continue
            for i, b in enumerate(early):
                # after a comma (trailing comma = extension): unreachable under strict
                after_comma = reachable_under(b, make_assume(pflag['id'], {sep_id: ord(',')}))
                ctx.check(not after_comma, R1, '%s|trailing-comma-gated#%d' % (name, i), b, 'early close after a comma is unreachable when disable_extensions is true',
                          'strict mode accepts a trailing comma in a %s: the early close is reachable with disable_extensions=true and separator=\',\'' % name)
            # directly after the opening bracket (standard empty container): reachable under strict
            reach_open = any(reachable_under(b, make_assume(pflag['id'], {sep_id: open_ch})) for b in early)
            ctx.check(reach_open, R3, name + '|empty-accepted', early[0], 'close bracket right after the opening bracket completes the %s under strict mode' % name,
                      'strict mode rejects the empty %s: the early close is unreachable with disable_extensions=true even right after the opening bracket' % name)
        # comment start
        sites = []
        sbody = body_of(S)
        # the comment-start sites: whatever executes under a test of the current character against '/'
        bool_assigns = []
        for x in walk(sbody):
            if x.get('kind') == 'IfStmt':
                cond, then, els = if_parts(x)
                slash = False
                for n_, pol_ in atoms([Fact(cond, True, x)]):
                    r_ = relation(n_, pol_)
                    if r_ and r_[1] == '==' and (int_value(r_[2]) == 47 or int_value(r_[0]) == 47):
                        slash = True
                if slash and then is not None:
                    st_ = stmts_of(then)
                    if st_:
                        bool_assigns.append(strip(st_[0]))
        ctx.require(len(bool_assigns) >= 1, 'comment-start site (a statement under a test for \'/\') not found in skip_whitespace_and_comments')
        for i, a in enumerate(bool_assigns):
            ok = not reachable_under(a, make_assume(sflag['id'], {}))
            ctx.check(ok, R1, 'comment-start#%d' % i, a, '`//` starts a comment only when extensions are enabled', 'strict mode treats `//` as a comment: the comment state is entered with disable_extensions=true')
        # hex integers: value_for_hex_char calls outside string escapes, and the go() over "0x"
        hex_sites = [c for c in walk(body) if c.get('kind') == 'CXXMemberCallExpr' and call_name(c) == 'go']
        hex_sites += [c for c in walk(body) if c.get('kind') == 'CallExpr' and call_name(c) == 'value_for_hex_char' and enclosing(c, ('CXXTryStmt',)) is None]
        ctx.require(len(hex_sites) >= 1, 'hex-integer site not found')
        for i, c in enumerate(hex_sites):
            ok = not reachable_under(c, make_assume(pflag['id'], {}))
            ctx.check(ok, R1, 'hex-integer#%d' % i, c, 'hex integer scanning unreachable under strict mode', 'strict mode accepts hex integers: this site is reachable with disable_extensions=true')
        # one-character constants
        one = [c for c in walk(body) if c.get('kind') == 'CXXMemberCallExpr' and call_name(c) == 'skip_if' and int_value(call_args(c)[1]) == 1]
        ctx.require(len(one) == 3, 'expected three one-character constant sites (n/t/f), found %d' % len(one))
        for c in one:
            lit = strip(call_args(c)[0])
            txt = lit.get('value', '?') if lit.get('kind') == 'StringLiteral' else canon(lit)
            ok = not reachable_under(c, make_assume(pflag['id'], {}))
            ctx.check(ok, R1, 'one-char-constant|%s' % txt, c, 'skip_if(%s, 1) evaluated only when extensions are enabled' % txt, 'strict mode accepts the one-character constant %s' % txt)

        # ---- R2 flag propagation
        with ctx.section('C05-R2', 'C05'):
            R = 'C05-R2'
            n = 0
            for f in (P, cptr[0], strs[0], S):
                fl = flag_param(f)
                for c in walk(body_of(f)):
                    if c.get('kind') != 'CallExpr':
                        continue
                    d = callee_decl(c, u)
                    nm = (d or {}).get('name')
                    if nm == 'skip_whitespace_and_comments' or (nm == 'parse' and (d.get('mangledName') or '').startswith('_ZN5phosg4JSON5parse')):
                        n += 1
                        a = call_args(c)
                        last = a[-1] if a else None
                        ok = last is not None and last.get('kind') != 'CXXDefaultArgExpr' and (ref_decl(last) or {}).get('id') == fl['id']
                        ctx.check(ok, R, '%s->%s@%s' % (f.get('name'), nm, c.get('_line')), c, 'passes its own disable_extensions',
                                  'call `%s` does not pass the caller\'s disable_extensions (%s): nested values are parsed with extensions %s' % (src_text(c, 70), 'default argument' if last is not None and last.get('kind') == 'CXXDefaultArgExpr' else canon(last) if last is not None else 'missing', 'enabled'))

        # ---- R4 exception escape
        with ctx.section('C05-R4', 'C05'):
            R = 'C05-R4'
            E = Exc([u, us], [refine_size_guarded_at, refine_after_type_test, refine_variant_get,
                              make_refine_fresh_container({'emplace': 'dict', 'emplace_back': 'list', 'as_dict': 'dict', 'as_list': 'list'})])
            for f, label in ((P, 'parse(StringReader&)'), (cptr[0], 'parse(const char*, size_t)'), (strs[0], 'parse(const std::string&)')):
                mt = E.may_throw(f, u)
                extra = {t: w for t, w in mt.items() if t not in ALLOWED_EXC}
                ctx.check(not extra, R, label, f, 'may throw %s' % sorted(mt),
                          'undocumented exception type(s) can escape: %s' % '; '.join('%s via %s' % (t, w[:260]) for t, w in extra.items()))
            ctx.extra['exemptions'] = ['%s: %s (%s)' % e for e in E.exemptions][:40]
            ctx.extra['unresolved_phosg_callees'] = sorted(E.unknown)[:20]

        # ---- R5 input access layering
        with ctx.section('C05-R5', 'C05'):
            R = 'C05-R5'
            seen = {}
            for f in (P, S):
                for c in walk(body_of(f)):
                    if c.get('kind') == 'CXXMemberCallExpr':
                        obj = member_call_object(c)
                        if 'StringReader' not in (dtype(obj) or ''):
                            continue
                        nm = call_name(c)
                        t = qtype(c) or ''
                        raw = '*' in t or '&' in t
                        key = '%s|%s' % (f.get('name'), nm)
                        if key in seen and not raw:
                            continue
                        seen[key] = 1
                        ctx.check(not raw, R, key + ('@%s' % c.get('_line') if raw else ''), c, 'value-returning checked accessor', 'the parser obtains a raw pointer/reference into the input (%s returns %s): reads through it bypass the bounds checks' % (nm, t))
            # raw libc scanners on the input
            for f in (P, S):
                for c in walk(body_of(f)):
                    if c.get('kind') == 'CallExpr' and call_name(c) in ('strtod', 'strtol', 'strtoul', 'strtoull', 'strtoll', 'atoi', 'atof', 'sscanf', 'strlen', 'memchr', 'strchr'):
                        ctx.bad(R, '%s|%s@%s' % (f.get('name'), call_name(c), c.get('_line')), c, '%s scans memory without a length: it can read past the end of the input' % call_name(c))
            gos = [c for c in walk(body) if c.get('kind') == 'CXXMemberCallExpr' and call_name(c) == 'go']
            for i, g in enumerate(gos):
                arg = nf(call_args(g)[0])
                rels = [(nf(r_[0]), r_[1], nf(r_[2])) for r_ in [relation(n_, p_) for n_, p_ in atoms(path_facts(g, ignore_kills_of=IGNORE))] if r_]
                ok = False
                import re as _re
                m = _re.match(r'^\((\d+) \+ r\.where\(\)\)$', arg) or _re.match(r'^\(r\.where\(\) \+ (\d+)\)$', arg)
                if m:
                    k = int(m.group(1))
                    for a, op, b in rels + [(b_, FLIP[op_], a_) for a_, op_, b_ in rels]:
                        if a in ('(%d + r.where())' % k, '(r.where() + %d)' % k) and op in ('<', '<=') and b == 'r.size()':
                            ok = True
                ctx.check(ok, R, 'go#%d' % i, g, 'go(%s) dominated by %s <(=) size()' % (arg, arg), 'go(%s) is not dominated by a test that the target is inside the input' % arg)

        # ---- R6 progress
        with ctx.section('C05-R6', 'C05'):
            R = 'C05-R6'
            for f in (P, S):
                i = 0
                for lp in walk(body_of(f)):
                    if lp.get('kind') not in LOOPS:
                        continue
                    i += 1
                    key = '%s|loop@%s' % (f.get('name'), src_text(lp, 40).split('{')[0].strip())
                    lb = loop_body(lp)
                    cond_consumes = False
                    countdown = False
                    if lp.get('kind') == 'WhileStmt':
                        cond, _ = while_parts(lp)
                        cond_consumes = any(is_consuming_call(c, f, u) for c in _uncond(cond)) if cond else False
                    if lp.get('kind') == 'ForStmt':
                        init, cv, cond, inc, _ = for_parts(lp)
                        # an increment clause that consumes input runs after every turn (also after `continue`)
                        if inc is not None and inc.get('kind') and any(is_consuming_call(c, f, u) for c in _uncond(inc)):
                            cond_consumes = True
                        r = relation(cond, True) if cond else None
                        if r and inc is not None:
                            inc_s = strip(inc)
                            v = ref_decl(r[0])
                            if v and inc_s.get('kind') == 'UnaryOperator' and inc_s.get('opcode') == '--' and (ref_decl(inc_s['inner'][0]) or {}).get('id') == v['id'] and r[1] == '>' and int_value(r[2]) is not None:
                                countdown = v['id'] not in assigned_keys(lb)
                    if not countdown and lp.get('kind') in ('WhileStmt', 'ForStmt'):
                        # `while (v > c) { ...; v--; }`: the counter is stepped unconditionally once per turn
                        cond_ = while_parts(lp)[0] if lp.get('kind') == 'WhileStmt' else for_parts(lp)[2]
                        r = relation(cond_, True) if cond_ is not None and cond_.get('kind') else None
                        v = ref_decl(r[0]) if r else None
                        if v and v.get('kind') == 'VarDecl' and int_value(r[2]) is not None and lb.get('kind') == 'CompoundStmt':
                            steps = []
                            others = False
                            for st_ in kids(lb):
                                s0 = strip(st_)
                                is_step = (s0.get('kind') == 'UnaryOperator' and s0.get('opcode') in ('--', '++') and (ref_decl(s0['inner'][0]) or {}).get('id') == v['id']) or \
                                          (s0.get('kind') == 'CompoundAssignOperator' and s0.get('opcode') in ('-=', '+=') and (ref_decl(s0['inner'][0]) or {}).get('id') == v['id'] and (int_value(s0['inner'][1]) or 0) > 0)
                                if is_step:
                                    steps.append(s0)
                                elif v['id'] in assigned_keys(st_) or any(x.get('kind') == 'ContinueStmt' for x in walk(st_)):
                                    others = True
                            if len(steps) == 1 and not others:
                                down = steps[0].get('opcode') in ('--', '-=')
                                countdown = (down and r[1] in ('>', '>=', '!=')) or ((not down) and r[1] in ('<', '<=', '!='))
                    ok = cond_consumes or countdown or consumes(lb, f, u)
                    ctx.check(ok, R, key, lp, 'each iteration consumes input / leaves the loop / counts down', 'a path through this loop body neither consumes input nor leaves the loop: the parser can spin forever on some input')

        # ---- R7 trailing data
        with ctx.section('C05-R7', 'C05'):
            R = 'C05-R7'
            cb = body_of(cptr[0])
            rets = [x for x in walk(cb) if x.get('kind') == 'ReturnStmt']
            good = False
            why = 'no return'
            if len(rets) == 1:
                why = 'the return is not dominated by `if (!r.eof()) throw parse_error`'
                for ft in path_facts(rets[0]):
                    c = strip(ft.cond)
                    # fact: !(!r.eof())  i.e. cond `!r.eof()` false
                    inner = c
                    pol = ft.pol
                    for n_, p_ in atoms([ft]):
                        n_ = strip(n_)
                        at_end = n_.get('kind') == 'CXXMemberCallExpr' and call_name(n_) == 'eof' and p_ is True
                        # the same test spelled with the position: where() == size / where() >= size / remaining() == 0
                        r_ = relation(n_, p_)
                        if r_:
                            szn = params_of(cptr[0])[1].get('name')
                            for a_, o_, b_ in ((canon(r_[0]), r_[1], canon(r_[2])), (canon(r_[2]), FLIP[r_[1]], canon(r_[0]))):
                                if (a_.endswith('.where()') and o_ in ('==', '>=') and b_ == szn) or (a_.endswith('.remaining()') and o_ == '==' and b_ == '0'):
                                    at_end = True
                        if at_end:
                            thr = [t for t in walk(ft.origin) if t.get('kind') == 'CXXThrowExpr']
                            if thr and norm_type(dtype(kids(thr[0])[0])).endswith('parse_error'):
                                good = True
                # whitespace skipped between the value and the test
                pre = preceding_statements(rets[0])
                names = [call_name(c) for s in pre for c in walk(s) if c.get('kind') == 'CallExpr']
                if good and not ('skip_whitespace_and_comments' in names and 'parse' in names and names.index('skip_whitespace_and_comments') < names.index('parse')):
                    good = False
                    why = 'trailing whitespace is not skipped between the value and the end-of-input test'
            ctx.check(good, R, 'parse(const char*, size_t)|trailing-data', cptr[0], 'parse; skip whitespace; throw parse_error unless eof', why)
            sb = body_of(strs[0])
            calls = [c for c in walk(sb) if c.get('kind') == 'CallExpr' and call_name(c) == 'parse']
            ok = len(calls) == 1 and (callee_decl(calls[0], u) or {}).get('mangledName') == cptr[0].get('mangledName')
            if ok:
                a = call_args(calls[0])
                ok = canon(a[0]) == 's.data()' and canon(a[1]) == 's.size()'
            ctx.check(ok, R, 'parse(const std::string&)|forwards', strs[0], 'forwards (s.data(), s.size(), flag) to the pointer overload', 'std::string overload does not forward its whole buffer to the checked pointer overload')
            rrets = [x for x in walk(body) if x.get('kind') == 'ReturnStmt']
            ctx.check(len(rrets) >= 1, R, 'parse(StringReader&)|returns', P, 'reader overload returns after one value (no trailing-data check by design)', 'reader overload never returns')

        # ---- R8 float classification
        with ctx.section('C05-R8', 'C05'):
            R = 'C05-R8'
            # the decision variable: `if (is_int) ret = int else ret = float`
            decision = None
            for x in walk(body):
                if x.get('kind') == 'IfStmt':
                    cond, then, els = if_parts(x)
                    rd = ref_decl(cond)
                    if rd and rd.get('kind') == 'VarDecl' and dtype(strip(cond)) == 'bool' and els is not None:
                        decision = (x, rd)
            ctx.require(decision is not None, 'int/float decision (`if (is_int) ... else ...`) not found')
            dec, isint = decision
            markers = []
            for x in walk(body):
                if x.get('kind') == 'IfStmt':
                    cond, then, els = if_parts(x)
                    chars = set()
                    for n_, p_ in atoms([Fact(cond, True, x)]):
                        pass
                    for y in walk(cond):
                        r = relation(y, True)
                        if r and r[1] == '==' and int_value(r[2]) in (ord('.'), ord('e'), ord('E')):
                            chars.add(int_value(r[2]))
                    if chars and then is not None and enclosing(x, ('IfStmt',)) is not None:
                        markers.append((x, chars, then))
            ctx.require(len(markers) >= 2, 'fraction/exponent branches of the number scanner not found')
            for x, chars, then in markers:
                sets_false = any(s.get('kind') == 'BinaryOperator' and s.get('opcode') == '=' and (ref_decl(s['inner'][0]) or {}).get('id') == isint['id'] and int_value(s['inner'][1]) == 0
                                 for s in [strip(t) for t in stmts_of(then)])
                label = ''.join(sorted(chr(c) for c in chars))
                ctx.check(sets_false, R, 'marker|' + label, x, 'numeral containing %r is classified as a float' % label,
                          'a numeral containing %r keeps is_int = true: %s is parsed as an integer (5e-1 becomes 0)' % (label, 'exponent form' if 'e' in label else 'fraction'))
                if '.' in label:
                    bad_acc = []
                    for lp in [y for y in walk(then) if y.get('kind') in LOOPS]:
                        for a in walk(lp):
                            if a.get('kind') in ('BinaryOperator', 'CompoundAssignOperator') and a.get('opcode') in ('=', '+=', '-=', '*=', '/=', '<<=', '|=') and (ref_decl(a['inner'][0]) or {}).get('kind') == 'VarDecl':
                                if (dtype(a['inner'][0]) or '') not in ('double', 'float', 'long double'):
                                    bad_acc.append(a)
                    ctx.check(not bad_acc, R, 'fraction|floating-accumulator', bad_acc[0] if bad_acc else x, 'fraction digits are accumulated in floating point',
                              'fraction digits are accumulated in the fixed-width integer `%s`: a fraction with more digits than the type holds overflows and the numeral parses to a wrong value' % (src_text(bad_acc[0], 60) if bad_acc else ''))
            # the final int/float decision follows every marker branch
            ctx.check(all(x.get('_off', 0) < dec.get('_off', 0) for x, _, _ in markers), R, 'decision-after-markers', dec, 'int/float decision is taken after scanning', 'the int/float decision precedes the fraction/exponent scan')
    ctx.note('Entry points: JSON::parse(StringReader&, bool), (const char*, size_t, bool), (const std::string&, bool); callees resolved across JSON.cc and Strings.cc.')


def check_whitespace_set(ctx, u, S, sflag):
    """C05-R9: on the first character (initial state of the scanner), `return` (stop skipping) is
    reached iff the byte is not one of the four JSON whitespace characters; '/' may depend on the
    following byte when extensions are enabled.  Decided by constant evaluation of the dominating
    conditions for each of the 256 byte values (E-BITS constant folding; helpers are inlined)."""
    from bits import Interp, const_bv, width_of_type, T as TOP
    R = 'C05-R9'
    sbody = body_of(S)
    from tables import CTYPE
    WS_ = {0x20, 0x09, 0x0D, 0x0A}
    for c_ in walk_deep(sbody, u):
        if c_.get('kind') == 'CallExpr' and call_name(c_) in CTYPE:
            set_ = {b_ for b_ in range(256) if CTYPE[call_name(c_)](b_)}
            ctx.check(set_ == WS_, R, 'skip|classifier|%s@%s' % (call_name(c_), c_.get('_line')), c_, '%s denotes exactly JSON whitespace' % call_name(c_),
                      'whitespace is classified with %s(), whose set differs from JSON whitespace {space, tab, CR, LF}: %s' % (call_name(c_), '; '.join(x_ for x_ in ['it also accepts %s' % sorted(hex(v_) for v_ in set_ - WS_) if set_ - WS_ else '', 'it misses %s' % sorted(hex(v_) for v_ in WS_ - set_) if WS_ - set_ else ''] if x_)))
    rets = [x for x in walk(sbody) if x.get('kind') == 'ReturnStmt']
    if len(rets) != 1 or len([x for x in walk(sbody) if x.get('kind') in LOOPS]) != 1:
        ctx.undecided(R, 'skip|structure', S, 'skip_whitespace_and_comments is not a single loop with one stop-skipping return: the per-byte table is not extracted')
        return
    ret = rets[0]
    loops = [x for x in walk(sbody) if x.get('kind') in LOOPS]
    ctx.require(len(loops) == 1, 'skip_whitespace_and_comments: expected one loop')
    def _bt(vd_):
        return (dtype(vd_) or '').replace('const ', '').strip()
    chv = [vd for vd in walk(loops[0]) if vd.get('kind') == 'VarDecl' and _bt(vd) in ('char', 'signed char', 'unsigned char', 'int8_t', 'uint8_t')]
    ctx.require(len(chv) == 1, 'skip_whitespace_and_comments: current-character variable not found')
    chd = chv[0]
    signed = _bt(chd) in ('char', 'signed char', 'int8_t')
    I = Interp(u)

    def locals_env(env):
        """constants of the named locals: those declared before the loop (initial scanner state) and the
        pure ones declared in the loop body from the current character / the mode flag"""
        for s_ in list(preceding_statements(loops[0])):
            if s_.get('kind') == 'DeclStmt':
                for vd in kids(s_):
                    if vd.get('kind') == 'VarDecl' and kids(vd) and width_of_type(dtype(vd)):
                        env[vd['id']] = I.cast(I.eval(kids(vd)[-1], env), dtype(vd))
        for vd in walk(loops[0]):
            if vd.get('kind') == 'VarDecl' and vd is not chd and kids(vd) and width_of_type(dtype(vd)) and vd['id'] not in env:
                if not any(c_.get('kind') in ('CXXMemberCallExpr',) for c_ in walk(vd)):
                    env[vd['id']] = I.cast(I.eval(kids(vd)[-1], env), dtype(vd))
        return env
    facts = [f for f in path_facts(ret) if not any(y is loops[0] for y in [f.cond]) ]
    # drop the loop condition itself (input not exhausted)
    lcond = while_parts(loops[0])[0] if loops[0].get('kind') == 'WhileStmt' else None
    facts = [f for f in facts if f.cond is not lcond]
    WS = {0x20, 0x09, 0x0D, 0x0A}
    for strict in (0, 1):
        for b in range(256):
            env = {}
            env[sflag['id']] = const_bv(strict, 1)
            env[chd['id']] = const_bv(b, 8, signed)
            locals_env(env)
            reach = 1
            I.notes = []
            for f in facts:
                c = I.truth(I.eval(f.cond, env))
                if c not in (0, 1):
                    c = TOP
                elif not f.pol:
                    c = 1 - c
                if c == 0:
                    reach = 0
                    break
                if c == TOP:
                    reach = TOP
            want = 0 if b in WS else 1
            ok = reach == want or (b == 0x2F and not strict and reach == TOP)
            why = ''
            if not ok:
                why = 'byte 0x%02X (%s mode): %s' % (b, 'strict' if strict else 'extended',
                      'is skipped as whitespace or cannot be shown to stop the skip' if want == 1 else 'stops the skip although it is JSON whitespace')
                if I.notes:
                    why += ' [' + I.notes[0].split(': ', 1)[-1] + ']'
            ctx.check(ok, R, 'skip|%s|byte-%02X' % ('strict' if strict else 'ext', b), ret, 'byte 0x%02X %s' % (b, 'is skipped' if want == 0 else 'ends the skip'), why, nontrivial=(b in WS or b in (0x2F, 0x80, 0xA0, 0x00, 0x7F)))
