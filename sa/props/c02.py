"""C02 - bounds-checked readers/writers never touch memory outside their buffer."""
from ast_ import *
from path import *
from guard import *

READER = 'phosg::StringReader'
BUFW = 'phosg::BufferWriter'
STRW = 'phosg::StringWriter'

COND_KINDS = ('IfStmt', 'ForStmt', 'WhileStmt', 'DoStmt', 'CXXForRangeStmt', 'ConditionalOperator', 'LambdaExpr', 'SwitchStmt', 'CXXTryStmt')


def uncond_calls(stmt):
    """Member calls evaluated on every execution of stmt (not below a branch)."""
    out = []
    stack = [stmt]
    while stack:
        x = stack.pop()
        k = x.get('kind')
        if k in COND_KINDS and x is not stmt:
            if k == 'IfStmt':
                c = if_parts(x)[0]
                if c:
                    stack.append(c)
            continue
        if k == 'IfStmt' and x is stmt:
            c = if_parts(x)[0]
            if c:
                stack.append(c)
            continue
        if k == 'BinaryOperator' and x.get('opcode') in ('&&', '||'):
            stack.append(x['inner'][0])
            continue
        if k == 'CXXMemberCallExpr':
            out.append(x)
        stack.extend(kids(x))
    return out


class ClassModel:
    def __init__(self, ctx, unit, rec, field, cap):
        self.ctx, self.unit, self.rec, self.field, self.cap = ctx, unit, rec, 'this.' + field, 'this.' + cap
        self.inl = GetterInliner(unit, rec)
        self.methods = []
        seen = set()
        for f in unit.functions:
            q = unit.qualname(f)
            if strip_targs(q).startswith(rec + '::') and not is_dependent_pattern(f, unit):
                key = (q, tuple(c['type']['qualType'] for c in kids(f) if c.get('kind') == 'TemplateArgument'), f.get('mangledName'))
                if key in seen:
                    continue
                seen.add(key)
                check_no_goto(f)
                self.methods.append(f)
        self.checkers = {}   # mangledName -> list of (A, E) in terms of formal names / 'this.offset'

    def label(self, f):
        t = [c['type']['qualType'] for c in kids(f) if c.get('kind') == 'TemplateArgument']
        ps = ','.join((qtype(p) or '?') for p in params_of(f))
        return '%s%s(%s)' % (self.unit.qualname(f), ('<%s>' % ','.join(t)) if t else '', ps)

    # ---- facts contributed by dominating checker calls
    def call_facts(self, site, include_own_stmt=True):
        facts = []
        killed = set()
        stmts = []
        if include_own_stmt:
            stmts.append(containing_statement(site))
        stmts.extend(preceding_statements(site))
        first = True

        def all_operand_calls(cond, op):
            """calls evaluated when every operand of a top-level `op` chain was evaluated (|| all false, && all true)"""
            c0 = strip(cond)
            while c0 is not None and c0.get('kind') in ('ParenExpr', 'ImplicitCastExpr', 'ExprWithCleanups') and kids(c0):
                c0 = strip(kids(c0)[0])
            if c0 is not None and c0.get('kind') == 'BinaryOperator' and c0.get('opcode') == op:
                return all_operand_calls(c0['inner'][0], op) + all_operand_calls(c0['inner'][1], op)
            return uncond_calls({'kind': 'ExprStmt', 'inner': [c0]}) if c0 is not None else []
        extra_calls = []
        for s in preceding_statements(site):
            if s.get('kind') == 'IfStmt':
                cnd, thn, els_ = if_parts(s)
                # we are past an `if (A || B) <leave>`: A and B were both evaluated (and false)
                if thn is not None and not falls_through(thn) and els_ is None:
                    extra_calls += all_operand_calls(cnd, '||')
        for a_ in ancestors(site):
            if a_.get('kind') == 'IfStmt':
                cnd, thn, els_ = if_parts(a_)
                if els_ is not None and any(y is site for y in walk(els_)):
                    extra_calls += all_operand_calls(cnd, '||')
                elif thn is not None and any(y is site for y in walk(thn)):
                    extra_calls += all_operand_calls(cnd, '&&')
        for s in stmts + [None]:
            for call in (uncond_calls(s) if s is not None else extra_calls):
                if call is site or any(a is call for a in ancestors(site)) and False:
                    continue
                d = callee_decl(call, self.unit)
                if not d:
                    continue
                obj = member_call_object(call)
                if obj is not None and not is_this(obj):
                    continue
                cs = self.checkers.get(d.get('mangledName'))
                if not cs:
                    continue
                formals = [p.get('name') for p in params_of(d)]
                actuals = call_args(call)
                amap = {}
                for i, fnm in enumerate(formals):
                    if i < len(actuals):
                        a = actuals[i]
                        if a.get('kind') == 'CXXDefaultArgExpr':
                            # default argument: evaluate from the parameter's default expression
                            pd = params_of(d)[i]
                            de = [x for x in kids(pd)]
                            amap[fnm] = self.inl.c(de[-1]) if de else '<default>'
                        else:
                            amap[fnm] = self.inl.c(a)
                for (A, E) in cs:
                    a_act = amap.get(A, A)
                    e_act = amap.get(E, E)
                    if killed_by({'this.offset'} if 'this.offset' in a_act + e_act else set(), killed):
                        continue
                    base, k = split_const(a_act)
                    facts.append((base, '<=', self.cap))
                    diff = '(%s - %s)' % (self.cap, base)
                    if _is_int(e_act):
                        facts.append((diff, '>=', str(int(e_act) + k)))
                    elif k == 0:
                        facts.append((e_act, '<=', diff))
            if not (first and include_own_stmt):
                killed |= assigned_keys(s)
            else:
                # own statement: a write in it happens at the site itself
                pass
            first = False
        return facts

    def rels(self, site):
        return rels_at(site, self.inl, self.call_facts(site))

    # ---- raw accesses
    def accesses(self, f):
        """(node, A, E, how) for every raw use of the buffer pointer in f's body."""
        out = []
        body = body_of(f)
        if body is None:
            return out
        for x in walk(body):
            k = x.get('kind')
            if k == 'MemberExpr' and x.get('name') == self.field[5:] and (not x.get('inner') or is_this(x['inner'][0])):
                p, c = up_through_casts(x)
                if p is None:
                    continue
                pk = p.get('kind')
                if pk == 'ArraySubscriptExpr' and p['inner'][0] is c:
                    out.append((p, self.inl.c(p['inner'][1]), '1', 'subscript'))
                    continue
                if pk == 'BinaryOperator' and p.get('opcode') == '+' and '*' in (qtype(p) or ''):
                    other = p['inner'][1] if p['inner'][0] is c else p['inner'][0]
                    A = self.inl.c(other)
                    # a pointer that is only given a name and then used several times: one access per use
                    par_, _c = up_through_casts(p)
                    if par_ is not None and par_.get('kind') == 'VarDecl' and '*' in (qtype(par_) or ''):
                        uses_ = [y for y in walk(body) if y.get('kind') == 'DeclRefExpr' and (y.get('referencedDecl') or {}).get('id') == par_.get('id')]
                        writes_ = [y for y in walk(body) if y.get('kind') in ('BinaryOperator', 'CompoundAssignOperator', 'UnaryOperator') and y.get('opcode') in ('=', '+=', '-=', '++', '--') and (ref_decl(y['inner'][0]) or {}).get('id') == par_.get('id')]
                        if len(uses_) > 1 and not writes_:
                            for y in uses_:
                                E, how = self.extent_of(y, f, A, 1)
                                if E is not None and 'this.data' in str(E):
                                    # an extent that is itself a pointer difference (a search result minus the
                                    # start pointer) is bounded by the search, which this rule does not model
                                    E, how = None, 'extent is a pointer difference (%s)' % E
                                out.append((y, A, E, how))
                            continue
                    E, how = self.extent_of(p, f, A)
                    out.append((p, A, E, how))
                    continue
                if pk in ('BinaryOperator', 'CompoundAssignOperator') and p.get('opcode') in ASSIGN_OPS and p['inner'][0] is c:
                    continue  # assignment to the field itself
                if pk == 'BinaryOperator' and p.get('opcode') in ('==', '!='):
                    continue  # null test
                # bare pointer use
                E, how = self.extent_of(x, f, '0')
                out.append((x, '0', E, how))
        # pointers obtained from a checked pointer-returning accessor of the same object
        # (`const uint8_t* p = pgetv(offset, 3); ... p[2]`): each use is an access at offset + k
        derived = {}
        for vd in walk(body):
            if vd.get('kind') == 'VarDecl' and '*' in (qtype(vd) or '') and kids(vd):
                init = strip_casts(kids(vd)[-1])
                if init is not None and init.get('kind') == 'CXXMemberCallExpr' and (member_call_object(init) is None or is_this(member_call_object(init))):
                    d = callee_decl(init, self.unit)
                    pa = self.returned_pointer_param(d) if d else None
                    if pa is not None:
                        args = call_args(init)
                        if pa < len(args):
                            derived[vd['id']] = self.inl.c(args[pa])
        for x in walk(body):
            if x.get('kind') == 'ArraySubscriptExpr':
                rd = ref_decl(strip_casts(x['inner'][0]))
                if rd and rd.get('id') in derived:
                    k_ = self.inl.c(x['inner'][1])
                    base = derived[rd['id']]
                    A = base if k_ == '0' else '(%s + %s)' % (base, k_)
                    out.append((x, A, '1', 'subscript of a pointer returned by a checked accessor'))
            if x.get('kind') == 'CallExpr' and call_name(x) in ('memcpy', 'memcmp', 'memmove') and len(call_args(x)) == 3:
                for a in call_args(x)[:2]:
                    rd = ref_decl(strip_casts(a))
                    if rd and rd.get('id') in derived:
                        out.append((x, derived[rd['id']], self.inl.c(call_args(x)[2]), '%s through a pointer returned by a checked accessor' % call_name(x)))
        return out

    def returned_pointer_param(self, d):
        """index of the parameter that is the start offset of the pointer a method returns (`return data + offset`)"""
        f = None
        for m in self.methods:
            if m.get('mangledName') == d.get('mangledName') and body_of(m) is not None:
                f = m
        if f is None:
            return None
        for r in walk(body_of(f)):
            if r.get('kind') == 'ReturnStmt' and kids(r):
                e = strip_casts(kids(r)[0])
                if e is not None and e.get('kind') == 'BinaryOperator' and e.get('opcode') == '+' and '*' in (qtype(e) or ''):
                    sides = [strip_casts(y) for y in e['inner']]
                    fld = [y for y in sides if y.get('kind') == 'MemberExpr' and y.get('name') == self.field[5:]]
                    oth = [y for y in sides if y not in fld]
                    if fld and oth:
                        rd = ref_decl(oth[0])
                        ps = params_of(f)
                        for i, p_ in enumerate(ps):
                            if rd and p_.get('id') == rd.get('id'):
                                return i
        return None

    def extent_of(self, ptr, f, A, _depth=0):
        p, c = up_through_casts(ptr)
        if p is None:
            return None, 'no consumer'
        pk = p.get('kind')
        if pk == 'VarDecl' and '*' in (qtype(p) or '') and _depth < 2:
            # the pointer is only given a name: its extent is that of the (single) use of the name
            uses = [x for x in walk(body_of(f)) if x.get('kind') == 'DeclRefExpr' and (x.get('referencedDecl') or {}).get('id') == p.get('id')]
            writes = [x for x in walk(body_of(f)) if x.get('kind') in ('BinaryOperator', 'CompoundAssignOperator', 'UnaryOperator') and x.get('opcode') in ('=', '+=', '-=', '++', '--') and (ref_decl(x['inner'][0]) or {}).get('id') == p.get('id')]
            if len(uses) == 1 and not writes:
                return self.extent_of(uses[0], f, A, _depth + 1)
            return None, 'pointer stored in %s, which has %d uses' % (p.get('name'), len(uses))
        if pk == 'ReturnStmt':
            cands = [q.get('name') for q in params_of(f) if (dtype(q) or '') == 'unsigned long' and q.get('name') not in _idents(A)]
            if len(cands) == 1:
                return cands[0], 'returned pointer; extent = parameter %s' % cands[0]
            return None, 'returned pointer with ambiguous extent parameter %s' % cands
        if pk in ('CXXConstructExpr', 'CXXTemporaryObjectExpr'):
            args = [a for a in kids(p)]
            i = next((j for j, a in enumerate(args) if a is c), None)
            if i is not None and i + 1 < len(args) and args[i + 1].get('kind') != 'CXXDefaultArgExpr':
                e = self.inl.c(args[i + 1])
                t = dtype(p) or ''
                if 'BitReader' in t:
                    # size is given in bits: (E * 8)
                    if e.startswith('(8 * ') and e.endswith(')'):
                        return e[5:-1], 'BitReader(ptr, E*8)'
                    if e.startswith('(') and e.endswith(' * 8)'):
                        return e[1:-5], 'BitReader(ptr, E*8)'
                    return None, 'BitReader size %s is not of the form E*8' % e
                return e, '%s(ptr, E)' % t.split('<')[0]
            return None, 'constructor without explicit extent'
        if pk == 'CallExpr':
            nm = call_name(p)
            args = call_args(p)
            if nm in ('memcpy', 'memcmp', 'memmove', '__builtin_memcpy', 'memchr', 'memrchr', '__builtin_memchr', 'strnlen', 'strncmp', 'strncpy') and len(args) in (2, 3):
                return self.inl.c(args[-1]), '%s(..., E)' % nm
            return None, 'pointer passed to %s' % nm
        if pk == 'UnaryOperator' and p.get('opcode') == '*':
            return '1', 'dereference'
        if pk == 'ArraySubscriptExpr':
            return '1', 'subscript'
        return None, 'unrecognised consumer %s' % pk


def _is_int(s):
    try:
        int(s)
        return True
    except (TypeError, ValueError):
        return False


def _idents(s):
    import re
    return set(re.findall(r'[A-Za-z_][A-Za-z_0-9.]*', s or ''))


def compute_checkers(cm):
    """A method is a checker for (A, E) when inbounds(A, E) holds at each of its
    normal exits; iterate so that wrappers of checkers become checkers."""
    for _ in range(4):
        changed = False
        for f in cm.methods:
            mn = f.get('mangledName')
            body = body_of(f)
            if body is None or not params_of(f):
                continue
            exits = [x for x in walk(body) if x.get('kind') == 'ReturnStmt' and enclosing_function(x) is f]
            sites = list(exits)
            dummy = None
            if falls_through(body):
                dummy = {'kind': 'NullStmt', '_p': body}
                body.setdefault('inner', []).append(dummy)
                sites.append(dummy)
            try:
                if not sites:
                    continue
                pnames = [p.get('name') for p in params_of(f) if (dtype(p) or '') == 'unsigned long']
                Acands = pnames + ['this.offset']
                found = []
                for A in Acands:
                    Ecands = [p for p in pnames if p != A] + ['1', '2', '3', '4', '6', '8']
                    for E in Ecands:
                        if all(inbounds(cm.rels(s), A, E, cm.cap)[0] for s in sites):
                            found.append((A, E))
                # keep the strongest constant extent only
                best = {}
                for A, E in found:
                    if _is_int(E):
                        best[A] = max(best.get(A, 0), int(E))
                found = [(A, E) for A, E in found if not _is_int(E)] + [(A, str(v)) for A, v in best.items()]
                if found and sorted(found) != sorted(cm.checkers.get(mn, [])):
                    cm.checkers[mn] = found
                    changed = True
            finally:
                if dummy is not None:
                    body['inner'].pop()
        if not changed:
            break


def returned_extent_functions(cm, discharged_nodes):
    """Methods F(offset, ...) whose result's size/count is the extent of a discharged
    access starting at their first parameter (clamping readers)."""
    out = {}
    for f in cm.methods:
        ps = params_of(f)
        if not ps:
            continue
        body = body_of(f)
        rets = [x for x in walk(body) if x.get('kind') == 'ReturnStmt']
        if not rets:
            continue
        rt = (f.get('type', {}).get('qualType') or '').split('(')[0].strip()
        first = ps[0].get('name')
        ok = True
        kind_ = None
        for r in rets:
            if not kids(r):
                ok = False
                break
            v = strip(kids(r)[0])
            if rt in ('std::string', 'string'):
                kind_ = 'string'
                ce = v
                while ce is not None and ce.get('kind') in ('CXXConstructExpr', 'CXXTemporaryObjectExpr', 'CXXFunctionalCastExpr') and len(kids(ce)) == 1 and (dtype(kids(ce)[0]) or '').endswith('basic_string<char>'):
                    ce = strip(kids(ce)[0])
                if ce is None or ce.get('kind') not in ('CXXConstructExpr', 'CXXTemporaryObjectExpr'):
                    ok = False
                    break
                args = [a for a in kids(ce) if a.get('kind') != 'CXXDefaultArgExpr']
                if len(args) == 0:
                    continue
                acc = [n for n in discharged_nodes if any(a is ce for a in ancestors(n))]
                if not acc and len(args) >= 2:
                    # the pointer was given a name first: match the construction's length with a discharged access of this function
                    ee = cm.inl.c(args[1])
                    acc = [n for n in discharged_nodes if any(a is body for a in ancestors(n)) and discharged_nodes_E[id(n)] == ee]
                if not acc or not all(discharged_nodes_A[id(n)] == first for n in acc):
                    ok = False
                    break
            elif rt in ('size_t', 'unsigned long'):
                kind_ = 'count'
                if int_value(v) == 0:
                    continue
                rd = ref_decl(v)
                assigns = [x for x in walk(body) if rd and x.get('kind') == 'BinaryOperator' and x.get('opcode') == '=' and (ref_decl(x['inner'][0]) or {}).get('id') == rd.get('id')]
                if not assigns:
                    # the returned expression itself (hoisted locals substituted) is the extent of a discharged access at `first`
                    val = cm.inl.c(v)
                    acc = [n for n in discharged_nodes if any(a is body for a in ancestors(n)) and discharged_nodes_E[id(n)] == val and discharged_nodes_A[id(n)] == first]
                    if not acc:
                        ok = False
                        break
                    continue
                if not rd or rd.get('kind') != 'VarDecl':
                    ok = False
                    break
                # every assignment to the variable is `ret = E` next to a discharged access with extent E starting at `first`
                for a in assigns:
                    blk = enclosing(a, ('CompoundStmt',))
                    val = cm.inl.c(a['inner'][1])
                    acc = [n for n in discharged_nodes if enclosing(n, ('CompoundStmt',)) is blk and discharged_nodes_E[id(n)] == val and discharged_nodes_A[id(n)] == first]
                    if not acc:
                        ok = False
                if not ok:
                    break
            else:
                ok = False
                break
        if ok and kind_:
            out[f.get('mangledName')] = kind_
    return out


discharged_nodes_A = {}
discharged_nodes_E = {}


def cstr_extent_functions(cm):
    """Methods F(offset) that return a local string `ret` built by a loop whose
    every exit is a `break` reached right after a checked one-byte read at
    offset + ret.size(): then offset + ret.size() + 1 <= length on return."""
    out = set()
    for f in cm.methods:
        ps = params_of(f)
        if len(ps) != 1:
            continue
        body = body_of(f)
        loops = [x for x in walk(body) if x.get('kind') in LOOPS]
        rets = [x for x in walk(body) if x.get('kind') == 'ReturnStmt']
        if len(loops) != 1 or len(rets) != 1:
            continue
        rd = ref_decl(kids(rets[0])[0]) if kids(rets[0]) else None
        # returned value may be wrapped in a copy/move construct
        if rd is None and kids(rets[0]):
            for x in walk(kids(rets[0])[0]):
                if x.get('kind') == 'DeclRefExpr':
                    rd = x.get('referencedDecl')
        if not rd:
            continue
        rname = rd.get('name')
        loop = loops[0]
        if loop.get('kind') != 'ForStmt' or for_parts(loop)[2] is not None:
            continue
        lb = loop_body(loop)
        breaks = [x for x in walk(lb) if x.get('kind') == 'BreakStmt']
        if not breaks or any(x.get('kind') == 'ReturnStmt' for x in walk(lb)):
            continue
        want = '(%s + %s.size())' % (ps[0].get('name'), rname)
        good = True
        for b in breaks:
            okb = False
            killed = set()
            for s in preceding_statements(b):
                if not any(a is lb for a in ancestors(s)) and s is not lb:
                    break
                for call in uncond_calls(s):
                    d = callee_decl(call, cm.unit)
                    cs = cm.checkers.get((d or {}).get('mangledName')) or []
                    formals = [p.get('name') for p in params_of(d)] if d else []
                    for (A, E) in cs:
                        if A in formals and _is_int(E) and int(E) >= 1:
                            act = cm.inl.c(call_args(call)[formals.index(A)])
                            if act == want and not killed_by({rd.get('id')}, killed):
                                okb = True
                            else:
                                # the argument may be a local defined as the wanted expression
                                ard = ref_decl(call_args(call)[formals.index(A)])
                                if ard:
                                    vd = cm.unit.by_id.get(ard.get('id'))
                                    if vd and kids(vd) and cm.inl.c(kids(vd)[-1]) == want and not killed_by({rd.get('id')}, killed):
                                        okb = True
                killed |= assigned_keys(s)
            if not okb:
                good = False
        if good:
            out.add(f.get('mangledName'))
    return out


def check_pput(ctx, u, R):
    """StringWriter::pput<T>: wrap-checked end offset, grow-to-cover, zero fill, copy shape.  The
    preparation may live in pput itself or in a helper that returns the destination pointer."""
    sw = [f for f in u.functions if strip_targs(u.qualname(f)) == STRW + '::pput' and not is_dependent_pattern(f, u)]
    ctx.require(len(sw) >= 5, 'StringWriter::pput instantiations not found')
    inl = GetterInliner(u, STRW)
    seen = set()
    smax = (1 << 64) - 1
    for f in sw:
        t = [c['type']['qualType'] for c in kids(f) if c.get('kind') == 'TemplateArgument'][0]
        if t in seen:
            continue
        seen.add(t)
        lab = 'StringWriter::pput<%s>' % t
        ctx.fn(lab)
        body = body_of(f)
        copies = [c for c in walk(body) if c.get('kind') == 'CallExpr' and call_name(c) in ('memcpy', '__builtin_memcpy', 'memmove')]
        if len(copies) != 1:
            ctx.undecided(R, lab + '|copy', body, 'expected exactly one memcpy into the string, found %d' % len(copies))
            continue
        cp = copies[0]
        dst, srcp, nbytes = call_args(cp)
        szT = sizeof_type(t)
        nb = int_value(nbytes)
        off = params_of(f)[0].get('name')
        # where the destination pointer is formed: here, or at the return of a preparing helper
        site, dexpr, size_term = cp, dst, str(szT)
        d0 = strip_casts(dst)
        if d0 is not None and d0.get('kind') == 'CXXMemberCallExpr' and is_this(member_call_object(d0) or {'kind': 'CXXThisExpr'}):
            hd = callee_decl(d0, u)
            hf = next((m for m in u.functions if hd and m.get('mangledName') == hd.get('mangledName') and body_of(m) is not None), None)
            hargs = call_args(d0)
            if hf is not None and len(params_of(hf)) == 2 and len(hargs) == 2 and (ref_decl(hargs[0]) or {}).get('id') == params_of(f)[0]['id'] and int_value(hargs[1]) == szT:
                rets = [r for r in walk(body_of(hf)) if r.get('kind') == 'ReturnStmt' and kids(r)]
                if len(rets) == 1:
                    site, dexpr = rets[0], kids(rets[0])[0]
                    off = params_of(hf)[0].get('name')
                    size_term = params_of(hf)[1].get('name')
                    ctx.fn(strip_targs(u.qualname(hf)))
        dstc = inl.c(dexpr)
        ok_dst = dstc in ('(%s + this.data.data())' % off, '(this.data.data() + %s)' % off)
        ctx.check(ok_dst and nb is not None and nb == szT, R, lab + '|copy-shape', cp, 'memcpy(data.data() + %s, &v, %s)' % (off, nb),
                  'copy is memcpy(%s, ..., %s); expected destination data.data() + %s and sizeof(T) = %s bytes' % (dstc, canon(nbytes), off, szT))
        # the end offset offset + size, however it is spelled (hoisted locals are substituted away)
        ends = ('(%s + %s)' % (off, size_term), '(%s + %s)' % (size_term, off))
        rels = rels_at(site, inl)
        end = next((e for e in ends if any(e in (a_, b_) for a_, _, b_ in rels)), ends[0])
        wrap_ok = holds(rels, end, ('>=',), off) or holds(rels, end, ('>',), off)
        for a_, op_, b_ in rels:
            for x_, o_, y_ in ((a_, op_, b_), (b_, FLIP[op_], a_)):
                # pre-check forms: offset <= SIZE_MAX - size   /   size <= SIZE_MAX - offset
                if size_term.isdigit() and x_ == off and y_.lstrip('-').isdigit():
                    c_ = int(y_)
                    if (o_ == '<=' and c_ <= smax - int(size_term)) or (o_ == '<' and c_ <= smax - int(size_term) + 1):
                        wrap_ok = True
                if o_ in ('<=',) and ((x_ == off and y_ == '(%d - %s)' % (smax, size_term)) or (x_ == size_term and y_ == '(%d - %s)' % (smax, off))):
                    wrap_ok = True
        ctx.check(wrap_ok, R, lab + '|wrap-check', site, 'offset + sizeof(T) cannot wrap at the copy (`end < offset` or `offset > SIZE_MAX - size` leads to a throw)',
                  'the sum %s + sizeof(T) is not tested for wrap-around before it is used as the new size: pput(SIZE_MAX-1, v) resizes to a tiny size and copies far outside the buffer' % off)
        # grow: a preceding `if (end > size()) resize(end)` (either orientation)
        grow_ok = False
        detail = ''
        for s in preceding_statements(site):
            if s.get('kind') == 'IfStmt':
                cond, then, els = if_parts(s)
                r = relation(cond, True)
                if r:
                    a, op, b = inl.c(r[0]), r[1], inl.c(r[2])
                    # `end >= size()` grows in the same cases plus a no-op resize to the current size
                    is_gt = (a in ends and op in ('>', '>=') and b == 'this.data.size()') or (b in ends and op in ('<', '<=') and a == 'this.data.size()')
                    if is_gt and then is not None:
                        for c in walk(then):
                            if c.get('kind') == 'CXXMemberCallExpr' and call_name(c) in ('resize', 'extend_to'):
                                a0 = inl.c(call_args(c)[0])
                                if a0 in ends:
                                    grow_ok = True
                                    fill = call_args(c)[1] if len(call_args(c)) > 1 else None
                                    fv = int_value(fill) if fill is not None and fill.get('kind') != 'CXXDefaultArgExpr' else 0
                                    ctx.check(fv == 0, R, lab + '|zero-fill', c, 'gap filled with NUL bytes', 'the gap created by a positional write past the end is filled with %r, not zero' % fv)
                    elif then is not None and any(c.get('kind') == 'CXXMemberCallExpr' and call_name(c) in ('resize', 'extend_to') for c in walk(then)):
                        detail = 'the grow is guarded by `%s %s %s`, not by `%s > size()`' % (a, op, b, end)
        if not grow_ok:
            grow_ok = any(holds(rels, e_, ('<=',), 'this.data.size()') for e_ in ends)
        ctx.check(grow_ok, R, lab + '|grow-covers-write', site, 'string grown to %s whenever %s > size()' % (end, end),
                  'the string is not guaranteed to cover [%s, %s) at the copy: %s' % (off, end, detail or 'no `if (%s > size()) resize(%s)` dominates the memcpy' % (end, end)))



def _holds_le(rels, val, cap):
    """is `val <= cap` established: directly, as min(.., cap), or as p + 1 with p < cap"""
    from guard import holds, _call_args_of, split_const
    if holds(rels, val, ('<=', '<'), cap):
        return True
    if val.startswith('min(') and cap in _call_args_of(val):
        return True
    base, k = split_const(val)
    if k == 1 and holds(rels, base, ('<',), cap):
        return True
    return False

def run(ctx):
    ctx.rule('C02-R1', 'every raw use of the reader/writer buffer pointer is dominated by an overflow-safe guard: A <= L and E <= L - A (sum-form guards rejected)', 30)
    ctx.rule('C02-R2', 'every cursor write in a read operation is justified by a dominating check of the same extent, is the returned extent of a clamping read, or is followed by the clamp offset = length', 14)
    ctx.rule('C02-R3', 'StringWriter::pput: wrap-checked end offset, grow to it iff it exceeds size(), then copy sizeof(T) at offset', 10)
    ctx.rule('C02-R4', 'readers throw only out_of_range (truncate: invalid_argument), BufferWriter only runtime_error', 14)
    ctx.rule('C02-R5', 'throwing forms return exactly the requested slice (start = the offset argument / cursor, extent = the size argument)', 8)
    u = ctx.unit(repo_unit('Strings.cc'))
    rd = ClassModel(ctx, u, READER, 'data', 'length')
    bw = ClassModel(ctx, u, BUFW, 'buf', 'buf_size')
    ctx.require(len(rd.methods) >= 100, 'StringReader methods not found (%d)' % len(rd.methods))
    ctx.require(len(bw.methods) >= 5, 'BufferWriter methods not found (%d)' % len(bw.methods))
    compute_checkers(rd)
    compute_checkers(bw)
    ctx.extra['checker_summaries'] = sorted({'%s: %s' % (strip_targs(u.qualname(f)), rd.checkers[f.get('mangledName')]) for f in rd.methods if f.get('mangledName') in rd.checkers})[:80]

    # ---- R1
    with ctx.section('C02-R1', 'C02'):
        R = 'C02-R1'
        discharged = []
        for cm in (rd, bw):
            for f in cm.methods:
                if f.get('kind') == 'CXXConstructorDecl':
                    continue
                lab = cm.label(f)
                acc = cm.accesses(f)
                if acc:
                    ctx.fn(lab)
                counts = {}
                for node, A, E, how in acc:
                    k0 = '%s|%s+%s' % (lab, A, E)
                    counts[k0] = counts.get(k0, 0) + 1
                    key = k0 if counts[k0] == 1 else '%s#%d' % (k0, counts[k0])
                    if E is None:
                        ctx.undecided(R, key, node, 'cannot determine the extent of this buffer access (%s)' % how)
                        continue
                    ok, why = inbounds(cm.rels(node), A, E, cm.cap)
                    if ok:
                        discharged.append(node)
                        discharged_nodes_A[id(node)] = A
                        discharged_nodes_E[id(node)] = E
                    ctx.check(ok, R, key, node, '%s [%s] %s' % (src_text(node, 80), how, why), '%s: access %s of extent %s (%s): %s' % (src_text(node, 80), A, E, how, why))

    # ---- R2 cursor writes
    with ctx.section('C02-R2', 'C02'):
        R = 'C02-R2'
        ret_ext = returned_extent_functions(rd, discharged)
        cstr_ext = cstr_extent_functions(rd)
        ctx.extra['returned_extent_functions'] = sorted(ret_ext.values()) and sorted({strip_targs(u.qualname(f)) for f in rd.methods if f.get('mangledName') in ret_ext})
        ctx.extra['cstr_extent_functions'] = sorted({strip_targs(u.qualname(f)) for f in rd.methods if f.get('mangledName') in cstr_ext})
        for f in rd.methods:
            if f.get('kind') in ('CXXConstructorDecl', 'CXXDestructorDecl') or f.get('name') in ('go', 'operator='):
                continue
            body = body_of(f)
            lab = rd.label(f)
            n = 0
            for x in walk(body):
                k = x.get('kind')
                is_w = False
                D = None
                if k in ('BinaryOperator', 'CompoundAssignOperator') and x.get('opcode') in ASSIGN_OPS and canon(x['inner'][0]) == 'this.offset':
                    is_w = True
                    op = x.get('opcode')
                    if op == '+=':
                        D = x['inner'][1]
                    elif op == '=':
                        D = ('=', x['inner'][1])
                    else:
                        D = ('?', None)
                elif k == 'UnaryOperator' and x.get('opcode') in ('++', '--') and canon(x['inner'][0]) == 'this.offset':
                    is_w = True
                    D = ('1', None) if x.get('opcode') == '++' else ('?', None)
                if not is_w:
                    continue
                n += 1
                ctx.fn(lab)
                key = '%s|cursor-write#%d' % (lab, n)
                if isinstance(D, tuple):
                    if D[0] == '=':
                        val = rd.inl.c(D[1])
                        rels = rd.rels(x)
                        ok = val == rd.cap or _holds_le(rels, val, rd.cap)
                        d1 = strip(D[1])
                        while d1 is not None and d1.get('kind') in ('ParenExpr', 'ImplicitCastExpr') and kids(d1):
                            d1 = strip(kids(d1)[0])
                        if not ok and d1 is not None and d1.get('kind') == 'ConditionalOperator':
                            # each arm under its own branch of the condition
                            from guard import with_cond
                            c_, a_, b_ = kids(d1)[:3]
                            va, vb = rd.inl.c(a_), rd.inl.c(b_)
                            ok = (va == rd.cap or _holds_le(with_cond(rels, c_, True, rd.inl), va, rd.cap)) and (vb == rd.cap or _holds_le(with_cond(rels, c_, False, rd.inl), vb, rd.cap))
                        if not ok:
                            # v + (cond ? a : b) with constant arms and a comparison as condition: decided per arm
                            import re as _re2
                            m2 = _re2.search(r'\(\(([^()?]+) (<|<=|>|>=|==|!=) ([^()?]+)\) \? (\d+) : (\d+)\)', val)
                            if m2:
                                from guard import derive_strict, FLIP as _FL
                                NEG = {'<': '>=', '<=': '>', '>': '<=', '>=': '<', '==': '!=', '!=': '=='}
                                def arm_val(k_):
                                    v2 = val.replace(m2.group(0), str(k_))
                                    v2 = _re2.sub(r'^\(0 \+ (.+)\)$', r'\1', v2)
                                    v2 = _re2.sub(r'^\((.+) \+ 0\)$', r'\1', v2)
                                    return v2
                                rel_t = derive_strict(list(rels) + [(m2.group(1), m2.group(2), m2.group(3))])
                                rel_f = derive_strict(list(rels) + [(m2.group(1), NEG[m2.group(2)], m2.group(3))])
                                vt, vf = arm_val(int(m2.group(4))), arm_val(int(m2.group(5)))
                                ok = (vt == rd.cap or _holds_le(rel_t, vt, rd.cap)) and (vf == rd.cap or _holds_le(rel_f, vf, rd.cap))
                        ptr_diff = any(y.get('kind') == 'BinaryOperator' and y.get('opcode') == '-' and '*' in (qtype(strip(y['inner'][0])) or '') for y in walk(D[1]))
                        if not ok and ptr_diff:
                            ctx.undecided(R, key, x, 'the cursor is set from a pointer difference (%s): positions obtained from iterator / pointer searches are not modelled' % val)
                            continue
                        ctx.check(ok, R, key, x, 'cursor set to %s (within the data)' % val, 'cursor assigned %s, which is not known to be <= length' % val)
                        continue
                    if D[0] == '1':
                        Dn, Dc = None, '1'
                    else:
                        ctx.bad(R, key, x, 'cursor modified by an operator other than += / = / ++')
                        continue
                else:
                    Dn, Dc = D, rd.inl.c(D)
                rels = rd.rels(x)
                ok, why = inbounds(rels, 'this.offset', Dc, rd.cap)
                if ok:
                    ctx.ok(R, key, x, 'advance by %s: %s' % (Dc, why))
                    continue
                # J2 returned extent
                j = _returned_extent_justification(rd, x, Dn, Dc, ret_ext, cstr_ext)
                if j:
                    ctx.ok(R, key, x, 'advance by %s: %s' % (Dc, j))
                    continue
                # J3 clamp-after
                if _clamp_follows(rd, x):
                    ctx.ok(R, key, x, 'advance by %s is followed by the clamp `if (offset > length) offset = length` on every path' % Dc)
                    continue
                if ' ? ' in Dc or 'memchr' in Dc or 'strnlen' in Dc or any('*' in (qtype(y) or '') and y.get('kind') == 'BinaryOperator' and y.get('opcode') == '-' for y in (walk(Dn) if Dn is not None else [])):
                    ctx.undecided(R, key, x, 'the cursor is advanced by `%s`, an expression (conditional / pointer difference / library search) the bounds engine does not model' % Dc)
                    continue
                ctx.bad(R, key, x, 'cursor advanced by %s without a dominating bounds check of that extent, a clamping read that returned it, or a following clamp: the cursor can end beyond the data (remaining() underflows). %s' % (Dc, why))

    # ---- R3 StringWriter::pput
    check_pput(ctx, u, 'C02-R3')

    # ---- R4 exception types
    with ctx.section('C02-R4', 'C02'):
        R = 'C02-R4'
        for cm, allowed in ((rd, {'std::out_of_range': None, 'std::invalid_argument': {'truncate'}}), (bw, {'std::runtime_error': None})):
            for f in cm.methods:
                body = body_of(f)
                i = 0
                for t in walk(body):
                    if t.get('kind') == 'CXXThrowExpr':
                        i += 1
                        ty = (dtype(kids(t)[0]) or '').replace('const ', '') if kids(t) else '<rethrow>'
                        fnm = f.get('name')
                        ok = ty in allowed and (allowed[ty] is None or fnm in allowed[ty])
                        ctx.check(ok, R, '%s|throw#%d' % (cm.label(f), i), t, 'throws %s' % ty, 'throws %s, not the documented exception type' % ty)

    # ---- R5 exact slice in the throwing forms
    with ctx.section('C02-R5', 'C02'):
        R = 'C02-R5'
        for f in rd.methods:
            nm = f.get('name')
            if nm not in ('subx', 'subx_bits', 'preadx', 'pgetv', 'peek'):
                continue
            lab = rd.label(f)
            ps = [p.get('name') for p in params_of(f)]
            for node, A, E, how in rd.accesses(f):
                wantA = 'offset' if 'offset' in ps else 'this.offset'
                wantE = 'size' if 'size' in ps else '(this.length - %s)' % wantA
                ctx.check(A == wantA and E == wantE, R, '%s|slice' % lab, node, 'slice [%s, %s+%s)' % (A, A, E), 'throwing form hands out [%s, +%s) instead of the requested [%s, +%s)' % (A, E, wantA, wantE))
    ctx.note('Scope: StringReader, BufferWriter, StringWriter in Strings.hh/Strings.cc, every instantiation of get/pget/put/pput present in Strings.cc. BitReader performs no checks by design and is not in scope.')


def holds_le(rels, a, b):
    return holds(rels, a, ('<=', '<'), b)


def _returned_extent_justification(cm, site, Dn, Dc, ret_ext, cstr_ext):
    if Dn is None:
        return None
    # D is `ret.size()` / `ret` / `ret.size() + 1` with ret a local initialised by a call on the cursor
    refs = [x for x in walk(Dn) if x.get('kind') == 'DeclRefExpr' and (x.get('referencedDecl') or {}).get('kind') == 'VarDecl']
    if len(refs) != 1:
        return None
    rid = refs[0]['referencedDecl']['id']
    vd = cm.unit.by_id.get(rid)
    if vd is None or not kids(vd):
        return None
    name = vd.get('name')
    init = None
    for x in walk(vd):
        if x.get('kind') == 'CXXMemberCallExpr':
            init = x
            break
    if init is None:
        return None
    d = callee_decl(init, cm.unit)
    if not d:
        return None
    args = call_args(init)
    if not args or cm.inl.c(args[0]) != 'this.offset':
        return None
    # no write to the cursor or to the local between the definition and the site
    killed = set()
    for s in preceding_statements(site):
        if any(x is vd for x in walk(s)):
            break
        killed |= assigned_keys(s)
    if killed_by({'this.offset', rid}, killed):
        return None
    mn = d.get('mangledName')
    if mn in ret_ext:
        if ret_ext[mn] == 'string' and Dc == '%s.size()' % name:
            return '%s is the size of the string returned by the clamping read %s(this->offset, ...), i.e. the discharged extent' % (Dc, d.get('name'))
        if ret_ext[mn] == 'count' and Dc == name:
            return '%s is the byte count returned by the clamping read %s(this->offset, ...), i.e. the discharged extent' % (Dc, d.get('name'))
    if mn in cstr_ext and Dc in ('(1 + %s.size())' % name, '(%s.size() + 1)' % name):
        return '%s(this->offset) returns after a checked read of the terminator at offset + %s.size(), so offset + %s.size() + 1 <= length' % (d.get('name'), name, name)
    return None


def _clamp_follows(cm, site):
    st = containing_statement(site)
    p = st.get('_p')
    if p is None or p.get('kind') != 'CompoundStmt':
        return False
    sibs = list(kids(p))
    i = next(j for j, s in enumerate(sibs) if s is st)
    if i + 1 >= len(sibs):
        return False
    nxt = sibs[i + 1]
    if nxt.get('kind') != 'IfStmt':
        return False
    cond, then, els = if_parts(nxt)
    r = relation(cond, True)
    if not r:
        return False
    a, op, b = cm.inl.c(r[0]), r[1], cm.inl.c(r[2])
    gt = (a == 'this.offset' and op in ('>',) and b == cm.cap) or (b == 'this.offset' and op in ('<',) and a == cm.cap)
    if not gt:
        return False
    ts = stmts_of(then)
    if not ts:
        return False
    first = strip(ts[0])
    return first.get('kind') == 'BinaryOperator' and first.get('opcode') == '=' and canon(first['inner'][0]) == 'this.offset' and cm.inl.c(first['inner'][1]) == cm.cap
