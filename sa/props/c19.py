"""C19 - expectation helpers are a sound and complete oracle (DESIGN.md section 5, C19)."""
from ast_ import *
from path import *

MACROS = {  # witness function -> (operator the macro must apply, arity)
    'm_eq': '==', 'm_ne': '!=', 'm_gt': '>', 'm_ge': '>=', 'm_lt': '<', 'm_le': '<=',
}


def _resolved(call, unit):
    d = callee_decl(call, unit)
    return d or {}


def _is_expect_generic(call, unit):
    d = _resolved(call, unit)
    if d.get('name') != 'expect_generic':
        return False
    full = unit.by_id.get(d.get('id'), d)
    mn = full.get('mangledName', '')
    return mn.startswith('_ZN5phosg14expect_generic') or unit.qualname(full).startswith('phosg::')


def _thrown_type(thr):
    if not kids(thr):
        return None  # rethrow
    return (dtype(kids(thr)[0]) or '').replace('const ', '').strip()


def _is_failure_stmt(s, unit, consts=None):
    """Statement that always raises expectation_failed (on the path where the flags in consts hold
    their initial values)."""
    s = strip(s)
    if s is None:
        return False
    if s.get('kind') == 'CallExpr' and _is_expect_generic(s, unit):
        args = call_args(s)
        if len(args) >= 1 and consts:
            rd = ref_decl(args[0])
            if rd and rd.get('id') in consts:
                return not consts[rd['id']]
        return len(args) >= 1 and int_value(args[0]) == 0
    if s.get('kind') == 'CXXThrowExpr':
        t = _thrown_type(s)
        return t is not None and t.endswith('expectation_failed')
    if s.get('kind') == 'CallExpr' and _depth[0] < 3:
        # a helper every path of which raises a failure (summary, one function at a time)
        d = callee_decl(s, unit)
        if d is not None and body_of(d) is not None and not _is_expect_generic(s, unit):
            _depth[0] += 1
            try:
                return _ends_in_failure(body_of(d), unit)
            finally:
                _depth[0] -= 1
    return False


_depth = [0]


def _may_raise_failure(n, unit):
    """Sites below n that may raise expectation_failed (calls to the helpers,
    throws of that type, rethrows)."""
    out = []
    for x in walk(n):
        k = x.get('kind')
        if k == 'CallExpr':
            d = _resolved(x, unit)
            if d.get('name') in ('expect_generic', 'expect_raises_fn'):
                out.append(x)
        elif k == 'CXXThrowExpr':
            t = _thrown_type(x)
            if t is None or t.endswith('expectation_failed') or t.endswith('logic_error') or t.endswith('exception'):
                out.append(x)
    return out


def _handler_type(h):
    ks = kids(h)
    if ks and ks[0].get('kind') == 'VarDecl':
        return (qtype(ks[0]) or '').replace('const ', '').replace('&', '').strip()
    return '...'


def _handler_body(h):
    return kids(h)[-1]


def _ends_in_failure(body, unit, consts=None):
    """Every path through body ends by raising a failure (never completes
    normally, never returns)."""
    for x in walk(body):
        if x.get('kind') == 'ReturnStmt':
            return False
    return _seq_reaches_failure(stmts_of(body), unit, consts or {})


def _seq_reaches_failure(stmts, unit, consts):
    """The statement sequence raises a failure on the path where the flags in
    consts have their initial values."""
    for s in stmts:
        if _is_failure_stmt(s, unit, consts):
            return True
        k = s.get('kind')
        if k == 'ReturnStmt':
            return False
        if k == 'IfStmt':
            cond, then, els = if_parts(s)

            def assume(a):
                rd = ref_decl(a)
                if rd and rd.get('id') in consts:
                    return bool(consts[rd['id']])
                return None
            v = eval3(cond, assume)
            if v is True:
                if _seq_reaches_failure(stmts_of(then), unit, consts):
                    return True
                if not falls_through(then):
                    return False
            elif v is False:
                if els is not None:
                    if _seq_reaches_failure(stmts_of(els), unit, consts):
                        return True
                    if not falls_through(els):
                        return False
            else:
                # unknown condition: both branches must fail for this statement to count
                if els is not None and _seq_reaches_failure(stmts_of(then), unit, consts) and _seq_reaches_failure(stmts_of(els), unit, consts):
                    return True
                if any(x.get('kind') == 'ReturnStmt' for x in walk(s)):
                    return False
        elif k == 'CompoundStmt':
            if _seq_reaches_failure(stmts_of(s), unit, consts):
                return True
        elif any(x.get('kind') == 'ReturnStmt' for x in walk(s)):
            return False
    return False


def _handler_flags(func, trystmt):
    """Local variables with a literal initialiser that are assigned only inside
    handlers of trystmt: on the path where the try block completes they still
    hold the initial value."""
    consts = {}
    handlers = kids(trystmt)[1:]
    for x in walk(func):
        if x.get('kind') == 'VarDecl' and x.get('inner'):
            v = int_value(x['inner'][0])
            if v is not None:
                consts[x['id']] = v
    for x in walk(func):
        if (x.get('kind') in ('BinaryOperator', 'CompoundAssignOperator') and x.get('opcode') in ASSIGN_OPS) or \
           (x.get('kind') == 'UnaryOperator' and x.get('opcode') in ('++', '--', '&')):
            rd = ref_decl(x['inner'][0])
            if rd and rd.get('id') in consts:
                if not any(a in handlers for a in ancestors(x)):
                    del consts[rd['id']]
    return consts


def check_raises_fn(ctx, unit, f, label):
    R = 'C19-R3'
    ctx.fn(label)
    body = body_of(f)
    params = {p.get('name'): p for p in params_of(f)}
    tries = [x for x in walk(body) if x.get('kind') == 'CXXTryStmt']
    ctx.require(len(tries) >= 1, 'expect_raises_fn (%s) has no try statement' % label)
    # the try statement that invokes the callback
    fn_param = next((p for p in params_of(f) if 'function' in (qtype(p) or '')), None)
    ctx.require(fn_param is not None, 'expect_raises_fn (%s): callback parameter not found' % label)
    trystmt = None
    for t in tries:
        blk = kids(t)[0]
        for c in walk(blk):
            if c.get('kind') == 'CXXOperatorCallExpr':
                rd = ref_decl(c['inner'][1]) if len(c['inner']) > 1 else None
                if rd and rd.get('id') == fn_param['id']:
                    trystmt = t
    ctx.require(trystmt is not None, 'expect_raises_fn (%s): the callback is not invoked inside a try block' % label)
    blk = kids(trystmt)[0]
    handlers = kids(trystmt)[1:]

    # (b) no failure raised inside the try block: ExcT is arbitrary and
    # expectation_failed derives from std::logic_error, so a handler may swallow it
    offenders = _may_raise_failure(blk, unit)
    ctx.check(not offenders, R, '%s|no-failure-inside-try' % label, offenders[0] if offenders else blk,
              'try block contains only the callback invocation',
              'a failure is raised inside the try block (%s): a handler for ExcT / std::exception can catch expectation_failed and the helper then passes silently (expect_raises(std::logic_error, []{}) succeeds)' % (src_text(offenders[0]) if offenders else ''))
    rets = [x for x in walk(blk) if x.get('kind') == 'ReturnStmt']
    ctx.check(not rets, R, '%s|no-return-inside-try' % label, rets[0] if rets else blk,
              'try block cannot return', 'the try block returns: a callback that returns normally passes silently')

    # (c) handler for ExcT is the first that can see it and returns without failing
    targs = [c['type']['qualType'] for c in kids(f) if c.get('kind') == 'TemplateArgument']
    exct = targs[0] if targs else None
    ctx.require(exct is not None, 'expect_raises_fn (%s): no template argument' % label)
    htypes = [_handler_type(h) for h in handlers]
    norm = lambda t: t.replace('std::', '').replace('phosg::', '').replace('class ', '').strip()
    idx = next((i for i, t in enumerate(htypes) if norm(t) == norm(exct)), None)
    ctx.check(idx is not None, R, '%s|handler-for-ExcT' % label, trystmt, 'handlers: %s' % htypes, 'no handler catches ExcT=%s (handlers: %s)' % (exct, htypes))
    if idx is not None:
        h = handlers[idx]
        hb = _handler_body(h)
        fails = _may_raise_failure(hb, unit)
        ctx.check(not fails, R, '%s|ExcT-handler-succeeds' % label, h, 'handler for %s returns without raising' % exct,
                  'the handler for the expected type raises (%s)' % (src_text(fails[0]) if fails else ''))
        # on completion of the ExcT handler the function must not reach the post-try failure
        ctx.check(not falls_through(hb) or not _seq_reaches_failure(_after(trystmt), unit, {}), R, '%s|ExcT-handler-does-not-reach-failure' % label, h,
                  'handler for %s leaves the function' % exct, 'the handler for the expected type falls through to the failure after the try statement')
        earlier = [(handlers[i], htypes[i]) for i in range(idx)]
        bad = [(hh, t) for hh, t in earlier if _may_raise_failure(_handler_body(hh), unit) or falls_through(_handler_body(hh))]
        ctx.check(not bad, R, '%s|ExcT-handler-first' % label, bad[0][0] if bad else h,
                  'no earlier handler intercepts an exception of the expected type',
                  'handler for %s precedes the handler for ExcT=%s and does not succeed: an exception that is both is reported as a failure / propagates' % (bad[0][1] if bad else '', exct))
    # (d) every other handler reaches a failure; a catch-all exists
    consts = {}
    for i, h in enumerate(handlers):
        if i == idx:
            continue
        if idx is not None and i < idx:
            continue
        t = htypes[i]
        ctx.check(_ends_in_failure(_handler_body(h), unit), R, '%s|wrong-type-handler-fails|%s' % (label, norm(t)), h,
                  'handler for %s always raises expectation_failed' % t,
                  'handler for %s can complete or return without raising expectation_failed: a wrong exception type passes' % t)
        # a rethrow inside the handler lets the ORIGINAL (wrong) exception leave the helper unless a
        # nested try with a catch-all contains it
        esc = []
        hb_ = _handler_body(h)
        for t_ in walk(hb_):
            if t_.get('kind') == 'CXXThrowExpr' and not [c for c in kids(t_) if c.get('kind')]:
                contained = False
                for a_ in ancestors(t_):
                    if a_ is hb_:
                        break
                    if a_.get('kind') == 'CXXTryStmt' and any(t_ is y for y in walk(kids(a_)[0])) and '...' in [_handler_type(hh) for hh in kids(a_)[1:]]:
                        contained = True
                if not contained:
                    esc.append(t_)
        ctx.check(not esc, R, '%s|wrong-type-handler-contains-rethrow|%s' % (label, norm(t)), esc[0] if esc else h, 'no rethrow leaves the handler',
                  'the handler for %s rethrows the caught object and no enclosing catch-all inside the handler stops it: a thrown object of any other type escapes the helper instead of failing the expectation' % t)
    if norm(exct) != '...':
        ctx.check('...' in htypes, R, '%s|catch-all-present' % label, trystmt, 'catch (...) present',
                  'no catch (...) handler: a thrown object that is not a std::exception escapes instead of failing the expectation')
    # (e) after the try statement the no-exception path raises a failure
    consts = _handler_flags(f, trystmt)
    after = _after(trystmt)
    ctx.check(_seq_reaches_failure(after, unit, consts), R, '%s|no-exception-path-fails' % label, after[0] if after else trystmt,
              'statements after the try raise the failure unconditionally on the no-exception path',
              'when the callback returns normally the helper does not raise expectation_failed')
    # failures carry the caller's file and line
    for x in walk(body):
        if x.get('kind') == 'CallExpr' and _is_expect_generic(x, unit):
            a = call_args(x)
            okf = len(a) >= 4 and (ref_decl(a[2]) or {}).get('name') == 'file' and (ref_decl(a[3]) or {}).get('name') == 'line' \
                and (ref_decl(a[2]) or {}).get('kind') == 'ParmVarDecl'
            ctx.check(okf, R, '%s|site-args|%s' % (label, canon(a[1]) if len(a) > 1 else '?'), x, 'failure carries the file/line parameters',
                      'failure does not carry the caller-supplied file/line: %s' % src_text(x))


def _after(stmt):
    p = stmt.get('_p')
    out = []
    c = stmt
    while p is not None and p.get('kind') == 'CompoundStmt':
        sibs = list(kids(p))
        i = next(j for j, s in enumerate(sibs) if s is c)
        out.extend(sibs[i + 1:])
        c = p
        p = p.get('_p')
        if p is None or p.get('kind') != 'CompoundStmt':
            break
    return out


def run(ctx):
    ctx.rule('C19-R1', 'each expect_* macro expands to expect_generic(<(a) OP (b)>, msg, __FILE__, __LINE__) with its own operator and the use site\'s file/line', 9)
    ctx.rule('C19-R2', 'expect_generic returns iff pred, else throws expectation_failed(msg, file, line); constructor stores each argument in the like-named member', 6)
    ctx.rule('C19-R5', 'expect_raises_fn by evaluation (E-TABLE): each instantiation folded on callback models (normal return; throws of 10 dynamic types) passes iff the thrown type is ExcT or derives from it, fails with expectation_failed otherwise, and invokes the callback once', 7)
    ctx.rule('C19-R3', 'expect_raises_fn: no failure raised inside the try; ExcT handler first and succeeding; other handlers and the no-exception path always fail', 50)
    w = ctx.unit(witness_unit('c19.cc'))
    u = ctx.unit(repo_unit('UnitTest.cc'))

    # ---- R1 macro table
    with ctx.section('C19-R1', 'C19'):
        R = 'C19-R1'
        for name, op in list(MACROS.items()) + [('m_expect', None), ('m_msg', None)]:
            fs = w.func('phosg_witness_c19::' + name)
            f = fs[0]
            calls = [c for c in walk(body_of(f)) if c.get('kind') == 'CallExpr']
            calls = [c for c in calls if _is_expect_generic(c, w)]
            if len(calls) != 1:
                ctx.bad(R, name, f, 'macro does not expand to exactly one call of phosg::expect_generic (found %d)' % len(calls))
                continue
            c = calls[0]
            a = call_args(c)
            pred = strip(a[0])
            if op is not None:
                good = pred.get('kind') == 'BinaryOperator' and (
                    (pred.get('opcode') == op and canon(pred['inner'][0]) == '(1 | a)' and canon(pred['inner'][1]) == '(2 | b)') or
                    # the mirrored spelling (b) FLIP(op) (a) is the same relation
                    (pred.get('opcode') == FLIP[op] and canon(pred['inner'][0]) == '(2 | b)' and canon(pred['inner'][1]) == '(1 | a)'))
                ctx.check(good, R, name + '|operator', c, 'predicate is (a | 1) %s (b | 2)' % op,
                          'macro predicate is `%s`, expected the relation `(a | 1) %s (b | 2)` applied to the parenthesised operands' % (canon(pred), op))
            else:
                # expect / expect_msg: predicate is the parenthesised argument converted to bool
                inner = pred
                if inner.get('kind') == 'ImplicitCastExpr' and inner.get('castKind') == 'IntegralToBoolean':
                    inner = strip(inner['inner'][0])
                ctx.check(canon(a[0]).endswith('(1 | a)') and 'IntegralToBoolean' in [x.get('castKind') for x in walk(a[0])], R, name + '|predicate', c,
                          'predicate is the macro argument itself', 'macro predicate is `%s`, expected the argument `(a | 1)`' % canon(a[0]))
            if name == 'm_msg':
                rd = ref_decl(a[1]) or {}
                ctx.check(rd.get('name') == 'm', R, name + '|message', c, 'message argument forwarded', 'message argument not forwarded: %s' % canon(a[1]))
            else:
                ctx.check(strip(a[1]).get('kind') == 'StringLiteral', R, name + '|message', c, 'message literal built from the operands', 'message is not a literal: %s' % canon(a[1]))
            fl = strip(a[2])
            ln = int_value(a[3])
            want_file = w.path
            got_file = fl.get('value', '').strip('"') if fl.get('kind') == 'StringLiteral' else None
            ctx.check(got_file == want_file and ln == c.get('_line'), R, name + '|file-line', c, '__FILE__/__LINE__ of the use site (%s:%s)' % (got_file, ln),
                      'file/line arguments are %s:%s, the use site is %s:%s' % (got_file, ln, want_file, c.get('_line')))
        # expect_raises macro
        f = w.func('phosg_witness_c19::m_raises')[0]
        calls = [c for c in walk(body_of(f)) if c.get('kind') == 'CallExpr' and (callee_decl(c, w) or {}).get('name') == 'expect_raises_fn']
        if len(calls) != 1:
            ctx.bad(R, 'm_raises', f, 'expect_raises does not expand to one call of expect_raises_fn')
        else:
            c = calls[0]
            a = call_args(c)
            fl = strip(a[0])
            got_file = fl.get('value', '').strip('"') if fl.get('kind') == 'StringLiteral' else None
            d = callee_decl(c, w)
            targs = [x['type']['qualType'] for x in kids(d) if x.get('kind') == 'TemplateArgument']
            ctx.check(got_file == w.path and int_value(a[1]) == c.get('_line') and targs == ['std::runtime_error'], R, 'm_raises|instantiation-file-line', c,
                      'expect_raises(T, fn) -> expect_raises_fn<T>(__FILE__, __LINE__, fn)', 'expect_raises expands to %s with template args %s' % (src_text(c), targs))

    # ---- R2 expect_generic and the exception constructor
    with ctx.section('C19-R2', 'C19'):
        R = 'C19-R2'
        g = u.func('phosg::expect_generic')[0]
        ctx.fn('phosg::expect_generic')
        check_no_goto(g)
        ps = params_of(g)
        ctx.require(len(ps) == 4 and dtype(ps[0]) == 'bool', 'expect_generic signature changed')
        pred_id = ps[0]['id']
        body = body_of(g)

        def pred_value(facts):
            """value of pred implied by facts (True/False/None)"""
            val = None
            for n, pol in atoms(facts):
                rd = ref_decl(n)
                if rd and rd.get('id') == pred_id:
                    val = pol
            return val
        throws = [x for x in walk(body) if x.get('kind') == 'CXXThrowExpr']
        # a call of a helper that never returns and forwards (msg, file, line) to the exception is a throw site
        fwd_map = {}
        for c_ in walk(body):
            if c_.get('kind') == 'CallExpr' and not falls_through(c_):
                d_ = callee_decl(c_, u)
                hb_ = body_of(d_) if d_ is not None else None
                if hb_ is None and d_ is not None:
                    d_ = next((m_ for m_ in u.functions if m_.get('mangledName') == d_.get('mangledName') and body_of(m_) is not None), None)
                    hb_ = body_of(d_) if d_ is not None else None
                if hb_ is not None:
                    ht_ = [x for x in walk(hb_) if x.get('kind') == 'CXXThrowExpr']
                    if len(ht_) == 1:
                        throws.append(c_)
                        fwd_map[id(c_)] = (ht_[0], d_)
        rets = [x for x in walk(body) if x.get('kind') == 'ReturnStmt']
        ctx.check(len(throws) >= 1, R, 'throws-exist', body, '%d throw site(s)' % len(throws), 'expect_generic never throws')
        for i, t in enumerate(throws):
            pv = pred_value(path_facts(t))
            ctx.check(pv is False, R, 'throw-only-when-pred-false|%d' % i, t, 'throw reached only under !pred', 'throw reachable when pred is %s' % ('true' if pv else 'unconstrained'))
            t_call = t
            if id(t) in fwd_map:
                t, hd_ = fwd_map[id(t)]
            ty = _thrown_type(t) or ''
            ctx.check(ty.endswith('expectation_failed'), R, 'throw-type|%d' % i, t, 'throws expectation_failed', 'throws %s' % ty)
            ce = [x for x in walk(t) if x.get('kind') in ('CXXConstructExpr', 'CXXTemporaryObjectExpr') and (dtype(x) or '').endswith('expectation_failed') and len(kids(x)) == 3]
            if ce:
                names = [(ref_decl(a) or {}).get('name') for a in kids(ce[0])]
                ids_ = [(ref_decl(a) or {}).get('id') for a in kids(ce[0])]
                if id(t_call) in fwd_map:
                    # through the helper: its parameters, in order, bound to the caller's (msg, file, line)
                    pi_ = [p_.get('id') for p_ in params_of(hd_)]
                    ai_ = [(ref_decl(a) or {}).get('id') for a in call_args(t_call)]
                    ids_ = [ai_[pi_.index(n_)] if n_ in pi_ and pi_.index(n_) < len(ai_) else None for n_ in ids_]
                    an_ = [(ref_decl(a) or {}).get('name') for a in call_args(t_call)]
                    names = [an_[pi_.index(n_)] if n_ in pi_ and pi_.index(n_) < len(an_) else None for n_ in [(ref_decl(a) or {}).get('id') for a in kids(ce[0])]]
                # by position: the 2nd, 3rd and 4th parameter of expect_generic, whatever they are called
                ctx.check(ids_ == [ps[1]['id'], ps[2]['id'], ps[3]['id']], R, 'throw-args|%d' % i, t, 'expectation_failed(msg, file, line)', 'exception constructed from %s, expected the parameters %s in this order' % (names, [p_.get('name') for p_ in ps[1:4]]))
            else:
                ctx.bad(R, 'throw-args|%d' % i, t, 'cannot find the expectation_failed(msg, file, line) construction')
        for i, r in enumerate(rets):
            pv = pred_value(path_facts(r))
            ctx.check(pv is True, R, 'return-only-when-pred-true|%d' % i, r, 'return reached only under pred', 'returns normally although pred may be false')
        if falls_through(body):
            pv = pred_value(facts_at_end(body))
            ctx.check(pv is True, R, 'end-only-when-pred-true', body, 'end of body reached only under pred', 'function completes normally although pred may be false')
        else:
            ctx.ok(R, 'end-unreachable', body, 'body never falls off its end')
        # nothing else can throw before the decision (no calls at all outside the throw expression)
        ctor = u.func('phosg::expectation_failed::expectation_failed')[0]
        ctx.fn('phosg::expectation_failed::expectation_failed')
        inits = [c for c in kids(ctor) if c.get('kind') == 'CXXCtorInitializer' and 'anyInit' in c]
        seen = {}
        for c in inits:
            seen[c['anyInit']['name']] = (ref_decl(c['inner'][0]) or {}).get('name') if c.get('inner') else None
        for m in ('msg', 'file', 'line'):
            ctx.check(seen.get(m) == m, R, 'ctor-member|' + m, ctor, 'member %s initialised from parameter %s' % (m, m), 'member %s initialised from %s' % (m, seen.get(m)))

    # ---- R5 expect_raises_fn by evaluation (E-TABLE): the helper folded on callback models that return
    # normally or throw an exception of a given dynamic type
    insts = w.func('phosg::expect_raises_fn')
    ctx.require(len(insts) >= 6, 'fewer expect_raises_fn instantiations than the witness requests')
    R5_DECIDED = set()
    spec_ = [f for f in u.func('phosg::expect_raises_fn') if [c['type']['qualType'] for c in kids(f) if c.get('kind') == 'TemplateArgument'] == ['std::exception']]
    with ctx.section('C19-R5', 'C19'):
        from peval import PEval, Lit, Thrower, Thrown, Undecided, Fault
        from exc import Exc
        PE = PEval([w, u])
        EX = Exc([w, u])
        models = (None, 'std::exception', 'std::runtime_error', 'std::logic_error', 'std::out_of_range', 'std::invalid_argument', 'std::range_error', 'std::bad_alloc', 'phosg::expectation_failed', 'int', 'const char *')
        for f in [f_ for f_ in insts if body_of(f_) is not None] + spec_:
            exct = [c['type']['qualType'] for c in kids(f) if c.get('kind') == 'TemplateArgument'][0]
            label = 'expect_raises_fn<%s>' % exct
            bad_, und_ = None, None
            for et in models:
                th = Thrower(et)
                try:
                    PE.call_with(f, [Lit(b'caller.cc\0'), 4242, th])
                    out = 'returns normally'
                except Thrown as e_:
                    if str(e_).startswith('the callback model'):
                        out = 'lets the callback\'s %s escape' % et
                    elif (e_.etype or '').endswith('expectation_failed'):
                        out = 'fails'
                    else:
                        out = 'throws %s' % e_.etype
                except Fault as e_:
                    out = 'faults (%s)' % e_
                except Undecided as e_:
                    und_ = str(e_)
                    break
                is_cls = lambda t_: t_ is not None and (t_.startswith('std::') or t_.startswith('phosg::'))
                expected = et is not None and (et == exct or (is_cls(et) and is_cls(exct) and EX.derives(et, exct)))
                want = 'returns normally' if expected else 'fails'
                if out != want:
                    bad_ = bad_ or 'when the callback %s, %s %s; it must %s' % ('returns normally' if et is None else 'throws %s' % et, label, out, 'return normally (the expected exception was raised)' if expected else 'raise expectation_failed')
                elif th.calls != 1:
                    bad_ = bad_ or 'the callback is invoked %d times' % th.calls
            if und_:
                ctx.undecided('C19-R5', label + '|outcomes', f, 'the helper could not be folded (%s)' % und_)
            elif bad_:
                ctx.bad('C19-R5', label + '|outcomes', f, bad_)
            else:
                ctx.ok('C19-R5', label + '|outcomes', f, 'passes iff the callback throws %s or a type derived from it: %d callback models (normal return, 8 std types, expectation_failed itself, int, const char*), callback invoked once' % (exct, len(models)))
                R5_DECIDED.add(label)
    ctx.defer({'C19-R3'}, 'C19-R5', only=lambda k_: k_.split('|')[0] in R5_DECIDED and '|site-args|' not in k_)
    # ---- R3 expect_raises_fn
    for f in insts:
        targs = [c['type']['qualType'] for c in kids(f) if c.get('kind') == 'TemplateArgument']
        if body_of(f) is None:
            continue
        check_no_goto(f)
        with ctx.section('C19-R3', f):
            check_raises_fn(ctx, w, f, 'expect_raises_fn<%s>' % targs[0])
    spec = [f for f in u.func('phosg::expect_raises_fn') if [c['type']['qualType'] for c in kids(f) if c.get('kind') == 'TemplateArgument'] == ['std::exception']]
    ctx.require(len(spec) == 1, 'std::exception specialisation of expect_raises_fn not found in UnitTest.cc')
    check_no_goto(spec[0])
    with ctx.section('C19-R3', spec[0]):
        check_raises_fn(ctx, u, spec[0], 'expect_raises_fn<std::exception>')
    ctx.note('Instantiations analysed: primary template for 6 exception types (witness/c19.cc) and the std::exception specialisation.')
