"""C15 - subprocess I/O (decided part: the structural conditions without which
completeness or deadlock-freedom fails for some schedule: deadline sentinel
consistency, bounded or non-blocking transfers inside the poll loops, descriptors
retired only on end-of-stream evidence, post-exit drain, descriptor release on the
normal exit, reaping and status discipline).  Behaviour under real timings is not decided."""
from ast_ import *
from path import *

PIPE_BUF = 4096


def facts_rel(site, **kw):
    return [(nf(r[0]), r[1], nf(r[2])) for r in [relation(n_, p_) for n_, p_ in atoms(path_facts(site, **kw))] if r]


def truthy_facts(site):
    return {nf(n_) for n_, pol in atoms(path_facts(site)) if pol and relation(n_, pol) is None}


def run(ctx):
    ctx.rule('C15-R1', 'deadline sentinel: deadline_usecs == 0 means "none"; every comparison or subtraction involving the deadline is evaluated only when it is non-zero', 3)
    ctx.rule('C15-R2', 'no unbounded blocking transfer in a poll loop: a write to a pipe is on a descriptor made non-blocking beforehand, or is at most PIPE_BUF bytes and issued only after POLLOUT was reported for it', 2)
    ctx.rule('C15-R3', 'a descriptor is retired inside the poll loop only on end-of-stream evidence from the transfer itself (zero-byte read, failed or completed write), and after the child is reaped every output descriptor still open is read until it is empty', 8)
    ctx.rule('C15-R4', 'descriptor release: the parent closes exactly the child-side pipe ends after fork; run_process closes every descriptor still registered before it returns; stdin is closed at once when there is no payload', 8)
    ctx.rule('C15-R5', 'reaping and status: the destructor waits, kills and waits again; wait() caches the status; check=true throws iff the raw wait status is non-zero; timeouts signal the child', 6)
    u = ctx.unit(repo_unit('Process.cc'))
    comm = [f for f in u.func('phosg::Subprocess::communicate') if len(params_of(f)) == 3][0]
    runp = u.func('phosg::run_process')[0]
    ctor = [f for f in u.func('phosg::Subprocess::Subprocess') if len(params_of(f)) == 6][0]
    dtor = u.func('phosg::Subprocess::~Subprocess')[0]
    wait = u.func('phosg::Subprocess::wait')[0]
    for f in (comm, runp, ctor, dtor, wait):
        check_no_goto(f)
        ctx.fn(u.qualname(f))
    cb, rb = body_of(comm), body_of(runp)

    # ---------------- R1
    with ctx.section('C15-R1', 'C15'):
        R = 'C15-R1'
        dl = next((v for v in walk(cb) if v.get('kind') == 'VarDecl' and 'deadline' in (v.get('name') or '')), None)
        ctx.require(dl is not None, 'communicate: deadline variable not found')
        init = strip(kids(dl)[-1])
        ok0 = init.get('kind') == 'ConditionalOperator' and int_value(init['inner'][2]) == 0 and nf(init['inner'][0]) == 'timeout_usecs'
        ctx.check(ok0, R, 'sentinel-defined', dl, 'no timeout -> deadline 0', 'the "no deadline" sentinel is no longer 0 when timeout_usecs is 0')
        uses = []
        for x in walk(cb):
            if x.get('kind') == 'BinaryOperator' and x.get('opcode') in ('<', '>', '<=', '>=', '-') and any((ref_decl(y) or {}).get('id') == dl['id'] for y in x['inner']):
                uses.append(x)
        ctx.require(len(uses) >= 2, 'communicate: deadline comparisons not found')
        for i, x in enumerate(uses):
            tf = truthy_facts(x)
            ctx.check(dl['name'] in tf, R, 'deadline-use#%d|%s' % (i, nf(x)[:40]), x, 'evaluated only with a non-zero deadline',
                      '`%s` is evaluated even when no deadline was requested (deadline 0): now() < 0 is false, so a call without a timeout is treated as already timed out' % nf(x))

    # ---------------- R2
    with ctx.section('C15-R2', 'C15'):
        R = 'C15-R2'

        def poll_loops(body):
            return [lp for lp in walk(body) if lp.get('kind') == 'WhileStmt' and any(c.get('kind') == 'CXXMemberCallExpr' and call_name(c) == 'poll' for c in walk(lp))]
        for f, lab in ((comm, 'communicate'), (runp, 'run_process')):
            body = body_of(f)
            lps = poll_loops(body)
            ctx.require(len(lps) == 1, '%s: poll loop not found' % lab)
            lp = lps[0]
            writes = [c for c in walk(lp) if c.get('kind') == 'CallExpr' and call_name(c) in ('write', 'writex', 'send')]
            ctx.require(len(writes) >= 1, '%s: pipe write not found in the poll loop' % lab)
            nb = {nf(call_args(c)[0]) for s in preceding_statements(lp) for c in walk(s) if c.get('kind') == 'CallExpr' and call_name(c) == 'make_fd_nonblocking'}
            for i, w in enumerate(writes):
                from guard import subst_locals as _sl
                fd = _sl(nf(call_args(w)[0]), w)
                size = call_args(w)[2]
                # the descriptor as registered: run_process writes to pfd.first taken from the poll result of descriptors all made non-blocking
                nonblocking = fd in nb or (fd == 'pfd.first' and {'sp.stdin_fd()', 'sp.stdout_fd()', 'sp.stderr_fd()'} <= nb)
                bounded = False
                bound_txt = nf(size)
                rd = ref_decl(size)
                vd = next((v for v in walk(lp) if v.get('kind') == 'VarDecl' and rd and v.get('id') == rd.get('id') and kids(v)), None)
                e = strip(kids(vd)[-1]) if vd is not None else strip(size)
                if e.get('kind') == 'CallExpr' and call_name(e) == 'min':
                    consts = [int_value(a) for a in call_args(e) if int_value(a) is not None]
                    bounded = bool(consts) and min(consts) <= PIPE_BUF
                    bound_txt = 'min(..., %s)' % consts
                reported = any('count' in s_ and fd in s_ for s_ in truthy_facts(w)) or any('POLLOUT' in s_ or '& 4' in s_ or '(4 & ' in s_ for s_ in truthy_facts(w))
                ctx.check(nonblocking or (bounded and reported), R, '%s|write#%d' % (lab, i), w, 'non-blocking descriptor' if nonblocking else 'at most PIPE_BUF bytes after POLLOUT',
                          'write of %s bytes to the blocking descriptor %s inside the poll loop: poll only guarantees PIPE_BUF (%d) bytes of room, so the parent can block in write() while the child blocks writing its output - a deadlock no deadline can break' % (bound_txt, fd, PIPE_BUF))

    # ---------------- R3
    with ctx.section('C15-R3', 'C15'):
        R = 'C15-R3'
        EVID = ('bytes_read', 'bytes_written', 'offset', 'empty()', 'should_close')
        for f, lab in ((comm, 'communicate'), (runp, 'run_process')):
            lp = poll_loops(body_of(f))[0]
            retire = [c for c in walk(lp) if (c.get('kind') == 'CXXMemberCallExpr' and call_name(c) == 'remove' and canon(member_call_object(c)) == 'p') or (c.get('kind') == 'CallExpr' and call_name(c) == 'close')]
            ctx.require(len(retire) >= 2, '%s: descriptor retirement sites not found' % lab)
            for i, c in enumerate(retire):
                fr = facts_rel(c)
                tf = truthy_facts(c)
                ev = [r for r in fr if any(k in r[0] or k in r[2] for k in EVID)] + [t for t in tf if any(k in t for k in EVID)]
                # the evidence must be a zero/negative count, a completed payload, or an empty read; not merely a poll flag
                good = any((('bytes_read' in a and op in ('==', '<=') and b == '0') or ('bytes_written' in a and ((op in ('==', '<=', '<') and b == '0'))) or
                            (op == '==' and 'offset' in a + b and 'size' in a + b)) for a, op, b in fr) or any('empty()' in t or 'should_close' in t for t in tf)
                # `!(bytes_read > 0) && !(bytes_read < 0)` is how an else-else branch shows zero
                z = [r for r in fr if r[0] in ('bytes_read', 'bytes_written')]
                if not good and any(op == '<=' and b == '0' for a, op, b in z) and any(op == '>=' and b == '0' for a, op, b in z):
                    good = True
                if not good:
                    # a guard written as one disjunction `(bytes_written <= 0) || (offset == size)`: every
                    # disjunct must be transfer evidence
                    for n_, pol_ in atoms(path_facts(c)):
                        n0 = strip(n_)
                        if pol_ and n0.get('kind') == 'BinaryOperator' and n0.get('opcode') == '||':
                            dis, st_ = [], [n0]
                            while st_:
                                y = strip(st_.pop())
                                if y.get('kind') == 'BinaryOperator' and y.get('opcode') == '||':
                                    st_.extend(y['inner'])
                                else:
                                    dis.append(y)
                            def _evid(y):
                                r_ = relation(y, True)
                                if not r_:
                                    return any(k in nf(y) for k in ('empty()', 'should_close'))
                                a_, o_, b_ = nf(r_[0]), r_[1], nf(r_[2])
                                return (('bytes_read' in a_ or 'bytes_written' in a_) and o_ in ('==', '<=', '<') and b_ == '0') or (o_ == '==' and 'offset' in a_ + b_ and 'size' in a_ + b_)
                            if dis and all(_evid(y) for y in dis):
                                good = True
                if not good:
                    # the evidence is the result of a local lambda / helper (`!read_block()`): inside it, out of this rule's reach
                    lam_calls = [n_ for n_, pol_ in atoms(path_facts(c)) for y in walk(n_) if (y.get('kind') == 'CXXOperatorCallExpr' and call_name(y) == 'operator()') or
                                 (y.get('kind') == 'CallExpr' and callee_decl(y, u) is not None and body_of(callee_decl(y, u)) is not None and call_name(y) not in ('now',))]
                    if lam_calls:
                        ctx.undecided(R, '%s|retire#%d' % (lab, i), c, 'the descriptor is retired on the result of a local lambda / helper call (%s): the end-of-stream evidence is inside it' % src_text(lam_calls[0], 50))
                        continue
                if not good and not ev:
                    # the guard does not mention a transfer count at all; if it tests the classified result of a repo helper, this rule cannot see the evidence
                    hv = [v for v in walk(lp) if v.get('kind') == 'VarDecl' and kids(v) and any(y.get('kind') == 'CallExpr' and callee_decl(y, u) is not None and body_of(callee_decl(y, u)) is not None for y in walk(v))]
                    if any(v.get('name') and any(v['name'] in (r_[0] + r_[2]) for r_ in fr) for v in hv):
                        ctx.undecided(R, '%s|retire#%d' % (lab, i), c, 'the descriptor is retired on the classified result of a helper call (%s): the end-of-stream evidence is inside the helper' % [v.get('name') for v in hv][:2])
                        continue
                ctx.check(good, R, '%s|retire#%d' % (lab, i), c, 'retired on transfer evidence %s' % (ev[:2],),
                          'a descriptor is closed/removed inside the poll loop without end-of-stream evidence from the transfer (guard: %s): data still in the pipe (e.g. more than one block pending when POLLHUP is reported) is lost' % (sorted(tf)[:3] + fr[:3]))
            # flag definitions: should_close_stdin = (offset == size) or true on failed write
            if lab == 'communicate':
                sc = next((v for v in walk(lp) if v.get('kind') == 'VarDecl' and 'should_close' in (v.get('name') or '')), None)
                if sc is not None:
                    asg = [x for x in walk(lp) if x.get('kind') == 'BinaryOperator' and x.get('opcode') == '=' and (ref_decl(x['inner'][0]) or {}).get('id') == sc['id']]
                    vals = [nf(a['inner'][1]) for a in asg]
                    oks = int_value(kids(sc)[-1]) in (0, 1) and all(v_ in ('1', '(stdin_offset == stdin_size)', '(stdin_size == stdin_offset)') for v_ in vals) and any('stdin_offset' in v_ for v_ in vals) and (int_value(kids(sc)[-1]) == 1 or '1' in vals)
                    ctx.check(oks, R, 'communicate|stdin-close-flag', sc, 'stdin is closed when the write failed or the payload is complete', 'stdin close flag is set from %s' % [nf(a['inner'][1]) for a in asg])
        # drain after the loop
        lp = poll_loops(rb)[0]
        after = [s for s in stmts_of(rb) if s.get('_off', 0) > lp.get('_off', 0)]
        drain = [s for s in after if s.get('kind') == 'CXXForRangeStmt' and any(c.get('kind') == 'CallExpr' and call_name(c) == 'read' for c in walk(s))]
        drain_other_form = False
        okd = len(drain) == 1 and any(canon(x) == 'read_fd_to_buffer' for x in walk(drain[0]) if x.get('kind') == 'DeclRefExpr')
        if okd:
            inner = [x for x in walk(drain[0]) if x.get('kind') == 'ForStmt' and for_parts(x)[2] is None]
            okd = len(inner) == 1
            if okd:
                brk = [b for b in walk(inner[0]) if b.get('kind') == 'BreakStmt']
                for b in brk:
                    fr = facts_rel(b)
                    z = [r for r in fr if r[0] == 'bytes_read']
                    eof = any(op == '<=' and v == '0' for a, op, v in z) and any(op == '>=' and v == '0' for a, op, v in z)
                    again = any(op == '<' and v == '0' for a, op, v in z) and any('EAGAIN' in t or 'errno' in t for t in [nf(n_) for n_, p_ in atoms(path_facts(b)) if p_])
                    okd = okd and (eof or again)
                okd = okd and len(brk) >= 2
                # same loop, exits written differently (merged arms, `continue` after a successful read): every exit is
                # still taken only when nothing was read -> not a recognised-wrong construct, the exact form is undecided
                if not okd and brk and all(any(a == 'bytes_read' and op in ('<=', '<', '==') and v == '0' for a, op, v in facts_rel(b)) for b in brk) \
                        and not any(x.get('kind') in ('ReturnStmt', 'GotoStmt') for x in walk(inner[0])):
                    drain_other_form = True
        if not okd and drain_other_form:
            ctx.undecided(R, 'run_process|post-exit-drain', drain[0], 'the post-exit drain loop leaves only on paths where the read returned nothing (bytes_read <= 0), but its exits are not written as the two arms (0 / EAGAIN) this rule models')
        elif not drain and any(c.get('kind') == 'CallExpr' and call_name(c) == 'read' for s_ in after for c in walk_deep(s_, u)):
            ctx.undecided(R, 'run_process|post-exit-drain', runp, 'the post-exit drain reads through a helper function: its loop shape is not the one this rule models')
        else:
          ctx.check(okd, R, 'run_process|post-exit-drain', drain[0] if drain else runp, 'after the child is reaped every registered output descriptor is read until 0 / EAGAIN', 'run_process has no complete post-exit drain of its output descriptors: output written just before exit is lost')
        lpc = poll_loops(cb)[0]
        afterc = [s for s in stmts_of(cb) if s.get('_off', 0) > lpc.get('_off', 0)]
        dr = [s for s in afterc if s.get('kind') == 'IfStmt' and any(x.get('kind') == 'ForStmt' and for_parts(x)[2] is None and any(c.get('kind') == 'CallExpr' and call_name(c) == 'read' for c in walk(x)) for x in walk(s))]
        okc = len(dr) == 1
        if okc:
            c_ = nf(if_parts(dr[0])[0])
            okc = 'this.stdout_read_fd' in c_ and 'this.wait(1)' in c_
            brk = [b for b in walk(dr[0]) if b.get('kind') == 'BreakStmt']
            okc = okc and len(brk) == 1 and any('empty()' in t for t in truthy_facts(brk[0]))
            rets = [r for r in walk(cb) if r.get('kind') == 'ReturnStmt' and enclosing(r, ('LambdaExpr',)) is None]
            okc = okc and all(r['_off'] > dr[0]['_off'] for r in rets)
        if not dr and any(s_.get('kind') == 'IfStmt' and 'this.stdout_read_fd' in nf(if_parts(s_)[0]) and any(x.get('kind') in LOOPS and any(y.get('kind') == 'CXXOperatorCallExpr' and call_name(y) == 'operator()' for y in walk(x)) for x in walk(s_)) for s_ in afterc):
            ctx.undecided(R, 'communicate|post-exit-drain', comm, 'the post-exit drain reads through a local lambda: its loop shape is not the one this rule models')
        else:
          ctx.check(okc, R, 'communicate|post-exit-drain', dr[0] if dr else comm, 'after the child exited, stdout is read until empty before returning', 'communicate has no post-exit drain of stdout: output still in the pipe when the child exits is lost')

    # ---------------- R4
    with ctx.section('C15-R4', 'C15'):
        R = 'C15-R4'
        cbd = body_of(ctor)
        pc = next((v for v in walk(cbd) if v.get('kind') == 'VarDecl' and 'parent_fds_to_close' == v.get('name')), None)
        ctx.require(pc is not None, 'Subprocess ctor: parent_fds_to_close not found')
        want = {'stdin_fd': ('first', 'this.stdin_write_fd', 'second'), 'stdout_fd': ('second', 'this.stdout_read_fd', 'first'), 'stderr_fd': ('second', 'this.stderr_read_fd', 'first')}
        for prm, (child_end, member, parent_end) in want.items():
            blk = next((x for x in walk(cbd) if x.get('kind') == 'IfStmt' and nf(if_parts(x)[0]) in ('(%s == -1)' % prm, '(-1 == %s)' % prm)), None)
            ok = blk is not None
            if ok:
                st = [nf(s) for s in stmts_of(if_parts(blk)[1]) if s.get('kind') != 'DeclStmt']
                queued = 'parent_fds_to_close.emplace(%s)' % prm in st or 'parent_fds_to_close.insert(%s)' % prm in st or 'parent_fds_to_close.push_back(%s)' % prm in st or \
                    any(s_.startswith('(parent_fds_to_close[') and s_.endswith('] = %s)' % prm) for s_ in st)
                ok = '(%s = pipefds.%s)' % (prm, child_end) in st and '(%s = pipefds.%s)' % (member, parent_end) in st and queued
            ctx.check(ok, R, 'ctor|%s-ends' % prm, blk or ctor, 'child gets pipefds.%s, parent keeps pipefds.%s, child end queued for closing in the parent' % (child_end, parent_end), 'pipe ends for %s are assigned or queued wrongly: %s' % (prm, st if blk is not None else None))
        closer = [s for s in stmts_of(cbd) if s.get('kind') in ('CXXForRangeStmt', 'WhileStmt', 'ForStmt') and any(canon(x) == 'parent_fds_to_close' for x in walk(s) if x.get('kind') == 'DeclRefExpr')]
        fork = [c for c in walk(cbd) if c.get('kind') == 'CallExpr' and call_name(c) == 'fork']
        okp = len(closer) == 1 and len(fork) == 1 and closer[0]['_off'] > fork[0]['_off'] and any(c.get('kind') == 'CallExpr' and call_name(c) == 'close' for c in walk(closer[0]))
        ctx.check(okp, R, 'ctor|parent-closes-child-ends', closer[0] if closer else ctor, 'after fork the parent closes the child-side ends', 'the parent does not close the child-side pipe ends after fork (the child never sees EOF / the parent never sees the pipe close)')
        child = next((x for x in walk(cbd) if x.get('kind') == 'IfStmt' and nf(if_parts(x)[0]) in ('(this.child_pid == 0)', '(0 == this.child_pid)')), None)
        okch = child is not None and not falls_through(if_parts(child)[1]) or (child is not None and any(c.get('kind') == 'CallExpr' and call_name(c) == '_exit' for c in walk(if_parts(child)[1])))
        cc = sorted(nf(call_args(c)[0]) for c in walk(if_parts(child)[1]) if c.get('kind') == 'CallExpr' and call_name(c) == 'close') if child is not None else []
        if child is not None and not okch:
            # the branch may end in a [[noreturn]] helper that execs
            last_ = [strip(s_) for s_ in stmts_of(if_parts(child)[1])][-1:] if stmts_of(if_parts(child)[1]) else []
            if last_ and last_[0].get('kind') == 'CallExpr':
                d_ = callee_decl(last_[0], u)
                if d_ is not None and body_of(d_) is not None and not falls_through(body_of(d_)) or (d_ is not None and body_of(d_) is not None and any(c.get('kind') == 'CallExpr' and call_name(c) == '_exit' for c in walk(body_of(d_)))):
                    okch = True
        if child is not None and cc != ['this.stderr_read_fd', 'this.stdin_write_fd', 'this.stdout_read_fd']:
            # close(fd) in a loop over {stdin_write_fd, stdout_read_fd, stderr_read_fd}
            for lp_ in [x for x in walk(if_parts(child)[1]) if x.get('kind') == 'CXXForRangeStmt']:
                names_ = sorted({canon(y) for y in walk(lp_) if y.get('kind') == 'MemberExpr' and canon(y).startswith('this.') and canon(y).endswith('_fd')})
                lv_ = next((v for v in kids(lp_) if v.get('kind') == 'DeclStmt' and any(not (w_.get('name') or '').startswith('__') for w_ in kids(v))), None)
                lvn = next((w_.get('name') for w_ in kids(lv_) if not (w_.get('name') or '').startswith('__')), None) if lv_ is not None else None
                if names_ == ['this.stderr_read_fd', 'this.stdin_write_fd', 'this.stdout_read_fd'] and lvn and any(c.get('kind') == 'CallExpr' and call_name(c) == 'close' and nf(call_args(c)[0]) == lvn for c in walk(lp_)):
                    cc = names_
        if child is not None and okch and cc != ['this.stderr_read_fd', 'this.stdin_write_fd', 'this.stdout_read_fd'] and any(x.get('kind') in LOOPS for x in walk(if_parts(child)[1])):
            ctx.undecided(R, 'ctor|child-closes-parent-ends', child, 'the child closes descriptors in a loop this rule does not read (%s)' % cc)
        else:
          ctx.check(okch and cc == ['this.stderr_read_fd', 'this.stdin_write_fd', 'this.stdout_read_fd'], R, 'ctor|child-closes-parent-ends', child or ctor, 'the child closes the parent-side ends and never returns', 'child branch closes %s' % cc)
        # run_process closes what is still registered
        for mp in ('read_fd_to_buffer', 'write_fd_to_buffer'):
            cl = [s for s in after if s.get('kind') == 'CXXForRangeStmt' and any(canon(x) == mp for x in walk(s) if x.get('kind') == 'DeclRefExpr') and any(c.get('kind') == 'CallExpr' and call_name(c) == 'close' and nf(call_args(c)[0]).endswith('.first') for c in walk(s))]
            rets = [r for r in walk(rb) if r.get('kind') == 'ReturnStmt' and enclosing(r, ('LambdaExpr',)) is None]
            thr = [t for t in walk(rb) if t.get('kind') == 'CXXThrowExpr' and t['_off'] > lp['_off'] and enclosing(t, LOOPS) is None and enclosing(t, ('LambdaExpr',)) is None]
            ok = len(cl) == 1 and all(cl[0]['_off'] < r['_off'] for r in rets) and all(cl[0]['_off'] < t['_off'] for t in thr) and (not drain or cl[0]['_off'] > drain[0]['_off'])
            ctx.check(ok, R, 'run_process|closes-%s' % mp, cl[0] if cl else runp, 'every descriptor still in %s is closed before run_process returns or throws its check error' % mp,
                      'descriptors still registered in %s when the child exits are never closed: each run_process call leaks them' % mp)
        nos = [x for x in walk(rb) if x.get('kind') == 'IfStmt' and nf(if_parts(x)[0]) == 'stdin_data' and if_parts(x)[2] is not None]
        okn = len(nos) == 1 and any(c.get('kind') == 'CallExpr' and call_name(c) == 'close' and nf(call_args(c)[0]) == 'sp.stdin_fd()' for c in walk(if_parts(nos[0])[2]))
        ctx.check(okn, R, 'run_process|no-payload-closes-stdin', nos[0] if nos else runp, 'without a payload the child\'s stdin is closed at once', 'stdin is left open when there is no payload (a child reading stdin never sees EOF)')
        cs0 = [x for x in walk(cb) if x.get('kind') == 'IfStmt' and nf(if_parts(x)[0]) in ('(stdin_size == 0)', '(0 == stdin_size)', '!stdin_size')]
        okz = len(cs0) == 1 and any(c.get('kind') == 'CallExpr' and call_name(c) == 'close' and nf(call_args(c)[0]) == 'this.stdin_write_fd' for c in walk(if_parts(cs0[0])[1])) and any(nf(s) == '(this.stdin_write_fd = -1)' for s in stmts_of(if_parts(cs0[0])[1]))
        ctx.check(okz, R, 'communicate|empty-payload-closes-stdin', cs0[0] if cs0 else comm, 'an empty payload closes stdin at once and forgets the descriptor', 'communicate with an empty payload does not close stdin')

    # ---------------- R5
    with ctx.section('C15-R5', 'C15'):
        R = 'C15-R5'
        # the forked child never comes back into the caller's code: the branch taken when fork() returned
        # 0 ends in exec / _exit on every path and contains no throw or return of its own
        for f_ in u.functions:
            if body_of(f_) is None or not strip_targs(u.qualname(f_)).startswith('phosg::'):
                continue
            forks = [c for c in walk(body_of(f_)) if c.get('kind') == 'CallExpr' and call_name(c) in ('fork', 'vfork')]
            for fk in forks:
                asg = fk.get('_p')
                while asg is not None and asg.get('kind') in TRANSPARENT | {'ImplicitCastExpr'}:
                    asg = asg.get('_p')
                holder = None
                if asg is not None and asg.get('kind') == 'BinaryOperator' and asg.get('opcode') == '=':
                    holder = canon(asg['inner'][0])
                elif asg is not None and asg.get('kind') == 'VarDecl':
                    holder = asg.get('name')
                child = None
                for x in walk(body_of(f_)):
                    if x.get('kind') == 'IfStmt' and x.get('_off', 0) > fk.get('_off', 0):
                        cond, then, els = if_parts(x)
                        r_ = relation(cond, True)
                        if r_ and r_[1] == '==' and {canon(r_[0]), canon(r_[2])} == {holder, '0'}:
                            child = then
                        elif r_ is None and holder and nf(cond) == '!%s' % holder:
                            child = then
                if child is None:
                    ctx.undecided(R, '%s|fork-child' % f_.get('name'), fk, 'the branch executed by the forked child (`%s == 0`) was not found' % holder)
                    continue
                esc = [x for x in walk(child) if x.get('kind') in ('CXXThrowExpr', 'ReturnStmt') and enclosing(x, ('LambdaExpr',)) is None]
                ctx.check(not falls_through(child) and not esc, R, '%s|fork-child-never-returns' % f_.get('name'), esc[0] if esc else child, 'the child branch ends in exec / _exit on every path',
                          'the forked child can leave its branch (%s): a second copy of the calling program keeps running with the parent\'s state, and the parent later reports that copy\'s exit status' % (src_text(esc[0], 60) if esc else 'it falls through'))
        db = body_of(dtor)
        di = [x for x in walk(db) if x.get('kind') == 'IfStmt']
        # a kill followed by a blocking wait, both executed exactly when a child exists and a non-blocking
        # wait reported it still running (as nested/early-return guards or one condition)
        kills = [c for c in walk(db) if c.get('kind') == 'CXXMemberCallExpr' and call_name(c) == 'kill' and is_this(member_call_object(c) or {'kind': 'CXXThisExpr'})]
        waits = [c for c in walk(db) if c.get('kind') == 'CXXMemberCallExpr' and call_name(c) == 'wait' and not [a for a in call_args(c) if a.get('kind') != 'CXXDefaultArgExpr']]
        okd = len(kills) == 1 and len(waits) == 1 and kills[0]['_off'] < waits[0]['_off']
        if okd:
            fr = facts_rel(kills[0])
            has_child = any((a == 'this.child_pid' and op == '>=' and b == '0') or (a == 'this.child_pid' and op == '>' and b == '-1') for a, op, b in fr)
            running = any((a == 'this.wait(1)' and op == '==' and b == '-1') or (b == 'this.wait(1)' and op == '==' and a == '-1') for a, op, b in fr)
            ks_, ws_ = containing_statement(kills[0]), containing_statement(waits[0])
            same_guard = ks_ is not None and ws_ is not None and ks_.get('_p') is ws_.get('_p') and ks_.get('_p') is not None and \
                [x for x in kids(ks_['_p'])].index(ws_) == [x for x in kids(ks_['_p'])].index(ks_) + 1
            okd = has_child and running and same_guard
        ctx.check(okd, R, 'destructor|reaps', dtor, 'a still-running child is killed and then waited for', 'the destructor does not kill-then-wait a running child (zombie / orphan)')
        wb = body_of(wait)
        first = stmts_of(wb)[0] if stmts_of(wb) else {}
        okw = first.get('kind') == 'IfStmt' and nf(if_parts(first)[0]) in ('(0 <= this.exit_status)', '(this.exit_status >= 0)') and any(r.get('kind') == 'ReturnStmt' and nf(kids(r)[0]) == 'this.exit_status' for r in walk(if_parts(first)[1]))
        wp = [c for c in walk(wb) if c.get('kind') == 'CallExpr' and call_name(c) == 'waitpid']
        direct = len(wp) == 1 and nf(call_args(wp[0])[0]) == 'this.child_pid' and nf(call_args(wp[0])[1]) == '&this.exit_status'
        # or through a local: waitpid(pid, &status, ..) and `exit_status = status` on the path where waitpid reaped (ret > 0)
        via_local = False
        if len(wp) == 1 and not direct and nf(call_args(wp[0])[0]) == 'this.child_pid':
            a1 = strip(call_args(wp[0])[1])
            lv = ref_decl(strip(kids(a1)[0])) if a1.get('kind') == 'UnaryOperator' and a1.get('opcode') == '&' else None
            asg = [x for x in walk(wb) if x.get('kind') == 'BinaryOperator' and x.get('opcode') == '=' and nf(x['inner'][0]) == 'this.exit_status' and lv is not None and (ref_decl(x['inner'][1]) or {}).get('id') == lv.get('id')]
            rv = enclosing(wp[0], ('VarDecl',))
            if len(asg) == 1 and rv is not None:
                reaped = any(r_ and nf(r_[0]) == rv.get('name') and ((r_[1] == '>' and nf(r_[2]) == '0') or (r_[1] in ('==', '!=') and False)) for r_ in [relation(n_, p_) for n_, p_ in atoms(path_facts(asg[0]))]) or \
                    any(r_ and nf(r_[0]) == rv.get('name') and r_[1] == '==' and nf(r_[2]) == 'this.child_pid' for r_ in [relation(n_, p_) for n_, p_ in atoms(path_facts(asg[0]))])
                via_local = reaped
            if not via_local and len(asg) >= 1:
                ctx.undecided(R, 'wait|caches-status', wait, 'the status travels through a local; the store into exit_status is not under a `ret > 0` test this rule reads')
                okw = None
        if okw is not None:
            okw = okw and (direct or via_local)
        if okw is not None:
          ctx.check(okw, R, 'wait|caches-status', wait, 'wait() returns the cached status once the child was reaped and passes &exit_status to waitpid', 'wait() status caching changed')
        ck = [x for x in walk(rb) if x.get('kind') == 'IfStmt' and any((ref_decl(y) or {}).get('name') == 'check' for y in walk(if_parts(x)[0]))]
        okk = len(ck) == 1 and nf(if_parts(ck[0])[0]) in ('(check && sp.wait())', '(check && (sp.wait() != 0))', '(check && (0 != sp.wait()))') and any(t.get('kind') == 'CXXThrowExpr' for t in walk(if_parts(ck[0])[1]))
        ctx.check(okk, R, 'run_process|check-raw-status', ck[0] if ck else runp, 'check=true throws iff the raw wait status is non-zero',
                  'the check condition is `%s`, not the raw wait status: a child killed by a signal (exit-code bits 0) - including run_process\'s own timeout kill - no longer throws' % (nf(if_parts(ck[0])[0]) if ck else None))
        kills = [(nf(call_args(c)[0]), c) for c in walk(lp) if c.get('kind') == 'CXXMemberCallExpr' and call_name(c) == 'kill']
        okt = sorted(k for k, _ in kills) == ['15', '9'] and all(any('timeout_usecs' in t for t in truthy_facts(c)) for _, c in kills)
        ctx.check(okt, R, 'run_process|timeout-signals', kills[0][1] if kills else runp, 'on timeout the child gets SIGTERM, then SIGKILL', 'timeout handling in run_process changed: %s' % [k for k, _ in kills])
        es = [x for x in walk(lp) if x.get('kind') == 'BinaryOperator' and x.get('opcode') == '=' and nf(x['inner'][0]) == 'ret.exit_status']
        ctx.check(len(es) == 1 and nf(es[0]['inner'][1]) == 'sp.wait(1)', R, 'run_process|status-recorded', es[0] if es else runp, 'exit_status is the value the reaping wait returned', 'exit_status is not taken from sp.wait(true)')
        tk = [x for x in walk(cb) if x.get('kind') == 'IfStmt' and nf(if_parts(x)[0]) in ('(deadline_usecs && (this.wait(1) < 0))',) and x['_off'] > lpc['_off']]
        okm = len(tk) == 1 and [nf(s) for s in stmts_of(if_parts(tk[0])[1])][:1] == ['this.kill(9)'] and any(t.get('kind') == 'CXXThrowExpr' for t in walk(if_parts(tk[0])[1]))
        ctx.check(okm, R, 'communicate|timeout-kills', tk[0] if tk else comm, 'a timed-out child is killed and the caller is told', 'communicate timeout handling changed')
    ctx.note('Not decided: completeness and deadlock-freedom under all payload sizes and child timings (kernel pipe capacities, scheduling).')
