"""C04 - JSON serialize -> parse is the identity (decided part: agreement of the
serializer's and the parser's tables, number syntax, variant exhaustiveness, deep copy)."""
import re

from ast_ import *
from path import *
from bits import *
from props.c05 import parse_fns, flag_param

ALT_NAMES = ['null', 'bool', 'int', 'float', 'string', 'list', 'dict']


def enum_env(u):
    """EnumConstantDecl id -> value (explicit value or previous + 1)."""
    env = {}
    for r in u.roots:
        for e in walk(r):
            if e.get('kind') == 'EnumDecl':
                nxt = 0
                for c in kids(e):
                    if c.get('kind') == 'EnumConstantDecl':
                        v = None
                        for x in walk(c):
                            if x is not c and x.get('kind') in ('ConstantExpr', 'IntegerLiteral') and 'value' in x:
                                try:
                                    v = int(x['value'])
                                except ValueError:
                                    v = None
                                break
                        if v is None:
                            v = nxt
                        env[c['id']] = v
                        nxt = v + 1
    return env


class ConstEval(Interp):
    """Interp with enum constants and named locals bound to constants."""

    def __init__(self, unit, enums):
        super().__init__(unit)
        self.enums = enums

    def eval(self, n, env, depth=0):
        n0 = strip(n, casts=False)
        if n0.get('kind') == 'DeclRefExpr':
            rd = n0.get('referencedDecl') or {}
            if rd.get('kind') == 'EnumConstantDecl' and rd.get('id') in self.enums:
                info = width_of_type(dtype(n0)) or (32, True)
                return const_bv(self.enums[rd['id']] & ((1 << info[0]) - 1), info[0], info[1])
        if n0.get('kind') == 'CallExpr' and call_name(n0) in ('max', 'min', 'lowest') and not call_args(n0):
            # std::numeric_limits<T>::max()/min(): the value is determined by the (integral) result type
            info = width_of_type(dtype(n0))
            if info:
                w, sg = info
                v = ((1 << (w - 1)) - 1 if sg else (1 << w) - 1) if call_name(n0) == 'max' else (-(1 << (w - 1)) if sg else 0)
                return const_bv(v & ((1 << w) - 1), w, sg)
        return super().eval(n, env, depth)


def truth_const(I, cond, env):
    v = I.eval(cond, env)
    c = I.truth(v)
    return c if c in (0, 1) else None


def select_action(I, stmt, env):
    """Follow an if / else-if chain under a constant environment down to the
    statement that is executed; None when a condition cannot be decided."""
    while stmt is not None:
        k = stmt.get('kind')
        if k == 'CompoundStmt':
            ss = [s for s in kids(stmt)]
            if len(ss) == 1:
                stmt = ss[0]
                continue
            return stmt
        if k == 'IfStmt':
            cond, then, els = if_parts(stmt)
            c = truth_const(I, cond, env)
            if c is None:
                return ('undecided', cond)
            stmt = then if c == 1 else els
            if stmt is None:
                return ('nothing', None)
            continue
        return stmt
    return ('nothing', None)


def printf_emit(fmt, value_signed_char):
    """Text produced by one printf conversion of a `char` argument (promoted to int)."""
    m = re.match(r'^(.*?)%(0?)(\d*)(hh|h|l|ll|)([Xxud])(.*)$', fmt, re.S)
    if not m:
        return None
    pre, zero, width, length, conv, post = m.groups()
    v = value_signed_char
    if length == 'hh':
        u = v & 0xFF
    elif length == 'h':
        u = v & 0xFFFF
    else:
        u = v & 0xFFFFFFFF
    if conv in ('X', 'x'):
        digits = ('%X' if conv == 'X' else '%x') % u
    else:
        digits = '%d' % u
    w = int(width) if width else 0
    digits = digits.rjust(w, '0' if zero else ' ')
    return pre.replace('%%', '%') + digits + post.replace('%%', '%')


def unescape_c(lit):
    """bytes of a clang-printed string literal value (with quotes)."""
    s = lit
    if s.startswith('"') and s.endswith('"'):
        s = s[1:-1]
    out = bytearray()
    i = 0
    while i < len(s):
        c = s[i]
        if c == '\\' and i + 1 < len(s):
            n = s[i + 1]
            mp = {'n': 10, 't': 9, 'r': 13, 'b': 8, 'f': 12, 'v': 11, 'a': 7, '0': 0, '\\': 92, '"': 34, "'": 39}
            if n in mp and not (n == '0' and i + 2 < len(s) and s[i + 2].isdigit()):
                out.append(mp[n])
                i += 2
                continue
            if n == 'x':
                j = i + 2
                h = ''
                while j < len(s) and s[j] in '0123456789abcdefABCDEF':
                    h += s[j]
                    j += 1
                out.append(int(h, 16) & 0xFF)
                i = j
                continue
            if n.isdigit():
                j = i + 1
                o = ''
                while j < len(s) and len(o) < 3 and s[j] in '01234567':
                    o += s[j]
                    j += 1
                out.append(int(o, 8) & 0xFF)
                i = j
                continue
        out.extend(c.encode('utf8'))
        i += 1
    return bytes(out)


def string_lit(n):
    n = strip(n)
    if n is not None and n.get('kind') == 'StringLiteral':
        return unescape_c(n.get('value', '""'))
    return None


def emitted_for_chain(I, u, f_escape, ch_decl, mode_decl, b, mode):
    """(bytes emitted by escape_string for byte b under mode, description) or (None, why)."""
    sb = b - 256 if b >= 128 else b
    env = {ch_decl['id']: const_bv(b, 8, True), mode_decl['id']: const_bv(mode, 32, True)}
    loop = [x for x in walk(body_of(f_escape)) if x.get('kind') == 'CXXForRangeStmt']
    if len(loop) != 1:
        return None, 'escape_string: expected one range-for over the input'
    lb = loop_body(loop[0])
    act = select_action(I, lb, env)
    if isinstance(act, tuple):
        return None, 'cannot decide the branch taken for byte 0x%02X (%s)' % (b, act[0])
    a = strip(act)
    if a.get('kind') != 'CXXOperatorCallExpr' or call_name(a) != 'operator+=':
        return None, 'action for byte 0x%02X is not `ret += ...`' % b
    rhs = a['inner'][2]
    lit = string_lit(rhs)
    if lit is not None:
        return lit, 'literal'
    if (ref_decl(rhs) or {}).get('id') == ch_decl['id']:
        return bytes([b]), 'raw'
    for c in walk(rhs):
        if c.get('kind') == 'CallExpr' and call_name(c) == 'string_printf':
            args = call_args(c)
            fmt = string_lit(args[0])
            if fmt is None or len(args) != 2 or (ref_decl(args[1]) or {}).get('id') != ch_decl['id']:
                return None, 'unrecognised string_printf action'
            txt = printf_emit(fmt.decode('latin1'), sb)
            if txt is None:
                return None, 'unrecognised format %r' % fmt
            return txt.encode('latin1'), 'format %r' % fmt.decode('latin1')
    return None, 'unrecognised action `%s`' % src_text(a, 60)


def parser_tables(I, u, P):
    """Escape table of the parser's string branch: letter -> ('push', byte) | ('hex', ndigits) | ('throw',)."""
    body = body_of(P)
    # the escape dispatch: `if (ch == '\\') { ch = r.get_s8(); <chain> } else { push_back(ch) }`
    target = None
    for x in walk(body):
        if x.get('kind') == 'IfStmt':
            cond, then, els = if_parts(x)
            r = relation(cond, True)
            if target is None and r and r[1] == '==' and int_value(r[2]) == 92 and ref_decl(r[0]) and enclosing(x, ('WhileStmt',)) is not None:
                target = (x, ref_decl(r[0]), then, els)
    if target is None:
        raise AnalysisBroken('escape dispatch (`if (ch == \'\\\\\')`) not found in the string branch of JSON::parse')
    x, chd, then, els = target
    chain = [s for s in stmts_of(then) if s.get('kind') == 'IfStmt']
    if len(chain) != 1:
        raise AnalysisBroken('escape letter chain not found')
    table = {}
    for L in range(256):
        env = {chd['id']: const_bv(L, 8, True)}
        act = select_action(I, chain[0], env)
        if isinstance(act, tuple):
            table[L] = ('undecided',)
            continue
        calls = [c for c in walk(act) if c.get('kind') == 'CallExpr' and call_name(c) == 'value_for_hex_char']
        throws = [t for t in walk(act) if t.get('kind') == 'CXXThrowExpr']
        pushes = [c for c in walk(act) if c.get('kind') == 'CXXMemberCallExpr' and call_name(c) == 'push_back']
        if calls:
            hi_check = any(y.get('kind') == 'BinaryOperator' and y.get('opcode') == '&' and int_value(y['inner'][1]) == 0xFF00 for y in walk(act))
            table[L] = ('hex', len(calls), hi_check)
        elif pushes and not throws:
            v = int_value(call_args(pushes[0])[0])
            table[L] = ('push', v & 0xFF if v is not None else None)
        elif throws:
            table[L] = ('throw',)
        else:
            table[L] = ('other',)
    raw_ok = els is not None and any(c.get('kind') == 'CXXMemberCallExpr' and call_name(c) == 'push_back' and (ref_decl(call_args(c)[0]) or {}).get('id') == chd['id'] for c in walk(els))
    # terminator
    loop = enclosing(x, ('WhileStmt',))
    cond, _ = while_parts(loop)
    r = relation(cond, True)
    term = int_value(r[2]) if r and r[1] == '!=' else None
    return table, raw_ok, term


def decode(emitted, table, raw_ok, term):
    """Byte the parser's string branch produces for the emitted text of one input byte, or (None, why)."""
    e = emitted
    if len(e) == 1:
        if e[0] == term:
            return None, 'the raw byte terminates the string'
        if e[0] == 92:
            return None, 'the raw backslash starts an escape sequence'
        if not raw_ok:
            return None, 'parser does not copy raw bytes'
        return e[0], ''
    if len(e) >= 2 and e[0] == 92:
        t = table.get(e[1], ('other',))
        if t[0] == 'push' and len(e) == 2:
            return t[1], ''
        if t[0] == 'hex':
            nd = t[1]
            hexpart = e[2:]
            if len(hexpart) != nd:
                return None, 'parser reads %d hex digits after \\%s, serializer emits %d (%r)' % (nd, chr(e[1]), len(hexpart), e.decode('latin1'))
            try:
                v = int(hexpart.decode('ascii'), 16)
            except ValueError:
                return None, 'non-hex digits %r' % hexpart
            if nd == 4 and t[2] and v & 0xFF00:
                return None, 'parser rejects \\u escapes above U+00FF'
            return v & 0xFF, ''
        return None, 'parser has no escape \\%s (%s)' % (chr(e[1]), t[0])
    return None, 'emitted text %r is not a single raw byte or an escape' % e.decode('latin1')


def run(ctx):
    ctx.rule('C04-R1', 'escape tables: for each of the 3 escape modes and each byte 0..255, the text escape_string emits is decoded by the parser\'s string branch to the same byte (E-TABLE, finite and complete)', 768)
    ctx.rule('C04-R2', 'number syntax: ".0" is appended iff the %g text has no float marker the parser knows (\'.\', \'e\'); hex form is 0x/-0x + digits and the parser\'s gate tests \'0\',\'x\'; digit loops never reject', 5)
    ctx.rule('C04-R3', 'option -> escape mode mapping and one-character constants agree with the parser\'s literals', 7)
    ctx.rule('C04-R4', 'variant exhaustiveness: 7 alternatives; serialize / operator= / operator<=> handle indices 0..6 and use the accessor / get<k> of their own index; as_X returns the alternative named X', 30)
    ctx.rule('C04-R7', 'container texts by evaluation (E-TABLE): the empty, nested, compact and formatted container forms serialize() emits are parsed by the folded JSON::parse, in default and strict mode, to the value python json assigns', 1)
    ctx.rule('C04-R5', 'deep copy: operator=(const JSON&) assigns a fresh empty container, then inserts `new JSON(*child)` for every child; the copy constructor delegates to it', 5)
    ctx.rule('C04-R6', 'equality family: each typed comparator reads the alternative its parameter names (absent -> unordered); std::string arguments are compared over their whole length; the JSON/JSON comparator dispatches each index to the comparator of the same alternative; lists compare element values pairwise then sizes; dicts compare sizes, then every key\'s value', 34)
    u = ctx.unit(repo_unit('JSON.cc'))
    enums = enum_env(u)
    I = ConstEval(u, enums)
    reader, cptr, strs = parse_fns(u)
    P = reader[0]
    esc = u.func('phosg::JSON::escape_string')[0]
    ser = u.func('phosg::JSON::serialize')[0]
    for f in (esc, ser, P):
        check_no_goto(f)
        ctx.fn(u.qualname(f))

    # ---- R1
    with ctx.section('C04-R1', 'C04'):
        R = 'C04-R1'
        from peval import PEval, Str, Undecided, Fault
        PE = PEval([u])
        ctx.require(len(params_of(esc)) == 2 and 'string' in (dtype(params_of(esc)[0]) or ''), 'escape_string(const std::string&, mode) signature changed')

        def emitted_for(b, mode):
            """text escape_string produces for the one-byte string [b] under mode: the whole function is
            partially evaluated on that constant input (helpers, switch, loops folded), nothing is run"""
            try:
                r = PE.call_with(esc, [Str(bytes([b])), mode])
                r2 = PE.call_with(esc, [Str(bytes([0x41, b])), mode])
            except Undecided as e:
                raise AnalysisBroken('escape_string: cannot fold the function on the constant byte 0x%02X (%s)' % (b, e))
            except Fault as e:
                return None, 'for byte 0x%02X escape_string %s' % (b, e)
            if not isinstance(r, Str) or not isinstance(r2, Str):
                raise AnalysisBroken('escape_string does not evaluate to a string for byte 0x%02X' % b)
            if bytes(r2.b) != b'A' + bytes(r.b):
                return None, 'the text for byte 0x%02X depends on its position in the string (%r alone, %r after "A")' % (b, bytes(r.b), bytes(r2.b))
            return bytes(r.b), 'folded'
        moded = params_of(esc)[1]
        mode_enum = {}
        for r_ in u.roots:
            for e in walk(r_):
                if e.get('kind') == 'EnumDecl' and e.get('name') == 'StringEscapeMode':
                    for c in kids(e):
                        if c.get('kind') == 'EnumConstantDecl':
                            mode_enum[c['name']] = enums[c['id']]
        ctx.require(set(mode_enum) == {'STANDARD', 'HEX', 'CONTROL_ONLY'}, 'StringEscapeMode enumerators changed: %s' % sorted(mode_enum))
        table, raw_ok, term = parser_tables(I, u, P)
        ctx.require(term == 34, 'string terminator is not the double quote')
        # the parser side by evaluation as well: the quoted text is handed to JSON::parse (folded on the
        # constant document, both modes where the text is standard JSON) - whatever guards the parser
        # applies to an escape's value are exercised, not pattern-matched
        from peval import PEval as _PE2, Lit as _Lit, JV as _JV, Thrown as _Thrown
        us_ = repo_unit('Strings.cc')
        PEp = _PE2([u, us_], max_depth=80, max_iter=20000)
        ev_state = {'und': None, 'n': 0}

        def parsed_back(em, strict):
            doc = b'"' + em + b'"'
            try:
                v = PEp.call_with(cptr[0], [_Lit(doc), len(doc), strict])
            except _Thrown as e_:
                return 'throws %s' % e_.etype
            except Fault as e_:
                return 'faults (%s)' % e_
            except Undecided as e_:
                ev_state['und'] = str(e_)
                return None
            if isinstance(v, _JV) and v.kind == 'str':
                return bytes(v.val) if not isinstance(v.val, bytes) else v.val
            return 'gives a %s' % (v.kind if isinstance(v, _JV) else type(v).__name__)
        for mname, mval in sorted(mode_enum.items()):
            bad = []
            for b in range(256):
                em, how = emitted_for(b, mval)
                key = '%s|0x%02X' % (mname, b)
                if em is None:
                    ctx.bad(R, key, esc, how)
                    continue
                got, why = decode(em, table, raw_ok, term)
                if got == b and not ev_state['und']:
                    for strict_ in ((0, 1) if mname == 'STANDARD' else (0,)):
                        back = parsed_back(em, strict_)
                        if back is None:
                            break
                        ev_state['n'] += 1
                        if back != bytes([b]):
                            got, why = None, 'JSON::parse(%s) in %s mode %s' % (('"%s"' % em.decode('latin1')), 'strict' if strict_ else 'default', back if isinstance(back, str) else 'gives the string %r' % back)
                            break
                if got == b:
                    ctx.ok(R, key, esc, '%r -> 0x%02X' % (em.decode('latin1'), b), nontrivial=(len(em) > 1 or b in (0x20, 0x7E, 0x7F, 0x80, 0xFF)))
                else:
                    ctx.bad(R, key, esc, 'mode %s: byte 0x%02X is serialized as %r, which the parser %s' % (mname, b, em.decode('latin1'), ('decodes to 0x%02X' % got) if got is not None else ('rejects/misreads: ' + why)))
            if ev_state['und'] and mname == 'STANDARD':
                ctx.undecided(R, 'parser-by-evaluation', P, 'JSON::parse could not be folded on the emitted texts (%s): the parser side is judged by the escape-table pattern only' % ev_state['und'])
            # STANDARD mode emits only standard JSON escapes (no \x)
            if mname == 'STANDARD':
                nonstd = [b for b in range(256) if (emitted_for(b, mval)[0] or b'')[:2] == b'\\x']
                ctx.check(not nonstd, 'C04-R3', 'STANDARD|no-hex-escapes', esc, 'standard mode never emits \\x', 'standard mode emits the non-standard \\x escape for bytes %s' % [hex(b) for b in nonstd[:4]])

    # ---- R7: the container texts the serializer emits (compact and formatted, empty and nested) are read back
    # by JSON::parse in both modes with the value python's json assigns
    with ctx.section('C04-R7', 'C04'):
        import json as _json
        ct_bad, ct_und, ct_n = None, None, 0
        for doc_ in (b'[]', b'{}', b'[[]]', b'[{}]', b'{"a":[]}', b'{"a":{}}', b'[1]', b'[1,2]', b'{"a":1}', b'{"a":1,"b":[true,null]}', b'[[],[]]', b'[\n]', b'{\n}',
                     b'[\n  1,\n  2\n]', b'{\n  "a": 1\n}', b'{\n  "a": [],\n  "b": {}\n}', b'["x",{"y":[0.5]}]'):
            for strict_ in (0, 1):
                if ct_und or ct_bad:
                    break
                try:
                    r_ = PEp.call_with(cptr[0], [_Lit(doc_), len(doc_), strict_])
                except _Thrown as e_:
                    ct_bad = 'the text %r (a form serialize() produces) is rejected by JSON::parse in %s mode (%s)' % (doc_.decode(), 'strict' if strict_ else 'default', e_.etype)
                    continue
                except Fault as e_:
                    ct_bad = 'JSON::parse(%r) %s' % (doc_.decode(), e_)
                    continue
                except Undecided as e_:
                    ct_und = str(e_)
                    continue
                ct_n += 1

                def _py(o):
                    if isinstance(o, bytes):
                        return o.decode('latin1')
                    if isinstance(o, list):
                        return [_py(x_) for x_ in o]
                    if isinstance(o, dict):
                        return {_py(k_): _py(v_) for k_, v_ in o.items()}
                    return o
                got_ = _py(r_.py()) if isinstance(r_, _JV) else r_
                if got_ != _json.loads(doc_.decode()):
                    ct_bad = 'the text %r parses in %s mode to %r' % (doc_.decode(), 'strict' if strict_ else 'default', got_)
        if ct_und:
            ctx.undecided('C04-R7', 'container-texts|parse-back', P, 'JSON::parse could not be folded on the container texts (%s)' % ct_und)
        elif ct_bad:
            ctx.bad('C04-R7', 'container-texts|parse-back', P, ct_bad)
        else:
            ctx.ok('C04-R7', 'container-texts|parse-back', P, 'empty, nested, compact and formatted container texts parse back to the reference value in both modes (%d cases)' % ct_n)
    # ---- R2 (evaluation part): every text form `%g` can produce for a double (plus the ".0" the
    # serializer appends to integral-looking ones) is read back by JSON::parse as a float of that value
    with ctx.section('C04-R2', 'C04'):
        R = 'C04-R2'
        fl_bad, fl_und, fl_n = None, None, 0
        for v_ in (0.0, 1.0, -1.0, 1.5, -2.25, 100.0, 123456.0, 1e6, 2e6, 1e20, 2.5e20, 1e-7, 1.5e-7, 1e100, 1e-100, 1.7976931348623157e308, 5e-324, 123456789.0, 0.1, 1e5, 999999.0, 1e15, 1e16, -1e6, -1e-7):
            txt_ = '%g' % v_
            if '.' not in txt_ and 'e' not in txt_:
                txt_ += '.0'
            for strict_ in (0, 1):
                if fl_und or fl_bad:
                    break
                doc_ = txt_.encode()
                try:
                    r_ = PEp.call_with(cptr[0], [_Lit(doc_), len(doc_), strict_])
                except _Thrown as e_:
                    fl_bad = 'the float text %s (what the serializer prints for %r) is rejected by JSON::parse in %s mode (%s)' % (txt_, v_, 'strict' if strict_ else 'default', e_.etype)
                    continue
                except Fault as e_:
                    fl_bad = 'JSON::parse(%s) %s' % (txt_, e_)
                    continue
                except Undecided as e_:
                    fl_und = str(e_)
                    continue
                fl_n += 1
                want_ = float(txt_)
                if not (isinstance(r_, _JV) and r_.kind == 'float' and (r_.val == want_ or abs(r_.val - want_) <= 1e-12 * abs(want_))):
                    fl_bad = 'the float text %s (what the serializer prints for %r) parses in %s mode to %s %r: a float must come back as a float of the same value' % (txt_, v_, 'strict' if strict_ else 'default', r_.kind if isinstance(r_, _JV) else type(r_).__name__, r_.val if isinstance(r_, _JV) else r_)
        if fl_und:
            ctx.undecided(R, 'float-texts|parse-back', P, 'JSON::parse could not be folded on the float texts (%s)' % fl_und)
        elif fl_bad:
            ctx.bad(R, 'float-texts|parse-back', P, fl_bad)
        else:
            ctx.ok(R, 'float-texts|parse-back', P, 'every %%g form (plain, fraction, e+XX, e-XX, with the appended .0) parses back to a float of the same value in both modes (%d cases)' % fl_n)
    # ---- R2 number syntax
    with ctx.section('C04-R2', 'C04'):
        R = 'C04-R2'
        sbody = body_of(ser)
        sw = [x for x in walk(sbody) if x.get('kind') == 'SwitchStmt']
        ctx.require(len(sw) >= 1, 'serialize: switch over the variant index not found')
        cases = {}
        for c in walk(sw[0]):
            if c.get('kind') == 'CaseStmt' and enclosing(c, ('SwitchStmt',)) is sw[0]:
                cases[int_value(kids(c)[0])] = c
        fl = cases.get(3)
        ctx.require(fl is not None, 'serialize: case for the float alternative (index 3) not found')
        appends = []
        for x in walk_deep(fl, u):
            if x.get('kind') == 'IfStmt':
                cond, then, els = if_parts(x)
                S = set()
                okc = True
                for n_, pol in atoms([Fact(cond, True, x)]):
                    r = relation(n_, pol)
                    if not r or r[1] != '==':
                        okc = False
                        continue
                    call = strip(r[0])
                    if call.get('kind') == 'CXXMemberCallExpr' and call_name(call) in ('find', 'find_first_of'):
                        a0 = call_args(call)[0]
                        lit = string_lit(a0)
                        if lit is not None:
                            S |= set(lit)
                        elif int_value(a0) is not None:
                            S.add(int_value(a0))
                        else:
                            okc = False
                    else:
                        okc = False
                lits = [string_lit(y) for y in walk(then) if string_lit(y) is not None]
                if lits:
                    appends.append((x, S, okc, lits))
        ctx.require(len(appends) == 1, 'serialize: the float-marker suffix rule (`if (no marker) return ret + ".0"`) not found')
        x, S, okc, lits = appends[0]
        need = {ord('.'), ord('e')}
        allowed = {ord('.'), ord('e'), ord('E')}
        ctx.check(okc and need <= S <= allowed, R, 'float-marker-set', x, 'suffix appended iff none of %s occur' % sorted(chr(c) for c in S),
                  'the suffix rule looks for %s; it must look for exactly the float markers %%g can emit (\'.\' and \'e\'): otherwise %s' % (
                      sorted(chr(c) for c in S), 'text such as 1e+20 gets ".0" appended after the exponent and no longer parses' if ord('e') not in S else ('1.5 gets a second ".0"' if ord('.') not in S else 'integers-looking floats lose their marker and come back as ints')))
        ctx.check(set(lits) == {b'.0'}, R, 'float-marker-suffix', x, 'suffix is ".0"', 'suffix is %s' % lits)
        fmts = [string_lit(a) for c in walk_deep(fl, u) if c.get('kind') == 'CallExpr' and call_name(c) == 'string_printf' for a in call_args(c)[:1]]
        ctx.check(fmts == [b'%g'], R, 'float-format', fl, 'floats are printed with %g', 'float format is %s' % fmts)
        ic = cases.get(2)
        ctx.require(ic is not None, 'serialize: case for the int alternative not found')
        ifmts = sorted(f_ for f_ in (string_lit(a) for c in walk_deep(ic, u) if c.get('kind') == 'CallExpr' and call_name(c) == 'string_printf' for a in call_args(c)[:1]) if f_)
        ctx.check(ifmts == [b'-0x%lX', b'0x%lX'], R, 'hex-format', ic, 'hex integers are 0x / -0x + uppercase digits', 'hex integer formats are %s' % ifmts)
        pbody = body_of(P)
        hexgate = [c for c in walk(pbody) if c.get('kind') == 'CXXMemberCallExpr' and call_name(c) == 'go']
        ctx.require(len(hexgate) == 1, 'parser: hex gate not found')
        chars = set()
        for n_, pol in atoms(path_facts(hexgate[0], ignore_kills_of={params_of(P)[0]['id']})):
            r = relation(n_, pol)
            if r and r[1] == '==' and int_value(r[2]) is not None and strip(r[0]).get('kind') == 'CXXMemberCallExpr':
                chars.add(int_value(r[2]))
        ctx.check(chars == {ord('0'), ord('x')}, R, 'hex-gate', hexgate[0], 'parser recognises the prefix 0x', 'parser hex gate tests %s' % sorted(chr(c) for c in chars))
        # digit loops never reject a numeral by magnitude
        num_loops = []
        for lp in walk(pbody):
            if lp.get('kind') == 'WhileStmt':
                cond, lb = while_parts(lp)
                if any(c.get('kind') == 'CallExpr' and call_name(c) in ('isdigit', 'isxdigit') for c in walk(cond)):
                    num_loops.append(lp)
        ctx.require(len(num_loops) >= 4, 'number-scanner digit loops not found')
        thr = [t for lp in num_loops for t in walk(lp) if t.get('kind') == 'CXXThrowExpr']
        ctx.check(not thr, R, 'digit-loops-total', thr[0] if thr else num_loops[0], 'digit accumulation never throws', 'a digit loop rejects some numerals (%s): text the serializer emits for an extreme value is refused' % (src_text(thr[0], 80) if thr else ''))

        # exponent scaling: a loop whose trip count is a parsed value (its condition does not consult the
        # reader) runs up to 308 times for text %g emits; whatever it accumulates into the float result
        # must be floating point (10^19 already overflows a 64-bit integer)
        rp = params_of(P)[0]
        fvars = {x['id']: x for x in walk(pbody) if x.get('kind') == 'VarDecl' and (dtype(x) or '') in ('double', 'float', 'long double')}
        # the float result: floating locals handed to a JSON constructor / assigned to the result
        fres = set()
        for x in walk(pbody):
            if x.get('kind') in ('CXXConstructExpr', 'CXXFunctionalCastExpr', 'CXXTemporaryObjectExpr', 'BinaryOperator', 'CXXOperatorCallExpr') and 'JSON' in (qtype(x) or ''):
                for y in walk(x):
                    rd = ref_decl(y) if y.get('kind') == 'DeclRefExpr' else None
                    if rd and rd.get('id') in fvars:
                        fres.add(rd['id'])
        ctx.require(fres, 'parser: the floating-point local that becomes the float result was not found')
        def _assigns(root):
            for a in walk(root):
                k_ = a.get('kind')
                if k_ in ('BinaryOperator', 'CompoundAssignOperator') and a.get('opcode') in ASSIGN_OPS:
                    rd = ref_decl(a['inner'][0])
                    if rd and rd.get('kind') == 'VarDecl':
                        yield a, rd, a['inner'][1]
                elif k_ == 'UnaryOperator' and a.get('opcode') in ('++', '--'):
                    rd = ref_decl(a['inner'][0])
                    if rd and rd.get('kind') == 'VarDecl':
                        yield a, rd, None
        value_loops = []
        for lp in walk(pbody):
            if lp.get('kind') in ('ForStmt', 'WhileStmt', 'DoStmt'):
                cond = for_parts(lp)[2] if lp.get('kind') == 'ForStmt' else (while_parts(lp)[0] if lp.get('kind') == 'WhileStmt' else None)
                if cond is None:
                    continue
                if any((ref_decl(y) or {}).get('id') == rp['id'] for y in walk(cond) if y.get('kind') == 'DeclRefExpr'):
                    continue
                cvars = {(ref_decl(y) or {}).get('id') for y in walk(cond) if y.get('kind') == 'DeclRefExpr'}
                if not any(v_ is not None for v_ in cvars):
                    continue
                value_loops.append((lp, cvars))
        n_sc = 0
        for lp, cvars in value_loops:
            for a, rd, rhs in _assigns(lp):
                if rd['id'] in cvars or rd['id'] in fvars:
                    if rd['id'] in fvars:
                        n_sc += 1
                        ctx.ok(R, 'exp-scale|%s@%s' % (rd.get('name'), a.get('_line')), a, 'value-counted loop accumulates into the floating-point %s' % rd.get('name'))
                    continue
                # integer accumulator: does it reach the float result afterwards?
                reach = {rd['id']}
                hit = None
                for _ in range(4):
                    for a2, rd2, rhs2 in _assigns(pbody):
                        if rhs2 is None or a2.get('_off', 0) < lp.get('_end', lp.get('_off', 0)):
                            continue
                        if any((ref_decl(y) or {}).get('id') in reach for y in walk(rhs2) if y.get('kind') == 'DeclRefExpr'):
                            if rd2['id'] in fres and hit is None:
                                hit = a2
                            reach.add(rd2['id'])
                if hit is not None:
                    ctx.bad(R, 'exp-scale|%s@%s' % (rd.get('name'), a.get('_line')), a,
                            'the loop counted by a parsed value accumulates into the fixed-width integer `%s` (%s), which then scales the float result at line %s (`%s`): it overflows from 10^19 on, so text %%g emits for large or small magnitudes (1e+20, 1e-30) parses to a wrong value' % (rd.get('name'), dtype(rd), hit.get('_line'), src_text(hit, 50)))
        if not n_sc and not any(o.rule == R and o.key.startswith('exp-scale') for o in ctx.obs):
            ctx.undecided(R, 'exp-scale', P, 'no value-counted scaling loop recognised in the number scanner')

    # ---- R3 option mapping and trivial constants
    with ctx.section('C04-R3', 'C04'):
        R = 'C04-R3'
        opt = {}
        for r_ in u.roots:
            for e in walk(r_):
                if e.get('kind') == 'EnumDecl' and e.get('name') == 'SerializeOption':
                    for c in kids(e):
                        if c.get('kind') == 'EnumConstantDecl':
                            opt[c['name']] = enums[c['id']]
        ctx.require('ESCAPE_CONTROLS_ONLY' in opt and 'HEX_ESCAPE_CODES' in opt, 'SerializeOption enumerators not found')
        optp = params_of(ser)[0]
        mode_var = next((x for x in walk(sbody) if x.get('kind') == 'VarDecl' and 'StringEscapeMode' in (qtype(x) or '')), None)
        ctx.require(mode_var is not None, 'serialize: escape_mode variable not found')
        chain = next((s for s in stmts_of(sbody) if s.get('kind') == 'IfStmt' and any((ref_decl(a['inner'][0]) or {}).get('id') == mode_var['id'] for a in walk(s) if a.get('kind') == 'BinaryOperator' and a.get('opcode') == '=')), None)
        ctx.require(chain is not None, 'serialize: option -> mode chain not found')
        want = {(0, 0): 'STANDARD', (0, 1): 'HEX', (1, 0): 'CONTROL_ONLY', (1, 1): 'CONTROL_ONLY'}
        for (co, hx), wm in sorted(want.items()):
            ov = (opt['ESCAPE_CONTROLS_ONLY'] if co else 0) | (opt['HEX_ESCAPE_CODES'] if hx else 0)
            act = select_action(I, chain, {optp['id']: const_bv(ov, 32, False)})
            got = None
            if not isinstance(act, tuple):
                a = strip(act)
                if a.get('kind') == 'BinaryOperator' and a.get('opcode') == '=':
                    rd = ref_decl(a['inner'][1])
                    got = rd.get('name') if rd else None
            ctx.check(got == wm, R, 'mode|controls_only=%d,hex=%d' % (co, hx), chain, 'escape mode %s' % got, 'options (ESCAPE_CONTROLS_ONLY=%d, HEX_ESCAPE_CODES=%d) select mode %s, documented priority gives %s' % (co, hx, got, wm))
        ser_lits = set()
        for k in (0, 1):
            c = cases.get(k)
            if c is not None:
                for y in walk(c):
                    l = string_lit(y)
                    if l is not None:
                        ser_lits.add(l)
        par_lits = set()
        for c in walk(pbody):
            if c.get('kind') == 'CXXMemberCallExpr' and call_name(c) == 'skip_if':
                l = string_lit(call_args(c)[0])
                if l is not None and int_value(call_args(c)[1]) == len(l):
                    par_lits.add(l)
        ctx.check(ser_lits == {b'n', b'null', b't', b'f', b'true', b'false'}, R, 'trivial-constants|serializer', cases.get(0) or ser, 'serializer emits null/true/false and n/t/f', 'serializer trivial constants are %s' % sorted(ser_lits))
        ctx.check(ser_lits <= par_lits, R, 'trivial-constants|parser-accepts', P, 'parser accepts every constant the serializer emits', 'parser does not accept %s' % sorted(ser_lits - par_lits))

    # ---- R4 exhaustiveness
    with ctx.section('C04-R4', 'C04'):
        R = 'C04-R4'
        vfield = None
        for r_ in u.records:
            if u.qualname(r_) == 'phosg::JSON':
                for c in kids(r_):
                    if c.get('kind') == 'FieldDecl' and c.get('name') == 'value':
                        vfield = c
        ctx.require(vfield is not None, 'JSON::value field not found')
        vt = vfield['type'].get('desugaredQualType') or vfield['type'].get('qualType')
        alts = split_targs(vt)
        ctx.check(len(alts) == 7, R, 'variant|7-alternatives', vfield, '%d alternatives' % len(alts), 'the variant has %d alternatives; serialize/copy/compare are written for 7' % len(alts))
        want_acc = {1: 'as_bool', 2: 'as_int', 3: 'as_float', 4: 'as_string', 5: 'as_list', 6: 'as_dict'}
        for k in range(7):
            c = cases.get(k)
            ctx.check(c is not None, R, 'serialize|case-%d' % k, sw[0], 'case %d present' % k, 'serialize has no case for variant index %d (%s)' % (k, ALT_NAMES[k]))
            if c is not None and k in want_acc:
                nxt = cases.get(k + 1)
                accs = {call_name(y) for y in walk(c) if y.get('kind') == 'CXXMemberCallExpr' and (call_name(y) or '').startswith('as_') and is_this(member_call_object(y))
                        and (nxt is None or not any(a is nxt for a in ancestors(y)))}
                ctx.check(accs == {want_acc[k]}, R, 'serialize|case-%d-accessor' % k, c, 'case %d renders %s()' % (k, want_acc[k]), 'case %d (%s) renders through %s' % (k, ALT_NAMES[k], sorted(accs)))
        asg = [f for f in u.func('phosg::JSON::operator=') if 'const phosg::JSON &' in (qtype(params_of(f)[0]) or '') or 'const JSON &' in (qtype(params_of(f)[0]) or '')]
        ctx.require(len(asg) == 1, 'JSON::operator=(const JSON&) not found')
        A = asg[0]
        ctx.fn('phosg::JSON::operator=(const JSON&)')
        asw = [x for x in walk(body_of(A)) if x.get('kind') == 'SwitchStmt']
        ctx.require(len(asw) == 1, 'operator=: switch not found')
        acases = {}
        for c in walk(asw[0]):
            if c.get('kind') == 'CaseStmt':
                acases[int_value(kids(c)[0])] = c
        order = sorted(acases)
        for k in range(7):
            c = acases.get(k)
            ctx.check(c is not None, R, 'operator=|case-%d' % k, asw[0], 'case %d present' % k, 'copy assignment has no case for variant index %d (%s)' % (k, ALT_NAMES[k]))
            if c is None:
                continue
            nxt = acases.get(k + 1)
            gets = []
            for y in walk(c):
                if y.get('kind') == 'CallExpr' and call_name(y) == 'get' and (nxt is None or not any(a is nxt for a in ancestors(y))):
                    gets.append(y)
            # get<k>: the result type must be alternative k
            badg = [y for y in gets if norm_alt(dtype(y)) != norm_alt(alts[k] if k < len(alts) else '')]
            ctx.check(not badg, R, 'operator=|case-%d-index' % k, c, 'case %d reads/writes alternative %d only' % (k, k), 'case %d accesses a different alternative: %s has type %s' % (k, src_text(badg[0], 50) if badg else '', dtype(badg[0]) if badg else ''))
        cmp_ = [f for f in u.func('phosg::JSON::operator<=>') if 'JSON &' in (qtype(params_of(f)[0]) or '')]
        if cmp_:
            csw = [x for x in walk(body_of(cmp_[0])) if x.get('kind') == 'SwitchStmt']
            labels = {int_value(kids(c)[0]) for x in csw for c in walk(x) if c.get('kind') == 'CaseStmt'}
            # an index may also be dealt with before the switch (`if (index == 2 || index == 3) return ...`)
            early = set()
            for x in walk(body_of(cmp_[0])):
                if x.get('kind') in ('BinaryOperator',) and x.get('opcode') == '==' and not any(any(y is x for y in walk(sw_)) for sw_ in csw):
                    for a_, b_ in ((x['inner'][0], x['inner'][1]), (x['inner'][1], x['inner'][0])):
                        if int_value(b_) is not None and 'index' in canon(a_):
                            early.add(int_value(b_))
            has_default = any(c.get('kind') == 'DefaultStmt' for x in csw for c in walk(x))
            missing = set(range(7)) - labels - early
            if missing and has_default:
                ctx.undecided(R, 'operator<=>|cases', cmp_[0], 'indices %s are left to a default label' % sorted(missing))
            else:
                ctx.check(not missing, R, 'operator<=>|cases', cmp_[0], 'every variant index 0..6 is dispatched (case labels %s, tested before the switch %s)' % (sorted(labels), sorted(early)), 'comparison handles indices %s' % sorted(labels | early))
        # as_X returns the alternative named X
        idx = {n: i for i, n in enumerate(ALT_NAMES)}
        for nm in ('as_bool', 'as_string', 'as_list', 'as_dict'):
            for f in u.func('phosg::JSON::' + nm):
                gets = [y for y in walk(body_of(f)) if y.get('kind') == 'CallExpr' and call_name(y) == 'get']
                k = idx[nm[3:]]
                ok = len(gets) >= 1 and all(norm_alt(dtype(y)) == norm_alt(alts[k]) for y in gets)
                const = ' const' if (f.get('type', {}).get('qualType') or '').rstrip().endswith('const') else ''
                ctx.check(ok, R, '%s%s|alternative' % (nm, const), f, '%s returns alternative %d' % (nm, k), '%s does not return the %s alternative' % (nm, ALT_NAMES[k]))

    # ---- R5 deep copy
    with ctx.section('C04-R5', 'C04'):
        R = 'C04-R5'
        for k, ins in ((5, ('emplace_back', 'push_back')), (6, ('emplace', 'insert', 'try_emplace'))):
            c = acases.get(k)
            if c is None:
                continue
            nxt = acases.get(k + 1)
            nodes = [y for y in walk(c) if nxt is None or not any(a is nxt for a in ancestors(y))]
            loops = [y for y in nodes if y.get('kind') == 'CXXForRangeStmt']
            fresh = None
            for y in nodes:
                if y.get('kind') == 'CXXOperatorCallExpr' and call_name(y) == 'operator=' and canon(y['inner'][1]) == 'this.value':
                    tmp = [z for z in walk(y['inner'][2]) if z.get('kind') in ('CXXTemporaryObjectExpr', 'CXXConstructExpr', 'CXXScalarValueInitExpr', 'CXXFunctionalCastExpr')]
                    empty = any(z.get('kind') in ('CXXTemporaryObjectExpr', 'CXXConstructExpr') and norm_alt(dtype(z)) == norm_alt(alts[k]) and not [a for a in kids(z) if a.get('kind') != 'CXXDefaultArgExpr'] for z in tmp)
                    if empty:
                        fresh = y
            ok_fresh = False
            if loops:
                pre = preceding_statements(loops[0])
                if fresh is not None:
                    cs = containing_statement(fresh)
                    # dominating: the assignment is itself a straight-line predecessor of the copy loop (not nested under a condition)
                    ok_fresh = any(cs is s for s in pre) and strip(cs) is fresh
                if not ok_fresh:
                    # alternatively the existing container is emptied unconditionally
                    for s in pre:
                        s0 = strip(s)
                        if s0.get('kind') == 'CXXMemberCallExpr' and call_name(s0) == 'clear':
                            ok_fresh = True
            ctx.check(bool(ok_fresh), R, 'operator=|case-%d-fresh-container' % k, c, 'this->value is assigned a new empty %s before the children are copied' % ALT_NAMES[k],
                      'the target\'s existing %s is not replaced by an empty one before the children are copied: `a = b` onto an existing %s appends instead of replacing' % (ALT_NAMES[k], ALT_NAMES[k]))
            inserts = [y for y in nodes if y.get('kind') == 'CXXMemberCallExpr' and call_name(y) in ins]
            good = bool(inserts) and bool(loops)
            for y in inserts:
                news = [z for z in walk(y) if z.get('kind') == 'CXXNewExpr']
                deep = False
                for z in news:
                    ce = [w for w in walk(z) if w.get('kind') == 'CXXConstructExpr' and norm_alt(dtype(w)) == 'phosg::JSON']
                    if ce and any(w.get('kind') in ('UnaryOperator', 'CXXOperatorCallExpr') for w in walk(ce[0])):
                        deep = True
                if not deep:
                    good = False
            ctx.check(good, R, 'operator=|case-%d-deep' % k, c, 'every child is inserted as new JSON(*child)', 'children of the %s are not copied as `new JSON(*child)`: the copy aliases or drops them' % ALT_NAMES[k])
        cctor = [f for f in u.func('phosg::JSON::JSON') if len(params_of(f)) == 1 and (qtype(params_of(f)[0]) or '').replace('phosg::', '') == 'const JSON &']
        ctx.require(len(cctor) == 1, 'copy constructor not found')
        calls = [y for y in walk(body_of(cctor[0])) if y.get('kind') == 'CXXMemberCallExpr' and call_name(y) == 'operator=']
        calls += [y for y in walk(body_of(cctor[0])) if y.get('kind') == 'CXXOperatorCallExpr' and call_name(y) == 'operator=']
        ok = len(calls) == 1 and (callee_decl(calls[0], u) or {}).get('mangledName') == A.get('mangledName')
        ctx.check(ok, R, 'copy-ctor|delegates', cctor[0], 'copy constructor delegates to the deep-copying assignment', 'copy constructor does not delegate to operator=(const JSON&)')
        check_compare(ctx, u, alts)
        # strings and keys are arbitrary byte strings: nothing on the serialize / compare path may look at
        # them through a NUL-terminated view
        CSTR = ('strcmp', 'strncmp', 'strlen', 'strcoll', 'strcasecmp', 'strncasecmp', 'strcpy', 'strdup', 'strstr', 'strchr', 'strrchr', 'strspn', 'strcspn', 'strtok', 'strnlen')
        esc_f = [f for f in u.functions if f.get('name') == 'escape_string' and body_of(f) is not None]
        n_views = 0
        for f in [ser] + esc_f:
            for c in walk_deep(body_of(f), u):
                if c.get('kind') == 'CallExpr' and call_name(c) in CSTR:
                    views = [x for a in call_args(c) for x in walk(a) if x.get('kind') == 'CXXMemberCallExpr' and call_name(x) in ('c_str', 'data') and 'basic_string' in (dtype(member_call_object(x)) or '')]
                    if views:
                        n_views += 1
                        ctx.bad('C04-R6', '%s|cstring-view|%s@%s' % (f.get('name'), call_name(c), c.get('_line')), c,
                                '%s() is applied to %s: a key or string with an embedded NUL byte is handled by its prefix only (ordering / output differ from the std::string the value holds)' % (call_name(c), src_text(views[0], 50)))
        if not n_views:
            ctx.ok('C04-R6', 'serialize|no-cstring-view', ser, 'no NUL-terminated view of a key or string on the serialize path', nontrivial=False)
    ctx.note('R1 is exhaustive over (mode, byte): 3 x 256 cases evaluated on the extracted tables, no code executed. Not decided: value equality for every tree, %g rounding, independent JSON implementations.')


# --------------------------------------------------------------------------
# R6: the comparison family (the property's own notion of "equal")

_EXPECT_IDX = [('std::nullptr_t', {0}), ('nullptr_t', {0}), ('bool', {1}), ('long', {2, 3}), ('int64_t', {2, 3}), ('double', {2, 3}),
               ('char*', {4}), ('std::string', {4}), ('std::basic_string<char>', {4}), ('list_type', {5}), ('dict_type', {6})]


def _param_alt(f):
    t = norm_alt(qtype(params_of(f)[0]))
    if t.endswith('JSON') and 'list' not in t and 'dict' not in t:
        return 'JSON', None
    for key, idx in _EXPECT_IDX:
        if t == key or t.endswith('::' + key) or t.endswith(key):
            return key, idx
    return t, None


def _variant_index(call):
    """N of a std::get<N> / std::get_if<N> call on the JSON variant (from the callee's declared result type)."""
    m = re.search(r'variant_alternative_t<(\d+)', qtype(call) or '') or re.search(r'variant_alternative_t<(\d+)', qtype(kids(call)[0]) or '')
    return int(m.group(1)) if m else None


def _get_calls(node, names=('get_if', 'get')):
    return [y for y in walk(node) if y.get('kind') == 'CallExpr' and call_name(y) in names and _variant_index(y) is not None]


def _whose_value(call):
    a = call_args(call)
    return canon(a[0]).replace('&', '').replace('(', '').replace(')', '').strip() if a else ''


def _is_unordered(e):
    return any(x.get('kind') == 'DeclRefExpr' and (x.get('referencedDecl') or {}).get('name') == 'unordered' for x in walk(e))


def check_compare(ctx, u, alts):
    R = 'C04-R6'
    fs = [f for f in u.func('phosg::JSON::operator<=>') if body_of(f)]
    typed = {}
    main = None
    for f in fs:
        key, idx = _param_alt(f)
        if key == 'JSON':
            main = f
        elif idx is not None:
            typed.setdefault(key, []).append((f, idx))
    ctx.require(main is not None, 'JSON::operator<=>(const JSON&) not found')
    ctx.fn('phosg::JSON::operator<=>(const JSON&)')

    # -- typed comparators read the alternative their parameter type names, and report `unordered` when it is absent
    for key, lst in sorted(typed.items()):
        for f, idx in lst:
            lab = 'operator<=>(%s)' % key
            ctx.fn('phosg::JSON::' + lab)
            gs = _get_calls(body_of(f))
            used = {_variant_index(g) for g in gs}
            whose = {_whose_value(g) for g in gs}
            ok = bool(gs) and used <= idx and (used == idx or idx == {2, 3} and used == {2, 3}) and whose == {'this.value'}
            if idx == {2, 3}:
                ok = bool(gs) and used == {2, 3} and whose == {'this.value'}
            ctx.check(ok, R, lab + '|alternative', f, 'reads alternative(s) %s of this->value' % sorted(used), '%s reads alternative(s) %s of %s; a %s argument must be compared with alternative(s) %s of this->value' % (lab, sorted(used), sorted(whose), key, sorted(idx)))
            # the absent-alternative path yields unordered
            nulls = [x for x in walk(body_of(f)) if x.get('kind') in ('ConditionalOperator', 'IfStmt') and any(y.get('kind') == 'CXXNullPtrLiteralExpr' for y in walk(kids(x)[0]))]
            has_unordered = any(_is_unordered(x) for x in nulls)
            if idx != {0}:
                ctx.check(has_unordered, R, lab + '|absent-unordered', f, 'a value of another kind compares unordered', '%s does not return `unordered` when the stored value is of another kind' % lab)

    # -- string arguments are compared over their whole length (never through a NUL-terminated view)
    for key in ('std::string', 'std::basic_string<char>'):
        for f, idx in typed.get(key, []):
            v = params_of(f)[0]
            lab = 'operator<=>(std::string)'
            narrowing = []
            for x in walk(body_of(f)):
                if x.get('kind') == 'CXXMemberCallExpr' and call_name(x) in ('c_str', 'data') and (ref_decl(member_call_object(x)) or {}).get('id') == v['id']:
                    narrowing.append(x)
                if x.get('kind') in ('CXXMemberCallExpr', 'CallExpr', 'CXXOperatorCallExpr'):
                    d = callee_decl(x, u)
                    if d is not None and u.qualname(d) == 'phosg::JSON::operator<=>' and norm_alt(qtype(params_of(d)[0])).endswith('char*'):
                        narrowing.append(x)
            ctx.check(not narrowing, R, lab + '|whole-length', narrowing[0] if narrowing else f, 'the std::string argument is never narrowed to a C string',
                      'the std::string argument is compared through a NUL-terminated view (%s): strings with an embedded NUL byte compare by their prefix only' % (src_text(narrowing[0], 60) if narrowing else ''))
            cmps = []
            for x in walk(body_of(f)):
                if x.get('kind') == 'CXXMemberCallExpr' and call_name(x) == 'compare' and call_args(x) and (ref_decl(call_args(x)[0]) or {}).get('id') == v['id']:
                    cmps.append(x)
                if x.get('kind') == 'CXXOperatorCallExpr' and call_name(x) in ('operator<=>', 'operator==', 'operator<') and any((ref_decl(a) or {}).get('id') == v['id'] for a in kids(x)[1:]):
                    cmps.append(x)
            ctx.check(bool(cmps), R, lab + '|compares-argument', f, 'stored string compared with the argument by std::string comparison', 'no std::string comparison between the stored string and the argument was found')

    # -- the JSON/JSON comparator dispatches each index to the comparator of the same alternative
    body = body_of(main)
    other = params_of(main)[0]
    idxvars = {}
    for vd in walk(body):
        if vd.get('kind') == 'VarDecl' and kids(vd):
            for c in walk(vd):
                if c.get('kind') == 'CXXMemberCallExpr' and call_name(c) == 'index':
                    idxvars[vd['id']] = canon(member_call_object(c))
    sw = [x for x in walk(body) if x.get('kind') == 'SwitchStmt']
    ctx.require(len(sw) == 1, 'operator<=>(const JSON&): expected one switch')
    swv = ref_decl(kids(sw[0])[-2]) if len(kids(sw[0])) >= 2 else None
    sw_on = idxvars.get((swv or {}).get('id'))
    ctx.check(sw_on in ('this.value', 'other.value'), R, 'operator<=>(JSON)|switch-on-index', sw[0], 'switch over %s.index()' % sw_on, 'the switch is not over a variant index')
    # indices must agree before the switch (apart from the int/float cross compare)
    pre = preceding_statements(sw[0])
    mismatch_guard = False
    for s in pre:
        if s.get('kind') == 'IfStmt':
            cond, then, els = if_parts(s)
            r = relation(cond, True)
            if r and r[1] == '!=' and {idxvars.get((ref_decl(r[0]) or {}).get('id')), idxvars.get((ref_decl(r[2]) or {}).get('id'))} == {'this.value', 'other.value'} and _is_unordered(then) and not falls_through(then):
                mismatch_guard = True
    if not mismatch_guard:
        # any guard whose truth table over (this index, other index) is "unordered for every differing pair
        # (int/float pairs may be let through), never for equal indices"
        from poly import Poly as _PG
        PG = _PG(main, u)

        class _U(Exception):
            pass

        def ev_(e, ti, oi, depth=0):
            e = strip(e)
            while e is not None and e.get('kind') in ('ImplicitCastExpr', 'ParenExpr', 'ExprWithCleanups') and kids(e):
                e = strip(kids(e)[0])
            if e is None or depth > 8:
                raise _U()
            if int_value(e) is not None:
                return int_value(e)
            k_ = e.get('kind')
            if k_ == 'DeclRefExpr':
                w_ = idxvars.get((ref_decl(e) or {}).get('id'))
                if w_ == 'this.value':
                    return ti
                if w_ == 'other.value':
                    return oi
                init_ = PG.single(ref_decl(e))
                if init_ is not None:
                    return ev_(init_, ti, oi, depth + 1)
                raise _U()
            if k_ == 'UnaryOperator' and e.get('opcode') == '!':
                return int(not ev_(e['inner'][0], ti, oi, depth + 1))
            if k_ == 'BinaryOperator' and e.get('opcode') in ('==', '!=', '&&', '||', '<', '>', '<=', '>='):
                a_ = ev_(e['inner'][0], ti, oi, depth + 1)
                if e['opcode'] == '&&' and not a_:
                    return 0
                if e['opcode'] == '||' and a_:
                    return 1
                b_ = ev_(e['inner'][1], ti, oi, depth + 1)
                return int({'==': a_ == b_, '!=': a_ != b_, '&&': bool(a_) and bool(b_), '||': bool(a_) or bool(b_), '<': a_ < b_, '>': a_ > b_, '<=': a_ <= b_, '>=': a_ >= b_}[e['opcode']])
            raise _U()
        for s in pre:
            if s.get('kind') == 'IfStmt':
                cond, then, els = if_parts(s)
                if not (_is_unordered(then) and not falls_through(then)):
                    continue
                try:
                    tt = {(ti, oi): ev_(cond, ti, oi) for ti in range(7) for oi in range(7)}
                except _U:
                    continue
                if all((not tt[(ti, oi)]) if ti == oi else (tt[(ti, oi)] or {ti, oi} == {2, 3}) for ti in range(7) for oi in range(7)):
                    mismatch_guard = True
    ctx.check(mismatch_guard, R, 'operator<=>(JSON)|kind-mismatch-unordered', main, 'different kinds (other than int/float) compare unordered before the switch', 'no `if (this_index != other_index) return unordered` dominates the switch')
    # cross int/float branches
    for s in pre:
        if s.get('kind') != 'IfStmt':
            continue
        node = s
        while node is not None and node.get('kind') == 'IfStmt':
            cond, then, els = if_parts(node)
            want = {}
            for n_, pol in atoms([Fact(cond, True, None)]):
                r = relation(n_, pol)
                if r and r[1] == '==' and int_value(r[2]) is not None:
                    who = idxvars.get((ref_decl(r[0]) or {}).get('id'))
                    if who:
                        want[who] = int_value(r[2])
            if len(want) == 2:
                gs = _get_calls(then, ('get',))
                got = {_whose_value(g): _variant_index(g) for g in gs}
                ctx.check(got == want, R, 'operator<=>(JSON)|cross-%d-%d' % (want['this.value'], want['other.value']), node,
                          'int/float cross compare reads get<%d>(this) and get<%d>(other)' % (want['this.value'], want['other.value']),
                          'branch for this_index == %d && other_index == %d reads %s' % (want['this.value'], want['other.value'], got))
            node = els if els is not None and els.get('kind') == 'IfStmt' else None
    cases = {}
    order = []
    for c in walk(sw[0]):
        if c.get('kind') == 'CaseStmt':
            k = int_value(kids(c)[0])
            cases[k] = c
            order.append(k)
    expect = {1: {1}, 2: {2, 3}, 3: {2, 3}, 4: {4}, 5: {5}, 6: {6}}
    for k in sorted(expect):
        c = cases.get(k)
        if c is None:
            continue   # reported by R4
        # statements of this case: up to the next case label that has its own body
        nxts = [cases[j] for j in order if j != k and cases[j].get('_off', 0) > c.get('_off', 0) and not any(a is c for a in ancestors(cases[j]))]
        nxt_off = min([n.get('_off', 1 << 60) for n in nxts] or [1 << 60])
        nodes = [y for y in walk(c) if y.get('_off', 0) < nxt_off or not y.get('_off')]
        gs = [g for g in _get_calls(c) if g.get('_off', 0) < nxt_off]
        used = {_variant_index(g) for g in gs}
        whose = {_whose_value(g) for g in gs}
        if k in (2,) and not gs:
            continue   # `case 2:` falling into `case 3:` shares its body
        # reading this->value directly is fine when it is read at the case's own index (the switch is on this index)
        this_ok = all(_variant_index(g) == k for g in gs if _whose_value(g) == 'this.value')
        ctx.check(bool(gs) and used <= expect[k] and whose <= {'other.value', 'this.value'} and 'other.value' in whose and this_ok, R, 'operator<=>(JSON)|case-%d-alternative' % k, c,
                  'case %d reads alternative(s) %s of other.value' % (k, sorted(used)), 'case %d (%s) reads alternative(s) %s of %s' % (k, ALT_NAMES[k], sorted(used), sorted(whose)))
        # dispatch: this->operator<=>(*p) must resolve to the comparator whose parameter is p's alternative
        for y in walk(c):
            if y.get('_off', 0) >= nxt_off:
                continue
            if y.get('kind') == 'CXXMemberCallExpr' and call_name(y) == 'operator<=>' and is_this(member_call_object(y)):
                d = callee_decl(y, u)
                pk, pidx = _param_alt(d) if d is not None else (None, None)
                ctx.check(pidx is not None and k in pidx, R, 'operator<=>(JSON)|case-%d-dispatch-%s' % (k, pk), y, 'dispatches to operator<=>(%s)' % pk,
                          'case %d (%s) dispatches to operator<=>(%s), the comparator of another alternative' % (k, ALT_NAMES[k], pk))

    # -- list: element values (not pointers) compared pairwise over the common prefix, then the sizes
    for key in ('list_type',):
        for f, idx in typed.get(key, []):
            v = params_of(f)[0]
            lab = 'operator<=>(list)'
            elem = []
            for x in walk(body_of(f)):
                if x.get('kind') == 'CXXOperatorCallExpr' and call_name(x) == 'operator<=>' and len(kids(x)) == 3:
                    ts = [norm_alt(qtype(strip(a))) for a in kids(x)[1:]]
                    if all(t.endswith('JSON') for t in ts):
                        elem.append(x)
            loops = [x for x in walk(body_of(f)) if x.get('kind') in ('ForStmt', 'WhileStmt', 'CXXForRangeStmt')]
            in_loop = [e for e in elem if any(a in loops for a in ancestors(e))]
            ok = len(in_loop) >= 1
            same_index = False
            for e in in_loop:
                subs = [[canon(call_args_op(s)[1]) for s in walk(a) if s.get('kind') == 'CXXOperatorCallExpr' and call_name(s) == 'operator[]'] for a in kids(e)[1:]]
                sides = [{'v' if any((ref_decl(z) or {}).get('id') == v['id'] for z in walk(a)) else 'stored' for _ in [0]} for a in kids(e)[1:]]
                if all(len(s) == 1 for s in subs) and subs[0] == subs[1] and sides[0] != sides[1]:
                    same_index = True
            ctx.check(ok and same_index, R, lab + '|elementwise', in_loop[0] if in_loop else f, 'stored[z] and v[z] are compared as JSON values at the same index', 'the list comparator does not compare *stored[z] with *v[z] (JSON values, same index, one from each side)')
            rets = [x for x in walk(body_of(f)) if x.get('kind') == 'ReturnStmt']
            last = rets[-1] if rets else None
            sizes = [x for x in walk(last) if x.get('kind') == 'CXXMemberCallExpr' and call_name(x) == 'size'] if last else []
            sides = {'v' if (ref_decl(member_call_object(x)) or {}).get('id') == v['id'] else 'stored' for x in sizes}
            ctx.check(len(sizes) == 2 and sides == {'v', 'stored'}, R, lab + '|then-sizes', last or f, 'after the common prefix the sizes decide', 'the list comparator does not finish by comparing the two sizes')

    # -- dict: equal sizes, every key of one side looked up in the other, values compared as JSON
    for key in ('dict_type',):
        for f, idx in typed.get(key, []):
            v = params_of(f)[0]
            lab = 'operator<=>(dict)'
            b = body_of(f)
            size_guard = False
            for s in walk(b):
                if s.get('kind') == 'IfStmt':
                    cond, then, els = if_parts(s)
                    r = relation(cond, True)
                    if r and r[1] == '!=' and all(x.get('kind') == 'CXXMemberCallExpr' and call_name(x) == 'size' for x in (strip(r[0]), strip(r[2]))) and _is_unordered(then) and not falls_through(then):
                        size_guard = True
                    # one-sided form: only "the side that is looked up in is larger than the side whose keys are
                    # walked" needs the guard - a smaller one misses a key in the loop
                    if r and r[1] in ('>', '<') and all(x.get('kind') == 'CXXMemberCallExpr' and call_name(x) == 'size' for x in (strip(r[0]), strip(r[2]))) and _is_unordered(then) and not falls_through(then):
                        big, small = (r[0], r[2]) if r[1] == '>' else (r[2], r[0])
                        bigo, smallo = canon(member_call_object(strip(big))), canon(member_call_object(strip(small)))
                        walked = [canon(kids(x_)[-2] if False else x_) for x_ in []]
                        rf = [x_ for x_ in walk(b) if x_.get('kind') == 'CXXForRangeStmt']
                        walked_objs = set()
                        for x_ in rf:
                            for y_ in walk(x_):
                                if y_.get('kind') == 'VarDecl' and (y_.get('name') or '').startswith('__range') and kids(y_):
                                    walked_objs.add(canon(kids(y_)[-1]))
                        looked = {canon(member_call_object(c_)) for c_ in walk(b) if c_.get('kind') == 'CXXMemberCallExpr' and call_name(c_) in ('at', 'find', 'count') and any(any(z_ is c_ for z_ in walk(x_)) for x_ in rf)}
                        if smallo in walked_objs and bigo in looked and s.get('_off', 0) < min(x_.get('_off', 0) for x_ in rf):
                            size_guard = True
            ctx.check(size_guard, R, lab + '|size-guard', f, 'different sizes compare unordered', 'the dict comparator has no `sizes differ -> unordered` guard: a dict would equal any superset of itself')
            loops = [x for x in walk(b) if x.get('kind') == 'CXXForRangeStmt']
            lookups = [x for x in walk(b) if x.get('kind') == 'CXXMemberCallExpr' and call_name(x) in ('at', 'find') and any(a in loops for a in ancestors(x))]
            vals = []
            for x in walk(b):
                if x.get('kind') == 'CXXOperatorCallExpr' and call_name(x) == 'operator<=>' and len(kids(x)) == 3 and all(norm_alt(qtype(strip(a))).endswith('JSON') for a in kids(x)[1:]) and any(a in loops for a in ancestors(x)):
                    vals.append(x)
            ctx.check(len(loops) == 1 and bool(lookups) and bool(vals), R, lab + '|per-key', loops[0] if loops else f, 'every key is looked up on the other side and the values are compared as JSON values',
                      'the dict comparator does not look every key up on the other side and compare the values (loops=%d lookups=%d value-compares=%d)' % (len(loops), len(lookups), len(vals)))
            # a value mismatch or a missing key yields unordered; falling out of the loop yields equivalent
            mism = False
            for x in vals:
                st = enclosing(x, ('IfStmt',))
                if st is not None:
                    cond, then, els = if_parts(st)
                    if any(y is x for y in walk(cond)) and _is_unordered(then):
                        mism = True
                hv = enclosing(x, ('VarDecl',))
                if hv is not None and enclosing(x, ('IfStmt',)) is not enclosing(hv, ('IfStmt',)):
                    hv = None
                if hv is not None:
                    # the verdict is held in a local and tested by a later `if`
                    for st in walk(b):
                        if st.get('kind') == 'IfStmt':
                            cond, then, els = if_parts(st)
                            c0 = strip(cond)
                            ne = (c0.get('kind') == 'CXXOperatorCallExpr' and call_name(c0) == 'operator!=') or (c0.get('kind') == 'BinaryOperator' and c0.get('opcode') == '!=') or \
                                 (c0.get('kind') in ('CXXRewrittenBinaryOperator', 'UnaryOperator') and '!=' in src_text(c0, 200) and '==' not in src_text(c0, 200).replace('!=', ''))
                            refs = any(y.get('kind') == 'DeclRefExpr' and (y.get('referencedDecl') or {}).get('id') == hv['id'] for y in walk(cond))
                            eqv = any(y.get('kind') == 'DeclRefExpr' and (y.get('referencedDecl') or {}).get('name') == 'equivalent' for y in walk(cond))
                            if ne and refs and eqv and _is_unordered(then):
                                mism = True
            rets = [x for x in walk(b) if x.get('kind') == 'ReturnStmt']
            last_eq = bool(rets) and any(y.get('kind') == 'DeclRefExpr' and (y.get('referencedDecl') or {}).get('name') == 'equivalent' for y in walk(rets[-1])) and rets[-1].get('_p') is b
            ctx.check(mism and last_eq, R, lab + '|verdicts', f, 'value mismatch -> unordered; all keys matched -> equivalent', 'the dict comparator does not return unordered on a value mismatch and equivalent only after every key matched')


def call_args_op(x):
    """operands of a CXXOperatorCallExpr (callee excluded)."""
    return kids(x)[1:]


def split_targs(t):
    i = t.find('<')
    if i < 0:
        return []
    body = t[i + 1:t.rfind('>')]
    out, depth, cur = [], 0, ''
    for ch in body:
        if ch == '<':
            depth += 1
        elif ch == '>':
            depth -= 1
        if ch == ',' and depth == 0:
            out.append(cur.strip())
            cur = ''
        else:
            cur += ch
    if cur.strip():
        out.append(cur.strip())
    return out


def norm_alt(t):
    t = (t or '').replace('const ', '').replace('&', '').replace('class ', '').replace('struct ', '').strip()
    t = t.replace('std::nullptr_t', 'nullptr_t').replace('decltype(nullptr)', 'nullptr_t')
    t = re.sub(r'\s+', '', t)
    t = t.replace('std::__cxx11::', 'std::')
    return t
