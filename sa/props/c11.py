"""C11 - base64, rot13, escapers (decided part: base64 bit layout vs RFC 4648 by
lane maps, validation coverage, alphabets, inverse-table freshness; rot13 and the
three escapers evaluated exhaustively over the 256 byte values on the extracted
chains).  netloc round trip is a value question and is not decided."""
from ast_ import *
from path import *
from bits import *
from tables import *


def sextet_spec(which):
    """RFC 4648: 24 input bits (c1,c2,c3 MSB first) -> four 6-bit groups; cells LSB first"""
    def bit(k):   # k-th bit of the 24-bit group, 0 = MSB of c1
        byte, b = divmod(k, 8)
        return ('i', 'c%d' % (byte + 1), 7 - b)
    out = []
    for j in range(6):     # LSB first
        out.append(bit(which * 6 + (5 - j)))
    return out


def byte_spec(which):
    """inverse: byte `which` (0..2) from sextets s1..s4 (6-bit symbols c1..c4)"""
    def bit(k):   # k-th bit of the 24-bit group, 0 = MSB
        s, b = divmod(k, 6)
        return ('i', 'c%d' % (s + 1), 5 - b)
    return [bit(which * 8 + (7 - j)) for j in range(8)]


def run(ctx):
    ctx.rule('C11-R1', 'base64 bit layout: encoder executed abstractly for every input length 0..7 (each character = alphabet[RFC 4648 sextet] or padding), decoder bytes equal RFC 4648 for the full block and both tails (lane maps, all byte values at once); indices < 64; alphabets are 64 distinct characters without \'=\'; the inverse table is rebuilt fresh with every entry invalid', 12)
    ctx.rule('C11-R2', 'base64 validation: every symbol used in an output is tested >= 0x40 in the guard dominating the output; size & 3 rejected before the loop; pad in the 4th place only in the last block; only invalid_argument is thrown', 10)
    ctx.rule('C11-R3', 'rot13 evaluated for all 256 byte values: ASCII letters rotate by 13 within their case, every other byte is unchanged (hence an involution)', 256)
    ctx.rule('C11-R4', 'escape_url / escape_quotes / escape_controls evaluated for all 256 byte values (and flag values): output is a raw permitted byte or the escape that decodes to the byte; no raw quote / control / DEL', 1000)
    ctx.rule('C11-R6', 'base64 by evaluation (E-TABLE): decode of every string of length 0..5 over {valid, pad, invalid} characters and of 8-character strings, encode of all single bytes / byte pairs / tuples, both alphabets, against RFC 4648 (python base64 + reference decoder); rejected inputs throw invalid_argument', 1)
    ctx.rule('C11-R5', 'netloc: parse_netloc(render_netloc(host, port)) == (host, port), evaluated (E-TABLE) for colon-free hosts and every port 0..65535 in the thorough tier (boundary + strided ports in the quick tier)', 1)
    u = ctx.unit(repo_unit('Encoding.cc'))
    us = ctx.unit(repo_unit('Strings.cc'))
    I = TableEval(u)
    enc = [f for f in u.func('phosg::base64_encode') if len(params_of(f)) == 3][0]
    dec = [f for f in u.func('phosg::base64_decode') if len(params_of(f)) == 3][0]
    for f in (enc, dec):
        check_no_goto(f)
        ctx.fn(u.qualname(f))

    # ---------------- R1 encoder
    with ctx.section('C11-R1', 'C11'):
        R = 'C11-R1'
        ebody = body_of(enc)
        # The encoder is executed abstractly (bit provenance, nothing is run) for every input length
        # 0..7 with symbolic data bytes: control flow depends only on the length, so each run is a
        # straight line; every emitted character must be alphabet[RFC 4648 sextet] or '=' in the RFC's
        # positions.  Any restructuring of the tail handling is accepted as long as this holds.
        eps = params_of(enc)
        rets_ = [r_ for r_ in walk(ebody) if r_.get('kind') == 'ReturnStmt' and kids(r_)]
        sink_rd = None
        for r_ in rets_:
            for y_ in walk(r_):
                if y_.get('kind') == 'DeclRefExpr' and (y_.get('referencedDecl') or {}).get('kind') == 'VarDecl':
                    sink_rd = y_['referencedDecl']
        ctx.require(sink_rd is not None, 'base64_encode: returned string variable not found')
        X = BVExec(u)
        for n in range(0, 33 if ctx.tier == 'thorough' else 8):
            env0 = {eps[0]['id']: Ptr('D', '0', 0), eps[1]['id']: const_bv(n, 64), eps[2]['id']: Ptr('A', '0', 0), ('vec', sink_rd.get('name')): []}
            X.notes = []
            try:
                X.run([ebody], env0, 0)
            except Unsupported as e:
                ctx.undecided(R, 'encode|length-%d' % n, enc, 'base64_encode is outside the supported statement forms (%s)' % e)
                continue
            except Exception as e:
                if e.__class__.__name__ != '_Ret':
                    raise
            out = env0[('vec', sink_rd.get('name'))]
            want = []
            for blk in range((n + 2) // 3):
                k = blk * 3
                have = min(3, n - k)
                for j in range(4):
                    if j <= have:
                        cells = []
                        for t in range(6):     # LSB first
                            bitpos = j * 6 + (5 - t)      # 0 = MSB of the 24-bit group
                            byte, bb = divmod(bitpos, 8)
                            cells.append(('i', ('mem', 'D', '0', k + byte), 7 - bb) if byte < have else 0)
                        want.append(tab_cells('A', 0, cells, 8))
                    else:
                        want.append(const_bv(ord('='), 8).b)
            okn = len(out) == len(want)
            why = 'emits %d characters for %d input bytes, RFC 4648 requires %d' % (len(out), n, len(want))
            if okn:
                for j, (g, w_) in enumerate(zip(out, want)):
                    if list(g.b[:8]) != list(w_):
                        pad = w_ == const_bv(ord('='), 8).b
                        okn, why = False, 'character %d for a %d-byte input must be %s; the function emits %s' % (
                            j, n, "the padding '='" if pad else 'alphabet[the RFC 4648 sextet of the input bits]',
                            "'%s'" % chr(bv_const(g)) if bv_const(g) is not None else ('a value that depends on the VALUE of an input byte' if T in g.b else 'alphabet[a different bit selection]: %s' % cell_str(g.b[0])))
                        break
            if okn and X.notes:
                okn, why = False, X.notes[0]
            ctx.check(okn, R, 'encode|length-%d' % n, enc, '%d input bytes -> %d characters, each alphabet[RFC 4648 sextet] or padding' % (n, len(want)), why)
    # ---------------- R6 base64 by evaluation (E-TABLE) over the property's own finite domain
    with ctx.section('C11-R6', 'C11'):
        R = 'C11-R6'
        import base64 as _b64
        from peval import PEval as _PE6, Str as _S6, Lit as _L6, Undecided as _U6, Fault as _F6, Thrown as _T6
        P6 = _PE6([u], max_depth=8)
        STD = b'ABCDEFGHIJKLMNOPQRSTUVWXYZabcdefghijklmnopqrstuvwxyz0123456789+/'
        URL = STD[:62] + b'-_'
        r6 = {'ok': 0, 'bad': None, 'und': None}

        def ref_decode(txt, alpha):
            if len(txt) % 4:
                return None
            out = bytearray()
            for i_ in range(0, len(txt), 4):
                blk = txt[i_:i_ + 4]
                last = i_ + 4 == len(txt)
                npad = 2 if blk[2:] == b'==' else 1 if blk[3:] == b'=' else 0
                if npad and not last:
                    return None
                body_ = blk[:4 - npad]
                if any(c_ not in alpha for c_ in body_):
                    return None
                v = 0
                for c_ in body_:
                    v = (v << 6) | alpha.index(c_)
                v <<= 6 * npad
                out += v.to_bytes(3, 'big')[:3 - npad]
            return bytes(out)

        def one_dec(txt, alpha, alpha_arg):
            if r6['und']:
                return
            want = ref_decode(txt, alpha)
            try:
                got = P6.call_with(dec, [_L6(txt), len(txt), alpha_arg])
                got = bytes(got.b) if isinstance(got, _S6) else ('?', got)
                thrown = None
            except _T6 as e_:
                got, thrown = None, e_
            except _F6 as e_:
                r6['bad'] = r6['bad'] or ('decode', txt, 'evaluation faults: %s' % e_, None)
                return
            except _U6 as e_:
                r6['und'] = str(e_)
                return
            if want is None:
                if thrown is None:
                    r6['bad'] = r6['bad'] or ('decode', txt, 'is accepted and decodes to %r; it must be rejected with invalid_argument' % (got,), None)
                elif thrown.node is not None and not any('invalid_argument' in (dtype(kids(t_)[0]) or '') for t_ in walk(thrown.node) if t_.get('kind') == 'CXXThrowExpr' and kids(t_)):
                    r6['bad'] = r6['bad'] or ('decode', txt, 'is rejected with %s, not invalid_argument' % [dtype(kids(t_)[0]) for t_ in walk(thrown.node) if t_.get('kind') == 'CXXThrowExpr' and kids(t_)], thrown.node)
                else:
                    r6['ok'] += 1
            elif thrown is not None:
                r6['bad'] = r6['bad'] or ('decode', txt, 'is valid base64 for %r but is rejected' % want, thrown.node)
            elif got != want:
                r6['bad'] = r6['bad'] or ('decode', txt, 'decodes to %r; RFC 4648 gives %r' % (got, want), None)
            else:
                r6['ok'] += 1

        def one_enc(data, alpha, alpha_arg):
            if r6['und']:
                return
            want = _b64.b64encode(data, altchars=alpha[62:]) if alpha is not STD else _b64.b64encode(data)
            try:
                got = P6.call_with(enc, [_L6(data), len(data), alpha_arg])
                got = bytes(got.b) if isinstance(got, _S6) else None
            except (_T6, _F6) as e_:
                r6['bad'] = r6['bad'] or ('encode', data, 'evaluation throws / faults: %s' % e_, None)
                return
            except _U6 as e_:
                r6['und'] = str(e_)
                return
            if got != want:
                r6['bad'] = r6['bad'] or ('encode', data, 'encodes to %r; RFC 4648 gives %r' % (got, want), None)
            else:
                r6['ok'] += 1
            one_dec(want, alpha, alpha_arg)
        import itertools as _it
        for alpha, arg in ((STD, None), (URL, _L6(URL + b'\0'))):
            red = [alpha[0], alpha[16], alpha[63], ord('='), ord('!')] + ([ord('-')] if alpha is STD else [ord('+')])
            for n_ in (0, 1, 2, 3, 4):
                for t_ in _it.product(red, repeat=n_):
                    one_dec(bytes(t_), alpha, arg)
            for t_ in (b'AAAAA', b'AAAAAA', b'AAAAAAA', b'AAAA=', b'AAAAAA==A'):
                one_dec(t_, alpha, arg)
            if ctx.tier == 'thorough' and alpha is STD:
                for t_ in _it.product([alpha[0], alpha[63], ord('='), ord('!')], repeat=8):
                    one_dec(bytes(t_), alpha, arg)
            else:
                four = [alpha[5], alpha[63], ord('='), ord('!')]
                good = bytes([alpha[20], alpha[1], alpha[9], alpha[30]])
                for t_ in _it.product(four, repeat=4):
                    one_dec(bytes(t_) + good, alpha, arg)
                    one_dec(good + bytes(t_), alpha, arg)
            for b_ in range(256):
                one_enc(bytes([b_]), alpha, arg)
            one_enc(b'', alpha, arg)
            vals = range(256) if ctx.tier == 'thorough' and alpha is STD else (0, 1, 0x3F, 0x40, 0x7F, 0x80, 0xFB, 0xFC, 0xFE, 0xFF)
            for a_ in vals:
                for b_ in vals:
                    one_enc(bytes([a_, b_]), alpha, arg)
            for t_ in _it.product((0, 0x3F, 0x80, 0xFB, 0xFF), repeat=3):
                one_enc(bytes(t_), alpha, arg)
            for t_ in _it.product((0, 0xFF, 0x3E), repeat=5):
                one_enc(bytes(t_), alpha, arg)
        if r6['und']:
            ctx.undecided(R, 'base64|evaluated', dec, 'base64_encode / base64_decode could not be evaluated (%s)' % r6['und'])
        elif r6['bad']:
            ctx.bad(R, 'base64|evaluated', r6['bad'][3] or (dec if r6['bad'][0] == 'decode' else enc), 'base64 %s of %r %s' % (r6['bad'][0], r6['bad'][1], r6['bad'][2]))
        else:
            ctx.ok(R, 'base64|evaluated', dec, '%d encode / decode cases agree with RFC 4648 (python base64 and a reference decoder): every string of length 0..5 over {valid, pad, invalid} characters, 8-character strings, all single bytes, byte pairs and tuples, both alphabets' % r6['ok'])
        r6_decides = not r6['und'] and not r6['bad']
        R = 'C11-R1'
        deferred = []

        class _Shape(Exception):
            pass

        def need(cond, msg):
            if not cond:
                raise _Shape(msg)

        def decoder_structure():
            R = 'C11-R1'
            # decoder
            dbody = body_of(dec)
            dpush = [c for c in walk(dbody) if c.get('kind') == 'CXXMemberCallExpr' and call_name(c) == 'push_back' and canon(member_call_object(c)) == 'ret']
            need(len(dpush) == 6, 'base64_decode: expected 6 output sites, found %d' % len(dpush))
            syms = {}
            for v in walk(dbody):
                if v.get('kind') == 'VarDecl' and v.get('name') in ('c1', 'c2', 'c3', 'c4') and kids(v):
                    syms[v['name']] = v
            need(len(syms) == 4, 'base64_decode: symbol variables c1..c4 not found')
            env = {v['id']: sym_bv(nm, 8, False, free_bits=6) for nm, v in syms.items()}
            by_blk = {}
            for p in dpush:
                by_blk.setdefault(id(enclosing(p, ('CompoundStmt',))), []).append(p)
            for ps in by_blk.values():
                nout = len(ps)
                label = {3: 'full', 2: 'pad1', 1: 'pad2'}[nout]
                for j, p in enumerate(ps):
                    I.notes = []
                    v = I.eval(call_args(p)[0], env)
                    v8 = BV(8, v.b[:8])
                    bad = expect_lanes(v8, byte_spec(j))
                    ctx.check(not bad, R, 'decode|%s|byte%d' % (label, j), p, 'byte %d = RFC 4648 bits of the sextets' % j, 'output byte %d of the %s branch: %s' % (j, label, describe_mismatch(bad)))
            # alphabets
            for nm in ('DEFAULT_ALPHABET', 'URLSAFE_ALPHABET'):
                vd = next((v for v in u.by_id.values() if v.get('kind') == 'VarDecl' and v.get('name') == nm and kids(v)), None)
                lit = string_lit(next((x for x in walk(vd) if x.get('kind') == 'StringLiteral'), {})) if vd is not None else None
                ok = lit is not None and len(lit) == 64 and len(set(lit)) == 64 and ord('=') not in lit and all(c < 128 for c in lit)
                ok = ok and lit[:62] == b'ABCDEFGHIJKLMNOPQRSTUVWXYZabcdefghijklmnopqrstuvwxyz0123456789' and lit[62:] == (b'+/' if nm.startswith('DEFAULT') else b'-_')
                ctx.check(ok, R, 'alphabet|' + nm, vd or enc, '64 distinct ASCII characters, RFC 4648 order, no \'=\'', 'alphabet %s is %r' % (nm, lit))
            inv = next((v for v in walk(dbody) if v.get('kind') == 'VarDecl' and 'inverse' in (v.get('name') or '')), None)
            okf = inv is not None and not inv.get('storageClass') and not inv.get('tls')
            if inv is not None and not okf:
                # a cached table is acceptable when the rebuild resets all 256 entries to invalid right before refilling
                for c in walk(dbody):
                    if c.get('kind') == 'CXXMemberCallExpr' and call_name(c) in ('assign',) and canon(member_call_object(c)) == inv.get('name'):
                        a = call_args(c)
                        if len(a) == 2 and int_value(a[0]) == 0x100 and (int_value(a[1]) or 0) & 0xFF == 0xFF:
                            okf = 'reset'
                    if c.get('kind') == 'CallExpr' and call_name(c) in ('memset',) and inv.get('name') in canon(call_args(c)[0]) and (int_value(call_args(c)[1]) or 0) & 0xFF == 0xFF and int_value(call_args(c)[2]) == 0x100:
                        okf = 'reset'
            if okf is True:
                ce = next((x for x in walk(inv) if x.get('kind') == 'CXXConstructExpr'), None)
                a = [x for x in kids(ce) if x.get('kind') != 'CXXDefaultArgExpr'] if ce is not None else []
                okf = len(a) >= 2 and int_value(a[0]) == 0x100 and (int_value(a[1]) or 0) & 0xFF == 0xFF
            ctx.check(bool(okf), R, 'inverse-table|fresh', inv or dec, 'a fresh 256-entry table, every entry 0xFF (invalid), per call',
                      'the inverse table is %s: entries from a previous alphabet stay valid, so characters outside the requested alphabet are accepted' % ('static/thread_local (%s %s)' % (inv.get('storageClass'), inv.get('tls')) if inv is not None and (inv.get('storageClass') or inv.get('tls')) else 'not initialised to all-invalid'))
            fills = [x for x in walk(dbody) if x.get('kind') in ('BinaryOperator', 'CXXOperatorCallExpr') and 'inverse_alphabet[' in canon(x) and (x.get('opcode') == '=' or call_name(x) == 'operator=')]
            fl = next((lp for lp in walk(dbody) if lp.get('kind') == 'ForStmt' and any(x in fills for x in walk(lp))), None)
            okl = fl is not None and nf(for_parts(fl)[2]) == '(x < 64)' and int_value(kids(next(v for v in walk(for_parts(fl)[0]) if v.get('kind') == 'VarDecl'))[-1]) == 0
            padset = [x for x in fills if "inverse_alphabet[61]" in canon(x) or "inverse_alphabet['=']" in canon(x)]
            okp = any((int_value(x['inner'][1]) if x.get('kind') == 'BinaryOperator' else int_value(x['inner'][2])) is not None and ((int_value(x['inner'][1]) if x.get('kind') == 'BinaryOperator' else int_value(x['inner'][2])) & 0xFF) == 0x80 for x in padset)
            ctx.check(okl and okp, R, 'inverse-table|fill', fl or dec, 'table[alphabet[x]] = x for x < 64; table[\'=\'] = 0x80', 'inverse table construction changed')

            # ---------------- R2 validation
            R = 'C11-R2'
            for ps in by_blk.values():
                nout = len(ps)
                label = {3: 'full', 2: 'pad1', 1: 'pad2'}[nout]
                for j, p in enumerate(ps):
                    used = {nm for nm, v in syms.items() if any((ref_decl(x) or {}).get('id') == v['id'] for x in walk(call_args(p)[0]))}
                    have = set()
                    for n_, pol in atoms(path_facts(p)):
                        r = relation(n_, pol)
                        if r and ref_decl(r[0]) and int_value(r[2]) is not None:
                            nm = ref_decl(r[0]).get('name')
                            c = int_value(r[2])
                            if (r[1] == '<' and c <= 0x40) or (r[1] == '<=' and c < 0x40):
                                have.add(nm)
                    miss = sorted(used - have)
                    ctx.check(not miss, R, 'validated|%s|byte%d' % (label, j), p, 'symbols %s all tested < 0x40 before use' % sorted(used),
                              'output byte %d of the %s branch uses %s without a dominating `>= 0x40` test: an invalid character (0xFF) or a pad (0x80) in that position is decoded silently' % (j, label, miss))
            thr = [t for t in walk(dbody) if t.get('kind') == 'CXXThrowExpr']
            ctx.check(thr and all('invalid_argument' in (dtype(kids(t)[0]) or '') for t in thr), R, 'throws|invalid_argument-only', dec, '%d throw sites, all invalid_argument' % len(thr), 'base64_decode throws %s' % sorted({dtype(kids(t)[0]) for t in thr if kids(t)}))
            main_loop = next(lp for lp in walk(dbody) if lp.get('kind') == 'ForStmt' and any(x in dpush for x in walk(lp)))
            sz = [s for s in preceding_statements(main_loop) if s.get('kind') == 'IfStmt' and nf(if_parts(s)[0]) in ('(3 & size)', '(size & 3)', '((size & 3) != 0)', '((size % 4) != 0)', '(size % 4)') and not falls_through(if_parts(s)[1])]
            ctx.check(len(sz) == 1, R, 'length|multiple-of-4', sz[0] if sz else dec, 'size & 3 rejected before decoding', 'the length check `size & 3` no longer dominates the decode loop')
            # pad in 4th position only in the last block; pad in 3rd only together with the 4th
            padc = [x for x in walk(loop_body(main_loop)) if x.get('kind') == 'IfStmt' and nf(if_parts(x)[0]) in ('(128 == c4)', '(c4 == 128)')]
            okp = len(padc) == 1
            if okp:
                then = if_parts(padc[0])[1]
                first = stmts_of(then)[0]
                okp = first.get('kind') == 'IfStmt' and nf(if_parts(first)[0]) in ('((end_offset - 4) != offset)', '(offset != (end_offset - 4))') and not falls_through(if_parts(first)[1])
                c3t = [x for x in walk(loop_body(main_loop)) if x.get('kind') == 'IfStmt' and nf(if_parts(x)[0]) in ('(128 == c3)', '(c3 == 128)')]
                okp = okp and len(c3t) == 1 and any(a is then for a in ancestors(c3t[0]))
            if okp:
                ctx.ok(R, 'padding|placement', padc[0] if padc else dec, 'pad in 4th place only in the last block; pad in 3rd place only inside the 4th-place-pad branch')
            else:
                deferred.append((R, 'padding|placement', padc[0] if padc else dec, 'the padding tests are not written as `if (c4 == 0x80) { if (offset != end_offset - 4) throw ...; if (c3 == 0x80) ...`', 'padding placement rule changed'))
            eo = next((v for v in walk(dbody) if v.get('kind') == 'VarDecl' and v.get('name') == 'end_offset'), None)
            if eo is not None and nf(kids(eo)[-1]) in ('(size & -4)', '(-4 & size)', '(size & ~3)', '(~3 & size)', 'size'):
                ctx.ok(R, 'blocks|all', eo, 'every 4-character block is decoded')
            else:
                deferred.append((R, 'blocks|all', eo or dec, 'the block loop bound is %s' % (nf(kids(eo)[-1]) if eo else None), 'end_offset is %s' % (nf(kids(eo)[-1]) if eo else None)))


        n_before = len(ctx.obs)
        try:
            decoder_structure()
        except (_Shape, StopIteration) as e_:
            if r6_decides:
                ctx.undecided('C11-R2', 'decoder|structure', dec, 'the decoder is not written in the shape the structural rules read (%s): its behaviour is decided by evaluation (C11-R6)' % (e_ or 'anchor statement missing'))
                ctx.rules['C11-R2'] = (ctx.rules['C11-R2'][0], 0)      # the instances of the structural rule are exactly what was deferred
                ctx.rules['C11-R1'] = (ctx.rules['C11-R1'][0], 5)
            else:
                raise AnalysisBroken(str(e_))
        # structural mismatches are violations only when the evaluation cannot vouch for the behaviour
        for R_, key_, node_, why_, bad_ in deferred:
            if r6_decides:
                ctx.undecided(R_, key_, node_, why_ + ': the behaviour is decided by evaluation (C11-R6)')
            else:
                ctx.bad(R_, key_, node_, bad_)

    # ---------------- R3 rot13
    with ctx.section('C11-R3', 'C11'):
        R = 'C11-R3'
        rot = [f for f in u.func('phosg::rot13') if len(params_of(f)) == 2][0]
        ctx.fn('phosg::rot13')
        from peval import PEval
        PE = PEval([u])
        PEs = PEval([us])
        lp = rot
        for b in range(256):
            em, why_ = fold_per_byte(PE, rot, b, [], 'rot13', lit_arg=True)
            if 97 <= b <= 122:
                want = 97 + (b - 97 + 13) % 26
            elif 65 <= b <= 90:
                want = 65 + (b - 65 + 13) % 26
            else:
                want = b
            ctx.check(em == bytes([want]), R, 'rot13|0x%02X' % b, lp, '0x%02X -> 0x%02X' % (b, want), why_ or 'rot13 maps byte 0x%02X to %s, expected 0x%02X (%s)' % (b, em.hex() if em is not None else 'an undecidable result', want, 'only ASCII letters may change' if want == b else 'letters rotate by 13 within their case'), nontrivial=(want != b or b in (64, 91, 96, 123, 0xC1, 0xE1)))

    # ---------------- R4 escapers
    with ctx.section('C11-R4', 'C11'):
        R = 'C11-R4'
        Is = TableEval(us)

        def unescape_pct(t):
            if len(t) == 1 and t != b'%':
                return t[0]
            if len(t) == 3 and t[0:1] == b'%' and all(c in b'0123456789ABCDEF' for c in t[1:]):
                return int(t[1:].decode(), 16)
            return None

        def unescape_c(t):
            named = {b'\\"': 34, b"\\'": 39, b'\\\\': 92, b'\\t': 9, b'\\r': 13, b'\\n': 10, b'\\f': 12, b'\\b': 8, b'\\a': 7, b'\\v': 11}
            if t in named:
                return named[t]
            if len(t) == 4 and t[:2] == b'\\x' and all(c in b'0123456789ABCDEF' for c in t[2:]):
                return int(t[2:].decode(), 16)
            if len(t) == 1 and t not in (b'\\',):
                return t[0]
            return None
        # escape_url
        f = us.func('phosg::escape_url')[0]
        ctx.fn('phosg::escape_url')
        lp = f
        for fl_ in (0, 1):
            for b in range(256):
                em, why_ = fold_per_byte(PEs, f, b, [fl_], 'escape_url')
                raw_ok = (48 <= b <= 57 or 65 <= b <= 90 or 97 <= b <= 122 or b in b'-_.~=&' or (b == 47 and not fl_))
                ok = em is not None and unescape_pct(em) == b and ((len(em) == 1) == raw_ok)
                ctx.check(ok, R, 'escape_url|slash=%d|0x%02X' % (fl_, b), lp, '%r' % (em.decode('latin1') if em else None),
                          why_ or 'escape_url(escape_slash=%d) renders byte 0x%02X as %r; expected %s' % (fl_, b, em.decode('latin1') if em is not None else None, 'the raw character' if raw_ok else '%%%02X' % b), nontrivial=not raw_ok or b in (45, 47, 95))
        # escape_quotes
        f = us.func('phosg::escape_quotes')[0]
        ctx.fn('phosg::escape_quotes')
        lp = f
        for b in range(256):
            em, why_ = fold_per_byte(PEs, f, b, [], 'escape_quotes')
            raw_allowed = 0x20 <= b <= 0x7E and b != 34
            # the property only requires: no raw quote, no raw non-printable byte (a raw backslash is permitted)
            ok = em is not None and ((len(em) == 1 and em[0] == b and raw_allowed) or (len(em) > 1 and unescape_c(em) == b))
            ctx.check(ok, R, 'escape_quotes|0x%02X' % b, lp, '%r' % (em.decode('latin1') if em else None),
                      why_ or 'escape_quotes renders byte 0x%02X as %r: %s' % (b, em.decode('latin1') if em is not None else None, 'a raw quote or non-printable byte is emitted' if em is not None and len(em) == 1 else 'the escape does not decode to the byte'), nontrivial=not raw_allowed)
        # escape_controls
        f = us.func('phosg::escape_controls')[0]
        ctx.fn('phosg::escape_controls')
        lp = f
        for fl_ in (0, 1):
            for b in range(256):
                em, why_ = fold_per_byte(PEs, f, b, [fl_], 'escape_controls')
                raw_allowed = (0x20 <= b <= 0x7E and b not in (34, 39, 92)) or (b >= 0x80 and not fl_)
                ok = em is not None and unescape_c(em) == b and (len(em) > 1 or raw_allowed)
                ctx.check(ok, R, 'escape_controls|non_ascii=%d|0x%02X' % (fl_, b), lp, '%r' % (em.decode('latin1') if em else None),
                          why_ or 'escape_controls(escape_non_ascii=%d) renders byte 0x%02X as %r: %s' % (fl_, b, em.decode('latin1') if em is not None else None, 'a raw control / DEL / quote / backslash byte is emitted' if em is not None and len(em) == 1 else 'the escape does not decode to the byte'), nontrivial=not raw_allowed)
    # ---------------- R5 netloc round trip, evaluated for every port (E-TABLE; the host only passes
    with ctx.section('C11-R5', 'C11'):
        # through find(':') / substr, so one colon-free host per length class stands for all of them)
        R = 'C11-R5'
        un = ctx.unit(repo_unit('Network.cc'))
        rn = [f_ for f_ in un.func('phosg::render_netloc') if body_of(f_) is not None]
        pn = [f_ for f_ in un.func('phosg::parse_netloc') if body_of(f_) is not None]
        ctx.require(len(rn) == 1 and len(pn) == 1, 'render_netloc / parse_netloc not found')
        ctx.fn('phosg::render_netloc')
        ctx.fn('phosg::parse_netloc')
        from peval import PEval, Str as PStr, Undecided as PUnd, Fault as PFault, Thrown as PThrown
        PN = PEval([un, us], max_depth=8)
        ports = list(range(0, 65536)) if ctx.tier == 'thorough' else sorted(set([0, 1, 2, 9, 10, 11, 99, 100, 101, 255, 256, 999, 1000, 1001, 9999, 10000, 32767, 32768, 65534, 65535] + list(range(7, 65536, 251))))
        hosts = [b'h', b'example.com']
        n_ok = 0
        first_bad = None
        und = None
        for host in hosts:
            for port in ports:
                try:
                    txt = PN.call_with(rn[0], [PStr(host), port])
                    got = PN.call_with(pn[0], [txt, 0])
                except PThrown as e_:
                    first_bad = first_bad or (host, port, 'parse_netloc(render_netloc(...)) throws: %s' % e_, e_.node)
                    continue
                except PFault as e_:
                    first_bad = first_bad or (host, port, 'evaluation faults: %s' % e_, None)
                    continue
                except PUnd as e_:
                    und = str(e_)
                    break
                ok_ = isinstance(got, tuple) and got[0] == 'pair' and isinstance(got[1], PStr) and bytes(got[1].b) == host and got[2] == port
                if ok_:
                    n_ok += 1
                else:
                    first_bad = first_bad or (host, port, 'it renders %r and parses back to %r' % (bytes(txt.b).decode('latin1') if isinstance(txt, PStr) else txt, (bytes(got[1].b).decode('latin1'), got[2]) if isinstance(got, tuple) and len(got) == 3 and isinstance(got[1], PStr) else got), None)
            if und:
                break
        if und:
            ctx.undecided(R, 'netloc|round-trip', pn[0], 'render_netloc / parse_netloc could not be evaluated (%s)' % und)
        elif first_bad:
            ctx.bad(R, 'netloc|round-trip', first_bad[3] or pn[0], 'netloc round trip fails for (%r, %d): %s' % (first_bad[0].decode(), first_bad[1], first_bad[2]))
        else:
            ctx.ok(R, 'netloc|round-trip', pn[0], 'parse_netloc(render_netloc(host, port)) == (host, port) for %d (host, port) pairs (%s ports)' % (n_ok, 'all 65536' if ctx.tier == 'thorough' else 'boundary and strided'))
    ctx.note('R3 and R4 are exhaustive over the 256 byte values (x flag values) on the extracted chains. R5 evaluates the netloc round trip for every port in the thorough tier (boundary + strided ports in the quick tier).')


def fold_per_byte(PE, f, b, extra, what, lit_arg=False):
    """text f produces for the one-byte input [b] (whole function partially evaluated on the constant
    input; helpers, switch, std::transform folded) -> (bytes, None) | (None, reason for a violation)"""
    from peval import Str, Lit, Undecided, Fault
    try:
        if lit_arg:
            r = PE.call_with(f, [Lit(bytes([b])), 1] + list(extra))
            r2 = PE.call_with(f, [Lit(bytes([0x41, b])), 2] + list(extra))
        else:
            r = PE.call_with(f, [Str(bytes([b]))] + list(extra))
            r2 = PE.call_with(f, [Str(bytes([0x41, b]))] + list(extra))
    except Undecided as e:
        raise AnalysisBroken('%s: cannot fold the function on the constant byte 0x%02X (%s)' % (what, b, e))
    except Fault as e:
        return None, 'for byte 0x%02X %s %s' % (b, what, e)
    if not isinstance(r, Str) or not isinstance(r2, Str):
        raise AnalysisBroken('%s does not evaluate to a string for byte 0x%02X' % (what, b))
    a = bytes(r2.b)
    rb = bytes(r.b)
    if not (a.endswith(rb) and len(a) - len(rb) >= 1):
        return None, 'the text for byte 0x%02X depends on its position (%r alone, %r after "A")' % (b, rb, a)
    return rb, None


def describe_emit(g):
    if g[0] == 'lit':
        return 'the constant %r' % chr(g[1])
    if g[0] == 'tab':
        return '%s[...]' % g[1]
    if g[0] == 'ite':
        return 'a character chosen by the VALUE of an input byte (`%s`)' % g[1]
    return str(g[0])


def emit_exec(I, stmts, env, out, sink):
    """Abstract straight-line execution of an encoder: integer locals live in env, calls
    `sink.push_back(e)` are recorded in out as ('lit', c, node) / ('tab', table, indexBV, node) /
    ('ite', condition text, node).  Loops and ifs must have constant conditions (they do once the
    length is fixed).  Returns 'return' when a return statement was executed."""
    for s_ in stmts:
        k = s_.get('kind')
        if k == 'CompoundStmt':
            if emit_exec(I, list(kids(s_)), env, out, sink) == 'return':
                return 'return'
            continue
        if k == 'ReturnStmt':
            return 'return'
        if k == 'NullStmt':
            continue
        if k == 'DeclStmt':
            for vd in kids(s_):
                if vd.get('kind') == 'VarDecl' and kids(vd) and width_of_type(dtype(vd)):
                    env[vd['id']] = I.cast(I.eval(kids(vd)[-1], env), dtype(vd))
            continue
        if k == 'IfStmt':
            cond, then, els = if_parts(s_)
            emits = any(c.get('kind') == 'CXXMemberCallExpr' and call_name(c) in ('push_back', 'append') or (c.get('kind') == 'CXXOperatorCallExpr' and call_name(c) == 'operator+=') for c in walk(s_))
            if not width_of_type(dtype(strip(cond))) or '*' in (dtype(strip(cond, casts=True)) or ''):
                if not emits:
                    continue    # pointer defaulting such as `if (!alphabet) alphabet = DEFAULT`
            c = I.truth(I.eval(cond, env))
            if c == 1:
                r = emit_exec(I, [then], env, out, sink)
            elif c == 0:
                r = emit_exec(I, [els], env, out, sink) if els is not None and els.get('kind') else None
            elif not emits:
                continue
            else:
                raise Unsupported('branch on a non-constant condition `%s` at %s' % (src_text(cond, 50), loc_str(cond)))
            if r == 'return':
                return 'return'
            continue
        if k == 'SwitchStmt':
            ks_ = [c for c in kids(s_) if c.get('kind')]
            v_ = bv_const(I.eval(ks_[-2], env))
            if v_ is None:
                raise Unsupported('switch on a non-constant at %s' % loc_str(s_))
            body_ = ks_[-1]
            sts_ = list(kids(body_)) if body_.get('kind') == 'CompoundStmt' else [body_]
            start, dflt = None, None
            for i_, st_ in enumerate(sts_):
                x_ = st_
                while x_ is not None and x_.get('kind') in ('CaseStmt', 'DefaultStmt'):
                    if x_.get('kind') == 'CaseStmt':
                        if bv_const(I.eval(kids(x_)[0], env)) == v_ and start is None:
                            start = i_
                    else:
                        dflt = i_
                    sub_ = [c for c in kids(x_) if c.get('kind')]
                    x_ = sub_[-1] if sub_ else None
            if start is None:
                start = dflt
            if start is not None:
                done = False
                for st_ in sts_[start:]:
                    x_ = st_
                    while x_ is not None and x_.get('kind') in ('CaseStmt', 'DefaultStmt'):
                        sub_ = [c for c in kids(x_) if c.get('kind')]
                        x_ = sub_[-1] if sub_ else None
                    if x_ is None:
                        continue
                    if x_.get('kind') == 'BreakStmt':
                        break
                    if x_.get('kind') == 'CompoundStmt' and any(y_.get('kind') == 'BreakStmt' for y_ in kids(x_)):
                        pre_ = []
                        for y_ in kids(x_):
                            if y_.get('kind') == 'BreakStmt':
                                done = True
                                break
                            pre_.append(y_)
                        if emit_exec(I, pre_, env, out, sink) == 'return':
                            return 'return'
                        if done:
                            break
                        continue
                    if emit_exec(I, [x_], env, out, sink) == 'return':
                        return 'return'
            continue
        if k in ('ForStmt', 'WhileStmt'):
            if k == 'ForStmt':
                init, cv, cond, inc, lb = for_parts(s_)
                if init is not None and init.get('kind'):
                    emit_exec(I, [init], env, out, sink)
            else:
                cond, lb = while_parts(s_)
                inc = None
            for _ in range(64):
                c = I.truth(I.eval(cond, env)) if cond is not None and cond.get('kind') else 1
                if c == 0:
                    break
                if c != 1:
                    raise Unsupported('loop on a non-constant condition `%s` at %s' % (src_text(cond, 50), loc_str(cond)))
                benv = dict(env)
                r = emit_exec(I, [lb], benv, out, sink)
                for key in env:
                    env[key] = benv[key]
                if r == 'return':
                    return 'return'
                if inc is not None and inc.get('kind'):
                    I.exec_stmts([inc], env)
            else:
                raise Unsupported('loop does not terminate within 64 iterations at %s' % loc_str(s_))
            continue
        e = strip(s_, casts=False)
        if e.get('kind') == 'CXXMemberCallExpr' and canon(member_call_object(e)) == sink:
            nm = call_name(e)
            if nm == 'push_back':
                out.append(_emit_value(I, call_args(e)[0], env, e))
                continue
            if nm in ('reserve', 'clear', 'shrink_to_fit'):
                continue
            raise Unsupported('%s.%s at %s' % (sink, nm, loc_str(e)))
        if e.get('kind') == 'CXXOperatorCallExpr' and call_name(e) == 'operator+=' and canon(e['inner'][1]) == sink:
            out.append(_emit_value(I, e['inner'][2], env, e))
            continue
        if e.get('kind') in ('BinaryOperator', 'CompoundAssignOperator') and not width_of_type(dtype(e['inner'][0])):
            continue     # pointer assignment
        I.exec_stmts([s_], env)
    return None


def _emit_value(I, arg, env, node):
    a = strip(arg, casts=False)
    while a.get('kind') in ('ImplicitCastExpr', 'ParenExpr', 'CStyleCastExpr', 'CXXStaticCastExpr') and kids(a):
        a = strip(kids(a)[0], casts=False)
    if a.get('kind') == 'ConditionalOperator':
        c = I.truth(I.eval(a['inner'][0], env))
        if c == 1:
            return _emit_value(I, a['inner'][1], env, node)
        if c == 0:
            return _emit_value(I, a['inner'][2], env, node)
        return ('ite', src_text(a['inner'][0], 40), node)
    if a.get('kind') == 'ArraySubscriptExpr':
        return ('tab', canon(a['inner'][0]), I.eval(a['inner'][1], env), node)
    v = bv_const(I.eval(a, env))
    if v is not None:
        return ('lit', v & 0xFF, node)
    return ('unknown', src_text(a, 40), node)
