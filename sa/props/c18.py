"""C18 - time, duration and size formatting (decided part: format_duration cannot throw,
its padding decision evaluated on every shape class of the seconds text, unit ladders
and field formats, calendar plumbing of format_time, size ladder agreement between
format_size and parse_size, exact integer arithmetic for the integer part).  Rounding at
the printed precision and calendar correctness (delegated to libc) are not decided."""
import re

from ast_ import *
from path import *
from bits import *
from exc import *
from tables import TableEval
from props.c04 import string_lit

US = 1000000


class StrEval(TableEval):
    """TableEval that can also read a std::string variable bound to a constant text."""

    def __init__(self, unit):
        super().__init__(unit)
        self.strings = {}

    def eval(self, n, env, depth=0):
        n0 = strip(n, casts=False)
        k = n0.get('kind')
        if k == 'CXXMemberCallExpr':
            obj = member_call_object(n0)
            key = canon(obj) if obj is not None else None
            if key in self.strings:
                s = self.strings[key]
                nm = call_name(n0)
                a = [bv_const(self.eval(x, env, depth)) for x in call_args(n0) if x.get('kind') != 'CXXDefaultArgExpr']
                if nm in ('size', 'length'):
                    return const_bv(len(s), 64, False)
                if nm == 'empty':
                    return const_bv(int(len(s) == 0), 1, False)
                if nm in ('at',) and a and a[0] is not None:
                    if 0 <= a[0] < len(s):
                        return const_bv(s[a[0]], 8, True)
                    self.note(n0, 'at(%d) on a %d-character string throws out_of_range' % (a[0], len(s)))
                    return top_bv(8, True)
                if nm in ('front',) and s:
                    return const_bv(s[0], 8, True)
                if nm in ('back',) and s:
                    return const_bv(s[-1], 8, True)
                if nm in ('find', 'find_first_of') and a and a[0] is not None:
                    start = a[1] if len(a) > 1 and a[1] is not None else 0
                    i = s.find(bytes([a[0] & 0xFF]), start)
                    return const_bv((i if i >= 0 else (1 << 64) - 1), 64, False)
        if k == 'CXXOperatorCallExpr' and call_name(n0) == 'operator[]' and canon(n0['inner'][1]) in self.strings:
            s = self.strings[canon(n0['inner'][1])]
            i = bv_const(self.eval(n0['inner'][2], env, depth))
            if i is not None and 0 <= i <= len(s):
                return const_bv(s[i] if i < len(s) else 0, 8, True)
        if k == 'MemberExpr' and n0.get('name') == 'npos':
            return const_bv((1 << 64) - 1, 64, False)
        if k == 'DeclRefExpr' and (n0.get('referencedDecl') or {}).get('name') == 'npos':
            return const_bv((1 << 64) - 1, 64, False)
        return super().eval(n, env, depth)


def run(ctx):
    ctx.rule('C18-R1', 'format_duration cannot throw (exception-escape analysis with the size-guard premise); its zero-padding decision is correct on every shape class of the seconds text (one or two integer digits, with or without a fraction)', 16)
    ctx.rule('C18-R2', 'unit ladder of format_duration: thresholds 1 s, 60 s, 3600 s, 86400 s; fields are usecs/unit (mod 60 / 24); the seconds remainder subtracts every larger field; inner fields %02, leading field unpadded', 12)
    ctx.rule('C18-R3', 'format_time: seconds = t / 10^6 through gmtime_r (UTC, re-entrant) and strftime("%Y-%m-%d %H:%M:%S"), then ".%06" of t mod 10^6; timeval conversions use the same 10^6 both ways', 5)
    ctx.rule('C18-R4', 'size ladder: format_size (both forms) uses threshold 1024^(k+1), divisor 1024^k and suffix K/M/G/T/P/E in step with parse_size\'s letter table; parse_size multiplies the integer part in integer arithmetic', 18)
    ctx.rule('C18-R5', 'format_duration evaluated (E-TABLE) for durations around 0, 1 s, 60 s, 3600 s, 86400 s (+-2 s), fixed pseudo-random durations up to 2^63 and precision -1..6: never throws, [d:][h:][m:]s[.f] with two-digit inner fields, evaluates back to the input rounded at the printed precision', 1)
    ctx.rule('C18-R6', 'format_time evaluated (E-TABLE) on timestamps across 1970..9999 (year ends, leap days, second-59 and microsecond edges) against python datetime; format_size / parse_size evaluated at every power-of-1024 boundary +-1: right unit, value and read-back within the printed precision', 2)
    u = ctx.unit(repo_unit('Time.cc'))
    us = ctx.unit(repo_unit('Strings.cc'))
    fd = u.func('phosg::format_duration')[0]
    ft = u.func('phosg::format_time')[0]
    for f in (fd, ft):
        check_no_goto(f)
        ctx.fn(u.qualname(f))

    # ---------------- R1
    R = 'C18-R1'
    E = Exc([u, us], [refine_size_guarded_at])
    mt = E.may_throw(fd, u)
    ctx.check(not mt, R, 'format_duration|no-throw', fd, 'nothing can escape format_duration', 'format_duration can throw %s' % '; '.join('%s via %s' % (t, w_[:200]) for t, w_ in mt.items()))
    ctx.extra['exemptions'] = ['%s: %s' % (e[0], e[2]) for e in E.exemptions]
    body = body_of(fd)
    # ---------------- R5: format_duration evaluated (E-TABLE) around every unit boundary x precision
    R = 'C18-R5'
    from peval import PEval, Str as PStr, Undecided as PUnd, Fault as PFault, Thrown as PThrown
    PD = PEval([u, us], max_depth=8)
    offs = [-2000000, -1999999, -1500000, -1000001, -1000000, -999999, -500001, -500000, -499999, -50000, -5000, -1000, -500, -51, -50, -5, -2, -1, 0, 1, 2, 4, 5, 49, 50, 499, 500, 501, 4999, 5000, 49999, 50000, 499999, 500000, 500001, 999999, 1000000, 1000001, 1500000, 1999999, 2000000]
    if ctx.tier == 'thorough':
        offs = sorted(set(offs + list(range(-2000000, 2000001, 7919))))
    durs = set()
    for b_ in (0, US, 60 * US, 3600 * US, 86400 * US):
        for o_ in offs:
            if b_ + o_ >= 0:
                durs.add(b_ + o_)
    x_ = 88172645463325252
    for _ in range(120 if ctx.tier != 'thorough' else 2000):          # xorshift: fixed pseudo-random durations up to 2^63
        x_ ^= (x_ << 13) & ((1 << 64) - 1)
        x_ ^= x_ >> 7
        x_ ^= (x_ << 17) & ((1 << 64) - 1)
        durs.add((x_ >> 1) >> (x_ % 50))
    durs |= {9500000, 59999999, 599999999, 3599999999, 86399999999, 10 * 86400 * US + 3 * 3600 * US + 7 * 60 * US + 5 * US + 250000, (1 << 63) - 1}
    import re as _re
    n_ok5, bad5, und5 = 0, None, None
    for d_ in sorted(durs):
        for prec in range(-1, 7):
            try:
                got = PD.call_with(fd, [d_, prec])
            except PThrown as e_:
                bad5 = bad5 or (d_, prec, 'it throws (%s)' % e_, e_.node)
                continue
            except PFault as e_:
                bad5 = bad5 or (d_, prec, 'evaluation faults: %s' % e_, None)
                continue
            except PUnd as e_:
                und5 = str(e_)
                break
            txt = bytes(got.b).decode('latin1') if isinstance(got, PStr) else None
            why = None
            if txt is None or not _re.match(r'^(\d+:){0,3}\d+(\.\d+)?$', txt):
                why = 'the text %r is not [d:][h:][m:]s[.f]' % (txt,)
            else:
                parts = txt.split(':')
                sec = parts[-1]
                inner = parts[1:-1] + ([sec.split('.')[0]] if len(parts) > 1 else [])
                if any(len(f_) != 2 for f_ in inner):
                    why = 'the text %r has an inner field that is not two digits wide' % txt
                else:
                    from fractions import Fraction
                    tot = Fraction(sec)
                    for f_, m_ in zip(reversed(parts[:-1]), (60, 3600, 86400)):
                        tot += int(f_) * m_
                    digits = len(sec.split('.')[1]) if '.' in sec else 0
                    err = abs(tot * US - d_)
                    # the double division usecs_part / 10^6 is within 2^-52 relative of the exact value
                    if err > Fraction(US, 2 * 10 ** digits) + Fraction(1, 1000):
                        why = 'the text %r evaluates to %s us, not the input rounded at %d digit(s)' % (txt, int(tot * US), digits)
                    elif prec >= 0 and digits != prec:
                        why = 'the text %r has %d fraction digit(s), %d requested' % (txt, digits, prec)
            if why:
                bad5 = bad5 or (d_, prec, why, None)
            else:
                n_ok5 += 1
        if und5:
            break
    if und5:
        ctx.undecided(R, 'format_duration|evaluated', fd, 'format_duration could not be evaluated (%s)' % und5)
    elif bad5:
        ctx.bad(R, 'format_duration|evaluated', bad5[3] or fd, 'format_duration(%d, %d): %s' % bad5[:3])
    else:
        ctx.ok(R, 'format_duration|evaluated', fd, '%d (duration, precision) pairs around every unit boundary: fields padded, text evaluates back to the input at the printed precision' % n_ok5)

    def r1_structure():
        R = 'C18-R1'
        body = body_of(fd)
        pads = [x for x in walk(body) if x.get('kind') == 'ConditionalOperator' and string_lit(x['inner'][1]) in (b'0',) and string_lit(x['inner'][2]) == b'']
        if len(pads) != 3:
            ctx.undecided(R, 'pad|structure', fd, 'format_duration: the three `? "0" : ""` padding decisions were not found (%d): padding is decided by evaluation (C18-R5) only' % len(pads))
            pads = []
            ctx.rules['C18-R1'] = (ctx.rules['C18-R1'][0], 1)
        I = StrEval(u)
        classes = [(b'5', True), (b'0', True), (b'5.250', True), (b'9.999999', True), (b'15', False), (b'59', False), (b'15.5', False), (b'59.999', False), (b'60', False), (b'60.000', False)]
        for i, p in enumerate(pads):
            strs = {canon(member_call_object(c)) for c in walk(p['inner'][0]) if c.get('kind') == 'CXXMemberCallExpr' and member_call_object(c) is not None} | \
                {canon(c['inner'][1]) for c in walk(p['inner'][0]) if c.get('kind') == 'CXXOperatorCallExpr' and call_name(c) == 'operator[]'}
            need(len(strs) == 1, 'padding test reads %s' % strs)
            sv = strs.pop()
            for txt, want in classes:
                I.strings = {sv: txt}
                I.notes = []
                t = I.truth(I.eval(p['inner'][0], {}))
                got = (t == 1) if t in (0, 1) else None
                ctx.check(got == want and not I.notes, R, 'pad#%d|seconds=%s' % (i, txt.decode()), p, 'seconds text %r -> %s' % (txt.decode(), 'padded' if want else 'not padded'),
                          'for a seconds field %r the padding test %s; a field with %s must %sget a leading zero%s' % (txt.decode(), 'is undecidable / throws (%s)' % '; '.join(I.notes) if got is None or I.notes else ('pads' if got else 'does not pad'),
                                                                                                                      'one integer digit' if want else 'two integer digits', '' if want else 'not ', ' (the inner field would be one character wide)' if want else ''))


    def r2_structure():
        R = 'C18-R2'
        # ---------------- R2
        R = 'C18-R2'
        chain = next(s for s in stmts_of(body) if s.get('kind') == 'IfStmt')
        thresholds = []
        branches = []
        s = chain
        while s is not None and s.get('kind') == 'IfStmt':
            cond, then, els = if_parts(s)
            r = relation(cond, True)
            thresholds.append(int_value(r[2]) if r and nf(r[0]) == 'usecs' and r[1] == '<' else None)
            branches.append(then)
            s = els
        branches.append(s)
        ctx.check(thresholds == [US, 60 * US, 3600 * US, 86400 * US], R, 'thresholds', chain, '1 s, 1 min, 1 h, 1 day', 'magnitude thresholds are %s' % thresholds)
        want = {
            2: {'minutes': '(usecs / %d)' % (60 * US), 'usecs_part': '(usecs - (%d * minutes))' % (60 * US)},
            3: {'hours': '(usecs / %d)' % (3600 * US), 'minutes': '((usecs / %d) %% 60)' % (60 * US), 'usecs_part': '((usecs - (%d * hours)) - (%d * minutes))' % (3600 * US, 60 * US)},
            4: {'days': '(usecs / %d)' % (86400 * US), 'hours': '((usecs / %d) %% 24)' % (3600 * US), 'minutes': '((usecs / %d) %% 60)' % (60 * US),
                'usecs_part': '(((usecs - (%d * days)) - (%d * hours)) - (%d * minutes))' % (86400 * US, 3600 * US, 60 * US)},
        }
        fmts = {2: b'%lu:%s', 3: b'%lu:%02lu:%s', 4: b'%lu:%02lu:%02lu:%s'}
        for bi, fields in want.items():
            br = branches[bi]
            got = {v['name']: _fold(kids(v)[-1]) for v in walk(br) if v.get('kind') == 'VarDecl' and v.get('name') in fields and kids(v)}
            for nm, w_ in fields.items():
                ctx.check(got.get(nm) == w_, R, 'branch%d|%s' % (bi, nm), br, '%s = %s' % (nm, w_), '%s is computed as %s, expected %s' % (nm, got.get(nm), w_))
            secs = next((v for v in walk(br) if v.get('kind') == 'VarDecl' and v.get('name') == 'seconds_str'), None)
            oks = secs is not None and any(string_lit(a) == b'%.*lf' for c in walk(secs) if c.get('kind') == 'CallExpr' for a in call_args(c)[:1]) and 'usecs_part' in nf(kids(secs)[-1]) and str(US) in _fold(kids(secs)[-1])
            if secs is None:
                ctx.undecided(R, 'branch%d|seconds-text' % bi, br, 'no separate seconds text in this branch: its layout is decided by evaluation (C18-R5) only')
                continue
            ctx.check(oks, R, 'branch%d|seconds-text' % bi, secs or br, 'seconds = usecs_part / 10^6 printed with %.*lf', 'seconds text is built from %s' % (nf(kids(secs)[-1]) if secs else None))
            f0 = [string_lit(call_args(c)[0]) for c in walk(br) if c.get('kind') == 'CallExpr' and call_name(c) == 'string_printf' and string_lit(call_args(c)[0]) and b':' in string_lit(call_args(c)[0])]
            ctx.check(f0 == [fmts[bi]], R, 'branch%d|field-format' % bi, br, fmts[bi].decode(), 'field format is %s (inner fields must be %%02, the leading field unpadded)' % f0)
            args = [nf(a) for c in walk(br) if c.get('kind') == 'CallExpr' and call_name(c) == 'string_printf' and string_lit(call_args(c)[0]) == fmts[bi] for a in call_args(c)[1:-1]]
            ctx.check(args == [k for k in fields if k != 'usecs_part'], R, 'branch%d|field-order' % bi, br, 'fields printed largest first', 'fields are printed as %s' % args)


    # ---------------- R6: format_time and format_size/parse_size evaluated (E-TABLE); gmtime_r,
    # strftime and snprintf follow their specification (the calendar is an independent civil-from-days
    # computation, the expected text comes from python's datetime)
    R = 'C18-R6'
    import datetime as _dt
    from peval import Lit as PLit
    r6 = {}
    PT = PEval([u, us], max_depth=8)

    def run_cases(key, node, cases):
        ok_, bad_, und_ = 0, None, None
        for label, thunk, judge_ in cases:
            try:
                got = thunk()
            except PThrown as e_:
                bad_ = bad_ or (label, 'throws (%s)' % e_)
                continue
            except PFault as e_:
                bad_ = bad_ or (label, 'evaluation faults: %s' % e_)
                continue
            except PUnd as e_:
                und_ = str(e_)
                break
            why_ = judge_(got)
            if why_:
                bad_ = bad_ or (label, why_)
            else:
                ok_ += 1
        r6[key] = und_ is None and bad_ is None
        if und_:
            ctx.undecided(R, key, node, 'could not be evaluated (%s)' % und_)
        elif bad_:
            ctx.bad(R, key, node, '%s: for %s %s' % (key, bad_[0], bad_[1]))
        else:
            ctx.ok(R, key, node, '%d cases agree with the reference' % ok_)
    stamps = set()
    epoch = _dt.datetime(1970, 1, 1)
    for y in list(range(1970, 2106, 1)) + list(range(2100, 10000, 97)) + [9999]:
        for (m_, d_, hh, mm, ss) in ((1, 1, 0, 0, 0), (2, 28, 23, 59, 59), (3, 1, 0, 0, 0), (12, 31, 23, 59, 59), (6, 15, 12, 30, 59)):
            base = int((_dt.datetime(y, m_, d_, hh, mm, ss) - epoch).total_seconds())
            for du in (0, 1, 999999):
                stamps.add(base * US + du)
            stamps.add((base + 1) * US)
        if (y % 4 == 0 and y % 100 != 0) or y % 400 == 0:
            stamps.add(int((_dt.datetime(y, 2, 29, 23, 59, 59) - epoch).total_seconds()) * US + 999999)
    stamps = {t_ for t_ in stamps if 0 <= t_ <= int((_dt.datetime(9999, 12, 31, 23, 59, 59) - epoch).total_seconds()) * US + 999999}

    def ft_case(t_):
        want = (epoch + _dt.timedelta(microseconds=t_))
        want = '%04d-%02d-%02d %02d:%02d:%02d.%06d' % (want.year, want.month, want.day, want.hour, want.minute, want.second, want.microsecond)
        return ('timestamp %d us' % t_, (lambda: PT.call_with(ft, [t_])), (lambda got: None if isinstance(got, PStr) and bytes(got.b).decode('latin1') == want else 'it renders %r; the UTC date and time is %r' % (bytes(got.b).decode('latin1') if isinstance(got, PStr) else got, want)))
    run_cases('format_time', ft, [ft_case(t_) for t_ in sorted(stamps)])
    fsz_ = next((f_ for f_ in us.func('phosg::format_size') if body_of(f_) is not None), None)
    psz_ = next((f_ for f_ in us.func('phosg::parse_size') if body_of(f_) is not None), None)
    if fsz_ is not None and psz_ is not None:
        UNITS = {'K': 1 << 10, 'M': 1 << 20, 'G': 1 << 30, 'T': 1 << 40, 'P': 1 << 50, 'E': 1 << 60}
        sizes = {0, 1, 2, 999, 1000, 1023}
        for k_ in range(1, 7):
            for d_ in (-1, 0, 1):
                sizes.add(1024 ** k_ + d_)
            sizes |= {1024 ** k_ * 3 // 2, 1024 ** k_ * 1023, 1024 ** k_ * 7 + 12345 % (1024 ** k_), 1024 ** k_ * 999 + 1024 ** k_ // 3}
        sizes = {s_ for s_ in sizes if 0 <= s_ < 15 * (1 << 60)}

        def sz_case(s_, ib):
            def thunk():
                txt = PT.call_with(fsz_, [s_, ib])
                back = PT.call_with(psz_, [PLit(bytes(txt.b) + b'\0')])
                return bytes(txt.b).decode('latin1'), back

            def judge_(got):
                txt, back = got
                if s_ < 1024:
                    return None if txt == '%d bytes' % s_ and back == s_ else 'format_size gives %r and parse_size reads it back as %r' % (txt, back)
                m_ = re.match(r'^(?:(\d+) bytes \()?(\d+\.\d\d) ([KMGTPE])B\)?$', txt)
                if not m_ or bool(m_.group(1)) != bool(ib):
                    return 'format_size gives %r' % txt
                unit = UNITS[m_.group(3)]
                tol = unit * 0.005 + s_ * 2.0 ** -22 + 1
                if not (unit <= s_ < unit * 1024 or (m_.group(3) == 'E' and s_ >= unit)):
                    return 'format_size gives %r: the unit %sB is not the largest power of 1024 not above the size' % (txt, m_.group(3))
                if abs(float(m_.group(2)) * unit - s_) > tol:
                    return 'format_size gives %r, which is %s bytes away from the size' % (txt, abs(float(m_.group(2)) * unit - s_))
                if ib and (int(m_.group(1)) != s_ or back != s_):
                    return 'format_size gives %r and parse_size reads it back as %r' % (txt, back)
                if not ib and abs(back - s_) > tol:
                    return 'format_size gives %r, parse_size reads it back as %d: they disagree beyond the printed precision' % (txt, back)
                return None
            return ('size %d (include_bytes=%d)' % (s_, ib), thunk, judge_)
        run_cases('format_size/parse_size', fsz_, [sz_case(s_, ib) for s_ in sorted(sizes) for ib in (0, 1)])

    class _Shape(Exception):
        pass

    def need(cond, msg):
        if not cond:
            raise _Shape(msg)

    def structural(fn, rule, key):
        decided = bool(r6.get(key))
        real_bad = ctx.bad
        if decided:
            ctx.bad = lambda rule_, key_, node_, detail_='': ctx.undecided(rule_, key_, node_, 'differs from the structural pattern (%s); behaviour decided by evaluation (C18-R5/R6)' % detail_[:160])
        try:
            fn()
        except (_Shape, StopIteration, IndexError) as e_:
            if decided:
                ctx.undecided(rule, key + '|structure', u.path, 'not written in the shape the structural rule reads (%s): decided by evaluation (C18-R6)' % (e_ or 'anchor missing'))
                ctx.rules[rule] = (ctx.rules[rule][0], 0)
            else:
                raise AnalysisBroken(str(e_) or 'anchor missing')
        finally:
            ctx.bad = real_bad

    def r3_structure():
        # ---------------- R3
        R = 'C18-R3'
        fb = body_of(ft)
        calls = [call_name(c) for c in walk(fb) if c.get('kind') == 'CallExpr']
        gm = [c for c in walk(fb) if c.get('kind') == 'CallExpr' and call_name(c) in ('gmtime_r', 'gmtime', 'localtime', 'localtime_r')]
        ctx.check(len(gm) == 1 and call_name(gm[0]) == 'gmtime_r', R, 'format_time|gmtime_r', gm[0] if gm else ft, 'UTC breakdown into a caller-owned struct tm (re-entrant)',
                  'format_time uses %s: %s' % ([call_name(c) for c in gm], 'gmtime() returns a pointer to static storage shared by all threads, so concurrent calls print another call\'s date' if gm and call_name(gm[0]) == 'gmtime' else 'local time instead of UTC'))
        sv = next((v for v in walk(fb) if v.get('kind') == 'VarDecl' and v.get('name') == 't_secs'), None)
        ctx.check(sv is not None and nf(kids(sv)[-1]) == '(t / %d)' % US, R, 'format_time|seconds', sv or ft, 'seconds = t / 10^6', 'seconds are computed as %s' % (nf(kids(sv)[-1]) if sv else None))
        sf = [c for c in walk(fb) if c.get('kind') == 'CallExpr' and call_name(c) == 'strftime']
        ctx.check(len(sf) == 1 and string_lit(call_args(sf[0])[2]) == b'%Y-%m-%d %H:%M:%S', R, 'format_time|strftime', sf[0] if sf else ft, 'YYYY-MM-DD HH:MM:SS', 'strftime format changed')
        sn = [c for c in walk(fb) if c.get('kind') == 'CallExpr' and call_name(c) == 'snprintf']
        oku = len(sn) == 1 and string_lit(call_args(sn[0])[2]) == b'.%06u' and _fold(call_args(sn[0])[3]) in ('(t %% %d)' % US,) and 'len' in nf(call_args(sn[0])[0])
        if not sn:
            # appended with string_printf(".%06u", t % 10^6) after the date text
            from guard import subst_locals
            sp_ = [c for c in walk(fb) if c.get('kind') == 'CallExpr' and call_name(c) == 'string_printf' and string_lit(call_args(c)[0]) == b'.%06u']
            if len(sp_) == 1 and sf and sp_[0]['_off'] > sf[0]['_off']:
                val_ = subst_locals(_fold(call_args(sp_[0])[1]), sp_[0])
                oku = val_ in ('(t %% %d)' % US,) and strip(containing_statement(sp_[0])).get('kind') == 'CXXOperatorCallExpr' and call_name(strip(containing_statement(sp_[0]))) == 'operator+='
                sn = sp_
        ctx.check(oku, R, 'format_time|microseconds', sn[0] if sn else ft, '".%06u" of t mod 10^6 appended after the date', 'microsecond suffix changed: %s' % (_fold(call_args(sn[0])[-1]) if sn else None))
        a = u.func('phosg::usecs_to_timeval')[0]
        b = u.func('phosg::timeval_to_usecs')[0]
        aa = sorted(_fold(x['inner'][1]) for x in walk(body_of(a)) if x.get('kind') == 'BinaryOperator' and x.get('opcode') == '=')
        rb_ = [nf(kids(r)[0]) for r in walk(body_of(b)) if r.get('kind') == 'ReturnStmt']
        ctx.check(aa == sorted(['(usecs / %d)' % US, '(usecs %% %d)' % US]) and rb_ == ['((%d * tv.tv_sec) + tv.tv_usec)' % US] or rb_ == ['(tv.tv_usec + (%d * tv.tv_sec))' % US] and aa == sorted(['(usecs / %d)' % US, '(usecs %% %d)' % US]), R, 'timeval|inverse', a, 'sec = usecs / 10^6, usec = usecs mod 10^6; back: sec * 10^6 + usec', 'timeval conversions are %s / %s' % (aa, rb_))


    # the timeval conversions by evaluation: usecs -> timeval -> usecs is the identity, also far beyond 2^32 seconds
    with ctx.section('C18-R6', 'C18'):
        from peval import PEval as _PEt, Rec as _Rect, Thrown as _Tt, Fault as _Ft, Undecided as _Ut
        ta = u.func('phosg::usecs_to_timeval')[0]
        tb = u.func('phosg::timeval_to_usecs')[0]
        PEt = _PEt([u])
        tbad, tund, tn = None, None, 0
        for x_ in (0, 1, 999999, 1000000, 1000001, 1700000000123456, (1 << 31) * 1000000 - 1, (1 << 31) * 1000000, (1 << 32) * 1000000 - 1, (1 << 32) * 1000000 + 5, 253402300799999999, (1 << 62) + 999999):
            if tund or tbad:
                break
            try:
                tv_ = PEt.call_with(ta, [x_])
                back_ = PEt.call_with(tb, [tv_])
            except (_Tt, _Ft) as e_:
                tbad = 'converting %d microseconds %s' % (x_, e_)
                continue
            except _Ut as e_:
                tund = str(e_)
                continue
            tn += 1
            f_ = getattr(tv_, 'f', {})
            if not (isinstance(tv_, _Rect) and f_.get('tv_sec') == x_ // 1000000 and f_.get('tv_usec') == x_ % 1000000):
                tbad = 'usecs_to_timeval(%d) gives sec=%s usec=%s' % (x_, f_.get('tv_sec'), f_.get('tv_usec'))
            elif back_ != x_:
                tbad = 'timeval_to_usecs(usecs_to_timeval(%d)) = %s: the conversions are not inverse (seconds beyond 2^32 - the year 2106 - or a truncated field)' % (x_, back_)
        if tund:
            ctx.undecided('C18-R6', 'timeval|round-trip', ta, 'the timeval conversions could not be folded (%s)' % tund)
        elif tbad:
            ctx.bad('C18-R6', 'timeval|round-trip', tb, tbad)
        else:
            ctx.ok('C18-R6', 'timeval|round-trip', ta, 'usecs -> timeval -> usecs is the identity on %d values up to 2^62 (second counts on both sides of 2^31 and 2^32)' % tn)
    r6['format_duration'] = und5 is None and bad5 is None
    structural(r1_structure, 'C18-R1', 'format_duration')
    structural(r2_structure, 'C18-R2', 'format_duration')
    structural(r3_structure, 'C18-R3', 'format_time')

    def r4_structure():
        # ---------------- R4
        R = 'C18-R4'
        fsz = us.func('phosg::format_size')[0]
        psz = us.func('phosg::parse_size')[0]
        ctx.fn('format_size')
        ctx.fn('parse_size')
        rows = {True: [], False: []}
        top = stmts_of(body_of(fsz))
        # first row: < 1024 -> bytes
        r0 = relation(if_parts(top[0])[0], True) if top and top[0].get('kind') == 'IfStmt' else None
        ctx.check(r0 is not None and nf(r0[0]) == 'size' and r0[1] == '<' and int_value(r0[2]) == 1024, R, 'format_size|bytes-row', top[0] if top else fsz, 'below 1024: plain bytes', 'the bytes row threshold changed')
        inc = next((s_ for s_ in top if s_.get('kind') == 'IfStmt' and nf(if_parts(s_)[0]) == 'include_bytes'), None)
        need(inc is not None, 'format_size: include_bytes split not found')
        for flag, br in ((True, if_parts(inc)[1]), (False, if_parts(inc)[2])):
            for s_ in stmts_of(br):
                cond = None
                ret = s_
                if s_.get('kind') == 'IfStmt':
                    cond = if_parts(s_)[0]
                    ret = stmts_of(if_parts(s_)[1])[0]
                pc = next((c for c in walk(ret) if c.get('kind') == 'CallExpr' and call_name(c) == 'string_printf'), None)
                if pc is None:
                    continue
                fmt = string_lit(call_args(pc)[0]) or b''
                m = re.search(rb'%\.02f ([A-Z])B', fmt)
                div = None
                num = None
                if m is None and flag and any(c_.get('kind') == 'CallExpr' and call_name(c_) == 'format_size' and len(call_args(c_)) == 2 and nf(call_args(c_)[0]) == 'size' and int_value(call_args(c_)[1]) == 0 for c_ in walk(br)) and re.search(rb'^%zu bytes \(%s\)$', fmt):
                    rows[True] = 'delegates'
                    break
                for x in walk(pc):
                    if x.get('kind') == 'BinaryOperator' and x.get('opcode') == '/':
                        div = int_value(x['inner'][1])
                        num = nf(x['inner'][0])
                r = relation(cond, True) if cond is not None else None
                thr = int_value(r[2]) if r and nf(r[0]) == 'size' and r[1] == '<' else None
                rows[flag].append((m.group(1).decode() if m else None, div, thr, bool(re.search(rb'^%zu bytes \(', fmt)) == flag, num))
        letters = 'KMGTPE'
        if rows[True] == 'delegates':
            # "<n> bytes (<text of the plain form>)": the ladder is the plain form's by construction
            ctx.ok(R, 'format_size|include_bytes=True|delegates', fsz, 'the include_bytes form wraps format_size(size, false)')
            rows[True] = [(g[0], g[1], g[2], True, g[4]) for g in rows[False]]
        for flag in (True, False):
            got = rows[flag]
            ctx.check([g[0] for g in got] == list(letters), R, 'format_size|include_bytes=%s|suffixes' % flag, fsz, 'rows KB..EB in order', 'format_size rows are %s' % [g[0] for g in got])
            for k, g in enumerate(got):
                L, div, thr, okform, num = g
                want_div = 1024 ** (k + 1)
                want_thr = 1024 ** (k + 2) if k < len(got) - 1 else None
                ctx.check(div == want_div and thr == want_thr and okform and num == 'size', R, 'format_size|include_bytes=%s|row-%s' % (flag, L), fsz, '%sB: size < 1024^%d, divided by 1024^%d' % (L, k + 2, k + 1),
                          'row %sB: divisor %s (expected %d), threshold %s (expected %s)%s' % (L, div, want_div, thr, want_thr, '' if okform else ', wrong text form'))
        ctx.check([(g[0], g[1], g[2]) for g in rows[True]] == [(g[0], g[1], g[2]) for g in rows[False]], R, 'format_size|siblings-agree', fsz, 'both text forms use the same ladder', 'the two text forms of format_size use different ladders')
        # the unit letter table, by folding parse_size on "1<c>" for every possible unit character c
        # (exhaustive over the character; nothing is run): K/k..E/e scale by 1024^1..1024^6, every other
        # character leaves the scale at 1
        from peval import PEval, Lit, Undecided, Fault
        PEz = PEval([us])
        table = {}
        folded = True
        for c_ in range(1, 256):
            if chr(c_).isdigit() or chr(c_) in '. ':
                continue
            try:
                v_ = PEz.call_with(psz, [Lit(b'1' + bytes([c_]) + b'\0')])
            except (Undecided, Fault) as e_:
                ctx.undecided(R, 'parse_size|letter-table', psz, 'parse_size cannot be folded on the text "1%s" (%s)' % (chr(c_) if 32 < c_ < 127 else '\\x%02X' % c_, e_))
                folded = False
                break
            if v_ != 1:
                table[chr(c_)] = v_
        if folded:
            want_t = {}
            for k_, L in enumerate(letters):
                want_t[L] = want_t[L.lower()] = 1024 ** (k_ + 1)
            ctx.check(table == want_t, R, 'parse_size|letter-table', psz, 'K/k..E/e -> 1024^1..1024^6, every other unit character -> 1',
                      'parse_size unit table differs from format_size\'s ladder: %s' % {k_: v_ for k_, v_ in sorted(table.items()) if want_t.get(k_) != v_} or 'missing %s' % sorted(set(want_t) - set(table)))
        rets = [r for r in walk(body_of(psz)) if r.get('kind') == 'ReturnStmt']
        okp = len(rets) == 1
        why = 'return expression not found'
        if okp:
            e = kids(rets[0])[0]
            # integer_part must reach the result without passing through a floating conversion
            bad = []
            for x in walk(e):
                if x.get('castKind') in ('IntegralToFloating',) and any((ref_decl(y) or {}).get('name') == 'integer_part' for y in walk(x)):
                    bad.append(x)
            muls = [x for x in walk(e) if x.get('kind') == 'BinaryOperator' and x.get('opcode') == '*' and sorted([nf(x['inner'][0]), nf(x['inner'][1])]) == ['integer_part', 'unit_scale'] and (int_type_info(dtype(x)) or (0,))[0] == 64]
            okp = not bad and len(muls) == 1
            why = 'the integer part is converted to floating point before scaling (%s): sizes above 2^53 lose their low digits' % (nf(e)) if bad else 'integer_part * unit_scale is not computed in 64-bit integer arithmetic'
        ctx.check(okp, R, 'parse_size|integer-part-exact', rets[0] if rets else psz, 'integer_part * unit_scale in integer arithmetic, plus the truncated fractional contribution', why)
        # unit_scale reaches 2^60: the only 64-bit integer product it may take part in is the one with
        # integer_part (which overflows exactly when the size itself does not fit); the fractional
        # contribution must be scaled in floating point
        wide = []
        for x in walk(body_of(psz)):
            if x.get('kind') in ('BinaryOperator', 'CompoundAssignOperator') and x.get('opcode') in ('*', '*=') and (int_type_info(dtype(x)) or (0,))[0] == 64:
                ops = [nf(x['inner'][0]), nf(x['inner'][1])]
                if 'unit_scale' in ops and sorted(ops) != ['integer_part', 'unit_scale'] and not all(o.lstrip('-').isdigit() or o == 'unit_scale' for o in ops):
                    wide.append(x)
        ctx.check(not wide, R, 'parse_size|fraction-scaled-in-floating-point', wide[0] if wide else psz, 'no 64-bit integer product of unit_scale with anything but integer_part',
                  '`%s` multiplies the unit scale (up to 2^60) by another unbounded integer in 64-bit arithmetic: it wraps for the E unit (e.g. "1.50 EB")' % (src_text(wide[0], 60) if wide else ''))
        dg = [lp for lp in walk(body_of(psz)) if lp.get('kind') == 'ForStmt']
        acc = [nf(x) for lp in dg for x in walk(lp) if x.get('kind') == 'BinaryOperator' and x.get('opcode') == '=' and nf(x['inner'][0]) == 'integer_part']
        ctx.check(acc == ['(integer_part = ((*str - 48) + (10 * integer_part)))'], R, 'parse_size|digit-accumulation', psz, 'integer_part = integer_part * 10 + digit', 'digit accumulation is %s' % acc)

    structural(r4_structure, 'C18-R4', 'format_size/parse_size')
    ctx.note('Not decided: rounding/carry at 59.9995 s, calendar correctness (libc), numeric agreement of format_size/parse_size to the printed precision.')


def _fold(n):
    """nf with constant sub-products folded (60 * 1000000ULL -> 60000000)"""
    return nf(n)
