"""C12 - LRUSet / LRUMap (decided part: instantiability of every member, list surgery
shape and self-duality, erase/unlink and size/total pairing, field exhaustiveness of
swap/clear, recency-touch table).  Equivalence with a reference recency list over
all histories is not decided."""
import os
import re

from ast_ import *
from path import *


def members(u, rec_prefix):
    out = {}
    for f in u.functions:
        q = u.qualname(f)
        if q.startswith(rec_prefix) and not is_dependent_pattern(f, u):
            rest = q[len(rec_prefix):]
            cls = rest.split('>::')[0] + '>'
            out.setdefault(cls, []).append(f)
    return out


def stmt_set(f, ren=None):
    out = []
    for s in stmts_of(body_of(f)):
        if s.get('kind') == 'IfStmt':
            cond, then, els = if_parts(s)
            t = ' ; '.join(nf(x) for x in stmts_of(then))
            out.append('if %s: %s' % (nf(cond), t))
        else:
            out.append(nf(s))
    if ren:
        out = [ren(x) for x in out]
    return out


def dual(s):
    s = s.replace('head', '\0').replace('tail', 'head').replace('\0', 'tail')
    s = s.replace('prev', '\0').replace('next', 'prev').replace('\0', 'next')
    return s


UNLINK_WANT = {
    'if (i == this.head): (this.head = i.next)',
    'if (i == this.tail): (this.tail = i.prev)',
    'if i.prev: (i.prev.next = i.next)',
    'if i.next: (i.next.prev = i.prev)',
    '(i.prev = nullptr)',
    '(i.next = nullptr)',
}
LINK_WANT = ['(i.next = this.head)', 'if this.head: (this.head.prev = i)', '(this.head = i)', 'if !this.tail: (this.tail = i)']


SHAPE_DECIDED = set()


def shape_rule(ctx, u, lab, un, ln, touch, funcs):
    """unlink_item / link_item / touch_item folded on every doubly linked list of up to 5 entries with the
    item at every position; True when all three were decided and are right"""
    from shape import Shape, Node, make_list, check_list, ShapeUndecided, NullDeref
    R = 'C12-R6'
    decided = True

    def arg_for(f, node):
        p = params_of(f)
        if len(p) != 1:
            raise ShapeUndecided('%s takes %d parameters' % (f.get('name'), len(p)))
        return ('objref', node) if (qtype(p[0]) or '').rstrip().endswith('&') else node

    def trial(f, n, pos, fresh):
        this, nodes = make_list(n)
        it = Node('x') if fresh else nodes[pos]
        sh = Shape(u, funcs)
        sh.call(f, this, [arg_for(f, it)])
        return this, nodes, it
    cases = {'unlink': 0, 'link': 0, 'touch': 0}
    # unlink: the remaining entries keep their order, both ways; the item's own links are cleared
    verdict = {}
    for what, f in (('unlink', un), ('link', ln), ('touch', touch)):
        if f is None:
            continue
        bad = None
        und = None
        for n in range(0 if what == 'link' else 1, 6):
            for pos in (range(1) if what == 'link' else range(n)):
                try:
                    this, nodes, it = trial(f, n, pos, what == 'link')
                except ShapeUndecided as e:
                    und = str(e)
                    break
                except NullDeref as e:
                    bad = bad or 'with %d entries and the item at position %d, `%s` dereferences a null pointer' % (n, pos, e)
                    continue
                cases[what] += 1
                if what == 'unlink':
                    want = [x for x in nodes if x is not it]
                    r = check_list(this, want)
                    if r is None and (it.f['prev'] is not None or it.f['next'] is not None):
                        r = 'the unlinked item keeps prev=%s next=%s (link_item relies on both being null)' % (it.f['prev'], it.f['next'])
                elif what == 'link':
                    r = check_list(this, [it] + nodes)
                else:
                    r = check_list(this, [it] + [x for x in nodes if x is not it])
                if r and not bad:
                    bad = 'on a list of %d entries %s (item %s): %s' % (n, [x.name for x in nodes], it.name, r)
            if und:
                break
        key = '%s|%s|shapes' % (lab, what)
        if und:
            ctx.undecided(R, key, f, '%s_item could not be folded on list shapes (%s)' % (what, und))
            decided = False
        elif bad:
            ctx.bad(R, key, f, '%s_item %s: the recency list is no longer a well-formed doubly linked list, so a later eviction returns the wrong entry or follows a stale pointer' % (what, bad))
            decided = False
        else:
            ctx.ok(R, key, f, '%s_item leaves a well-formed list (forward and backward order, end links, cleared item links) on all %d list shapes up to 5 entries' % (what, cases[what]))
    return decided


def check_class(ctx, u, cls, fs, kind):
    """kind: 'set' or 'map'"""
    byname = {}
    for f in fs:
        byname.setdefault(f.get('name'), []).append(f)
    lab = cls

    un = byname.get('unlink_item', [None])[0]
    ln = byname.get('link_item', [None])[0]
    if un is None or ln is None:
        raise AnalysisBroken('%s: link_item/unlink_item not found' % cls)
    # ---- R6 list surgery by shape evaluation (E-SHAPE)
    with ctx.section('C12-R6', 'C12'):
        if shape_rule(ctx, u, lab, un, ln, byname.get('touch_item', [None])[0], {k_: v_[0] for k_, v_ in byname.items() if len(v_) == 1}):
            SHAPE_DECIDED.add(lab)
    # ---- R2 list surgery
    R = 'C12-R2'
    for f in (un, ln):
        check_no_goto(f)
    ctx.fn(lab + '::unlink_item')
    ctx.fn(lab + '::link_item')
    got = stmt_set(un)
    gs = set(got)
    miss = sorted(UNLINK_WANT - gs)
    extra = sorted(gs - UNLINK_WANT)
    restructured = len(miss) > 2 or any(v.get('kind') == 'VarDecl' for v in walk(body_of(un))) or any(x.get('kind') == 'IfStmt' and if_parts(x)[2] is not None for x in walk(body_of(un)))
    if restructured and (miss or extra):
        # not the four-fix-ups shape at all (if/else pairs, hoisted neighbours ...): this rule cannot judge it
        ctx.undecided(R, lab + '|unlink|updates', un, 'unlink_item is not written as the four independent fix-ups this rule models (statements: %s)' % sorted(gs)[:6])
    else:
      ctx.check(not miss and not extra, R, lab + '|unlink|updates', un, 'head/tail fix-ups, neighbour relinks and both resets present',
              'unlink_item %s%s: a later link/unlink of this or a neighbouring item follows a stale pointer (self-loop / dangling tail after move-to-front then erase)' % (('lacks %s' % miss) if miss else '', (' has unexpected %s' % extra) if extra else ''))
    if not (restructured and (miss or extra)):
      ctx.check({dual(x) for x in gs} == gs, R, lab + '|unlink|self-dual', un, 'invariant under head<->tail, prev<->next', 'unlink_item is not symmetric under head<->tail, prev<->next')
    # resets come after every read of i->prev / i->next
    resets = [i for i, x in enumerate(got) if x in ('(i.prev = nullptr)', '(i.next = nullptr)')]
    uses = [i for i, x in enumerate(got) if x not in ('(i.prev = nullptr)', '(i.next = nullptr)')]
    if not (restructured and (miss or extra)):
      ctx.check(bool(resets) and bool(uses) and min(resets) > max(uses), R, lab + '|unlink|resets-last', un, 'the item\'s own links are cleared after they were used', 'the item\'s links are cleared before the neighbours were relinked')
    gl = stmt_set(ln)
    ctx.check(gl == LINK_WANT or (set(gl) == set(LINK_WANT) and gl.index('(i.next = this.head)') < gl.index('(this.head = i)') and gl.index('if this.head: (this.head.prev = i)') < gl.index('(this.head = i)')), R, lab + '|link|push-front', ln,
              'push-front: i->next = head; old head->prev = i; head = i; tail = i if empty', 'link_item is %s' % gl)

    # ---- R3 pairing
    R = 'C12-R3'
    # a map insert stores the value it was given also when the key already existed
    for f in fs:
        if f.get('name') != 'insert' or len(params_of(f)) < 2 or 'Map' not in lab:
            continue
        vp = params_of(f)[1]
        stores = [x for x in walk(body_of(f)) if ((x.get('kind') == 'BinaryOperator' and x.get('opcode') == '=') or (x.get('kind') == 'CXXOperatorCallExpr' and call_name(x) == 'operator=')) and
                  strip(x['inner'][0] if x.get('kind') == 'BinaryOperator' else x['inner'][1]).get('kind') == 'MemberExpr' and strip(x['inner'][0] if x.get('kind') == 'BinaryOperator' else x['inner'][1]).get('name') == 'value' and
                  any((ref_decl(y) or {}).get('id') == vp['id'] for y in walk(x['inner'][1] if x.get('kind') == 'BinaryOperator' else x['inner'][2]))]
        created = {v.get('id') for v in walk(body_of(f)) if v.get('kind') == 'VarDecl' and dtype(v) == 'bool'}
        on_existing = [x for x in stores if not any((ref_decl(n_) or {}).get('id') in created and pol for n_, pol in atoms(path_facts(x)))]
        ctx.check(bool(on_existing), R, '%s::insert(%s)|existing-key-takes-new-value' % (lab, (qtype(vp) or '').replace('std::', '')), stores[0] if stores else f, 'the entry\'s value is assigned from the argument on the existing-key path',
                  'insert() of a key that is already present never stores the new value (%s): at() keeps returning the old one' % ('the only store is on the new-entry path' if stores else 'no assignment to the entry\'s value'))
    # the key pointer an item keeps (evict_object hands it out, erase looks it up) points at the map node's own key
    for f in fs:
        if 'Map' not in lab or body_of(f) is None:
            continue
        kn = 0
        for x in walk(body_of(f)):
            if x.get('kind') == 'BinaryOperator' and x.get('opcode') == '=' and strip(x['inner'][0]).get('kind') == 'MemberExpr' and strip(x['inner'][0]).get('name') == 'key' and '*' in (qtype(strip(x['inner'][0])) or ''):
                kn += 1
                r0 = strip(x['inner'][1])
                while r0 is not None and r0.get('kind') in ('ImplicitCastExpr', 'ParenExpr') and kids(r0):
                    r0 = strip(kids(r0)[0])
                key_ = '%s::%s(%s)|key-pointer#%d' % (lab, f.get('name'), ','.join((qtype(p_) or '').replace('std::', '') for p_ in params_of(f)), kn)
                tgt = strip(kids(r0)[0]) if r0 is not None and r0.get('kind') == 'UnaryOperator' and r0.get('opcode') == '&' else None
                if tgt is not None and tgt.get('kind') == 'MemberExpr' and tgt.get('name') == 'first':
                    ctx.ok(R, key_, x, 'the item\'s key pointer is the address of the map node\'s key')
                elif tgt is not None and (ref_decl(tgt) or {}).get('kind') == 'ParmVarDecl':
                    ctx.bad(R, key_, x, 'the item keeps `%s`, the address of the caller\'s argument, as its key: after the call returns the pointer dangles (or names whatever the caller stores there next), so evict_object returns and erases the wrong key' % src_text(x['inner'][1], 30))
                elif r0 is not None and r0.get('kind') in ('CXXNullPtrLiteralExpr', 'GNUNullExpr'):
                    pass
                else:
                    ctx.undecided(R, key_, x, 'the key pointer is set from `%s`' % src_text(x['inner'][1], 40))
    n_erase = 0
    for f in fs:
        body = body_of(f)
        for c in walk(body):
            if c.get('kind') == 'CXXMemberCallExpr' and call_name(c) == 'erase' and canon(member_call_object(c)) == 'this.items':
                n_erase += 1
                key = '%s::%s|erase-after-unlink' % (lab, f.get('name'))
                pre = preceding_statements(c)
                unl = [s for s in pre if strip(s).get('kind') == 'CXXMemberCallExpr' and call_name(strip(s)) == 'unlink_item']
                ctx.check(len(unl) >= 1, R, key, c, 'unlink_item dominates items.erase', 'the map node is destroyed without a dominating unlink_item(): the recency list keeps a pointer to freed memory (head is not reset when the last entry goes)')
                # fields of the item are read before it is destroyed
                later = [x for s in _following(c) for x in walk(s) if x.get('kind') == 'MemberExpr' and x.get('name') in ('size', 'key', 'value', 'prev', 'next') and _through_item(x)]
                ctx.check(not later, R, '%s::%s|no-use-after-erase' % (lab, f.get('name')), later[0] if later else c, 'no item field is read after the erase', 'an item field is read after items.erase(): use after free')
    ctx.require(n_erase >= 2, '%s: items.erase sites not found' % cls)
    # size writes are paired with a total_size adjustment in the same block
    for f in fs:
        if f.get('kind') in ('CXXConstructorDecl', 'CXXDestructorDecl'):
            continue
        body = body_of(f)
        k_ = 0
        for x in walk(body):
            if x.get('kind') == 'BinaryOperator' and x.get('opcode') == '=' and strip(x['inner'][0]).get('kind') == 'MemberExpr' and strip(x['inner'][0]).get('name') == 'size' and 'this.size' != canon(x['inner'][0]) \
               and not canon(x['inner'][0]).startswith('ret'):
                k_ += 1
                blk = enclosing(x, ('CompoundStmt',))
                adj = [y for y in kids(blk) if strip(y).get('kind') == 'CompoundAssignOperator' and canon(strip(y)['inner'][0]) == 'this.total_size']
                key = '%s::%s|size-write#%d' % (lab, f.get('name'), k_)
                from poly import Poly as _P, p_add as _padd, p_str as _pstr
                PLs = _P(f, u)
                item = canon(x['inner'][0])
                newp = PLs.poly(x['inner'][1])
                oldp = PLs.poly(x['inner'][0])
                why = 'the entry size is overwritten without adjusting total_size in the same block'
                ok = False
                if adj and all(strip(y)['opcode'] in ('+=', '-=') for y in adj):
                    net = {}
                    reads_old_after = False
                    for y in adj:
                        a = strip(y)
                        net = _padd(net, PLs.poly(a['inner'][1]), 1 if a['opcode'] == '+=' else -1)
                        # the old size must be read before it is overwritten (directly, or through a local computed earlier)
                        mentions_old = item in canon(a['inner'][1])
                        if mentions_old and a.get('_off', 0) > x.get('_off', 0):
                            reads_old_after = True
                    for v_ in walk(body):
                        if v_.get('kind') == 'VarDecl' and kids(v_) and item in canon(kids(v_)[-1]) and v_.get('_off', 0) > x.get('_off', 0) and any((ref_decl(z_) or {}).get('id') == v_.get('id') for y in adj for z_ in walk(y)):
                            reads_old_after = True
                    if net == newp:
                        ok = True      # a fresh entry: nothing to subtract
                    elif net == _padd(newp, oldp, -1):
                        ok = not reads_old_after
                        why = 'total_size is adjusted by (new - old) after the old size was already overwritten'
                    else:
                        why = 'total_size changes by %s in this block, the size written changes the entry by %s' % (_pstr(net), _pstr(_padd(newp, oldp, -1)))
                ctx.check(ok, R, key, x, 'total_size adjusted by the same delta', why)
    cl = byname.get('clear', [None])[0]
    if cl is not None:
        got = set(stmt_set(cl))
        ctx.check(got == {'(this.head = nullptr)', '(this.tail = nullptr)', 'this.items.clear()', '(this.total_size = 0)'}, R, lab + '|clear', cl, 'clear resets head, tail, items and total_size', 'clear() does %s' % sorted(got))
    # touch / change_size: the size update is reached on every successful path
    for nm in ('touch', 'change_size'):
        for f in byname.get(nm, []):
            body = body_of(f)
            def is_upd(x):
                return (x.get('kind') == 'CompoundAssignOperator' and canon(x['inner'][0]) == 'this.total_size') or (x.get('kind') == 'CXXMemberCallExpr' and call_name(x) == 'change_item_size')
            upd = [x for x in walk_deep(body, u) if is_upd(x)]
            rets = [r for r in walk(body) if r.get('kind') == 'ReturnStmt' and kids(r) and int_value(kids(r)[0]) == 1]
            ok = bool(upd) and bool(rets)
            for r in rets:
                pre = preceding_statements(r)
                if not any(is_upd(y) for s in pre for y in walk_deep(s, u)):
                    # the only way to succeed without touching the sizes: the caller asked to leave the size alone
                    keep = any(x_ and x_[1] == '<' and nf(x_[2]) == '0' and (ref_decl(x_[0]) or {}).get('kind') == 'ParmVarDecl' for x_ in [relation(n_, p_) for n_, p_ in atoms(path_facts(r))])
                    if not keep:
                        ok = False
            ctx.check(ok, R, '%s::%s|size-update-reached' % (lab, nm), rets[0] if rets else f, 'every `return true` is preceded by the size update', 'a successful return skips the size update (e.g. an early return when the entry is already the head): size() no longer equals the sum of the entry sizes')
    er = byname.get('erase', [None])[0]
    if er is not None:
        sub = [x for x in walk(body_of(er)) if x.get('kind') == 'CompoundAssignOperator' and canon(x['inner'][0]) == 'this.total_size' and x.get('opcode') == '-=']
        from poly import Poly as _Poly
        PE_ = _Poly(er, u)
        amt = PE_.poly(sub[0]['inner'][1]) if len(sub) == 1 else None
        other_w = [x for x in walk(body_of(er)) if x.get('kind') in ('BinaryOperator', 'CompoundAssignOperator') and x.get('opcode') in ('=', '+=') and canon(x['inner'][0]) == 'this.total_size']
        if len(sub) != 1 and (other_w or len(sub) > 1):
            ctx.undecided(R, lab + '::erase|total-decreased', er, 'erase adjusts total_size in a form the rule does not read')
        else:
            ctx.check(amt is not None and len(amt) == 1 and list(amt.values()) == [1] and len(list(amt)[0]) == 1 and list(amt)[0][0].endswith('.size'), R, lab + '::erase|total-decreased', er, 'total_size -= item.size', 'erase does not subtract the entry size')
    ev = byname.get('evict_object', [None])[0]
    if ev is not None:
        sub = [x for x in walk(body_of(ev)) if x.get('kind') == 'CompoundAssignOperator' and canon(x['inner'][0]) == 'this.total_size' and x.get('opcode') == '-=']
        src = [v for v in walk(body_of(ev)) if v.get('kind') == 'VarDecl' and kids(v) and '*' in (qtype(v) or '') and nf(kids(v)[-1]) == 'this.tail']
        unl_ = [c for c in walk(body_of(ev)) if c.get('kind') == 'CXXMemberCallExpr' and call_name(c) == 'unlink_item']
        src = [v for v in src if unl_ and (ref_decl(call_args(unl_[0])[0]) or {}).get('id') == v['id']]
        ctx.check(len(sub) == 1 and src and nf(kids(src[0])[-1]) == 'this.tail', R, lab + '::evict_object|tail-and-total', ev, 'evicts the tail and subtracts its size', 'evict_object does not take the tail entry or does not subtract its size')

    # ---- R4 field exhaustiveness of swap
    R = 'C12-R4'
    sw = byname.get('swap', [None])[0]
    rec = u.record_of(sw) if sw is not None else u.record_of(un)
    fields = [c.get('name') for c in kids(rec) if c.get('kind') == 'FieldDecl']
    if sw is not None:
        txt = stmt_set(sw)
        handled = set()
        for fld in fields:
            a = '(this.%s = other.%s)' % (fld, fld) in txt or 'this.%s.swap(other.%s)' % (fld, fld) in txt or 'std::swap(this.%s, other.%s)' % (fld, fld) in txt
            b = any(re.match(r'^\(other\.%s = this_%s\)$' % (fld, fld), t) for t in txt) or 'this.%s.swap(other.%s)' % (fld, fld) in txt or 'std::swap(this.%s, other.%s)' % (fld, fld) in txt
            saved = any(True for v in walk(body_of(sw)) if v.get('kind') == 'VarDecl' and v.get('name') == 'this_' + fld and kids(v) and nf(kids(v)[-1]) == 'this.' + fld) or 'this.%s.swap(other.%s)' % (fld, fld) in txt
            if a and b and saved:
                handled.add(fld)
            # std::swap(this->f, other.f) in any spelling
            for c_ in walk(body_of(sw)):
                if c_.get('kind') == 'CallExpr' and call_name(c_) == 'swap' and len(call_args(c_)) == 2 and sorted(nf(x_) for x_ in call_args(c_)) == sorted(['this.%s' % fld, 'other.%s' % fld]):
                    handled.add(fld)
        ctx.check(handled == set(fields), R, lab + '|swap|all-fields', sw, 'swap exchanges %s' % sorted(fields), 'swap does not exchange %s' % sorted(set(fields) - handled))
    ctx.check(sorted(fields) == ['head', 'items', 'tail', 'total_size'], R, lab + '|fields', rec, 'data members are head, tail, items, total_size', 'class has data members %s: swap/clear rules are written for head, tail, items, total_size' % fields)

    # ---- R5 touch table
    R = 'C12-R5'

    def touches(f):
        names = [call_name(c) for c in walk_deep(body_of(f), u) if c.get('kind') == 'CXXMemberCallExpr']
        return 'touch_item' in names or ('unlink_item' in names and 'link_item' in names)
    table = {'set': {'after_emplace': True, 'touch': True, 'change_size': False, 'peek': False, 'size': False, 'count': False},
             'map': {'at': True, 'item_size': False, 'insert': True, 'change_size': True, 'touch': True, 'size': False, 'count': False, 'empty': False}}[kind]
    for nm, want in sorted(table.items()):
        for i, f in enumerate(byname.get(nm, [])):
            t = touches(f)
            ctx.check(t == want, R, '%s::%s#%d|refreshes-recency=%s' % (lab, nm, i, want), f, 'recency %s' % ('refreshed' if want else 'left alone'),
                      '%s::%s %s the entry\'s recency, the documented behaviour is the opposite' % (lab, nm, 'refreshes' if t else 'no longer refreshes'))
    # ... and refreshes it on every normal exit, not just somewhere in the function: each return is
    # preceded (on its own path) by a relink or touch
    for nm, want in sorted(table.items()):
        if not want:
            continue
        for i, f in enumerate(byname.get(nm, [])):
            for r_ in [x for x in walk(body_of(f)) if x.get('kind') == 'ReturnStmt']:
                # "no such entry" exits (an out_of_range handler, a failed find) have nothing to refresh
                absent = enclosing(r_, ('CXXCatchStmt',)) is not None or any(('.end()' in nf(n_) and (('==' in nf(n_)) == bool(pol_))) for n_, pol_ in atoms(path_facts(r_)))
                if absent:
                    continue
                pre = preceding_statements(r_)
                relinked = any(c.get('kind') == 'CXXMemberCallExpr' and call_name(c) in ('touch_item', 'link_item', 'touch') for s_ in list(pre) + [r_] for c in walk_deep(s_, u))
                ctx.check(relinked, R, '%s::%s#%d|return@%s-after-relink' % (lab, nm, i, r_.get('_line')), r_, 'the entry is moved to the front before this return',
                          '%s::%s returns here without having moved the entry to the front (%s): using an entry this way does not refresh its recency and it is evicted as if it were the least recently used' % (lab, nm, src_text(enclosing(r_, ('IfStmt',)) or r_, 70)))
    if kind == 'map':
        for f in byname.get('change_size', []):
            tc = [c for c in walk(body_of(f)) if c.get('kind') == 'CXXMemberCallExpr' and call_name(c) == 'touch_item']
            ok = len(tc) == 1 and any((ref_decl(n_) or {}).get('name') == 'touch' and pol for n_, pol in atoms(path_facts(tc[0])))
            ctx.check(ok, R, lab + '::change_size|touch-flag', f, 'recency refreshed only when touch=true', 'change_size ignores its touch flag')
    # a move-to-front (unlink_item(x); link_item(x)) may be skipped only when x already is the head
    for f in fs:
        b_ = body_of(f)
        if b_ is None or f.get('name') in ('unlink_item', 'link_item'):
            continue
        k_ = 0
        for blk in [x for x in walk(b_) if x.get('kind') == 'CompoundStmt']:
            st = [strip(y) for y in kids(blk)]
            for j in range(len(st) - 1):
                if st[j].get('kind') == 'CXXMemberCallExpr' and call_name(st[j]) == 'unlink_item' and st[j + 1].get('kind') == 'CXXMemberCallExpr' and call_name(st[j + 1]) == 'link_item' \
                   and canon(call_args(st[j])[0]) == canon(call_args(st[j + 1])[0]):
                    k_ += 1
                    item = nf(call_args(st[j])[0])
                    par = blk.get('_p')
                    if par is None or par.get('kind') != 'IfStmt' or len(st) != 2:
                        ctx.ok(R, '%s::%s|relink#%d-unconditional' % (lab, f.get('name'), k_), st[j], 'relink is not guarded by a dedicated shortcut')
                        continue
                    cond, then, els = if_parts(par)
                    if then is not blk:
                        continue
                    c = nf(cond)
                    okc = c in ('(this.head != %s)' % item, '(%s != this.head)' % item)
                    ctx.check(okc, R, '%s::%s|relink#%d-shortcut' % (lab, f.get('name'), k_), par, 'move-to-front skipped only when the item already is the head',
                              'the move-to-front of %s is skipped under `%s`, which is not "already the head": an entry can keep a stale position after being used' % (item, src_text(cond, 60)))
    # touch on the head is a no-op on the list only (guard `head != &i` wraps exactly unlink+link)
    for nm in ('touch', 'touch_item'):
        for f in byname.get(nm, []):
            for s in walk(body_of(f)):
                if s.get('kind') == 'IfStmt':
                    cond, then, els = if_parts(s)
                    c = nf(cond)
                    if 'this.head' in c and ('!=' in c or '==' in c):
                        inner = [call_name(x) for x in walk(then) if x.get('kind') == 'CXXMemberCallExpr']
                        other = [x for x in walk(then) if x.get('kind') in ('ReturnStmt', 'CompoundAssignOperator')]
                        ctx.check(inner == ['unlink_item', 'link_item'] and not other and els is None, R, '%s::%s|head-shortcut' % (lab, nm), s, 'the head shortcut skips only the relink', 'the already-at-head shortcut does more than skipping unlink+link (%s)' % src_text(then, 80))


def _following(node):
    st = containing_statement(node)
    p = st.get('_p')
    out = []
    while p is not None and p.get('kind') == 'CompoundStmt':
        sibs = list(kids(p))
        i = next(j for j, s in enumerate(sibs) if s is st)
        out.extend(sibs[i + 1:])
        st = p
        p = p.get('_p')
    return out


def _through_item(m):
    b = strip(m['inner'][0]) if m.get('inner') else None
    if b is None:
        return False
    t = dtype(b) or ''
    return 'Item' in t


def run(ctx):
    ctx.rule('C12-R1', 'every member of LRUSet<int>, LRUSet<std::string>, LRUMap<int,std::string>, LRUMap<std::string,int> is well-formed when instantiated (explicit instantiation compiles)', 2)
    ctx.rule('C12-R2', 'list surgery: unlink_item has the four fix-ups and two resets, is self-dual under head<->tail/prev<->next, resets last; link_item is push-front', 8)
    ctx.rule('C12-R3', 'pairing: items.erase is dominated by unlink_item and followed by no item read; every entry-size write has the matching total_size adjustment; successful touch/change_size reach the size update; clear resets everything', 24)
    ctx.rule('C12-R4', 'swap exchanges every data member; the member set is {head, tail, items, total_size}', 4)
    ctx.rule('C12-R6', 'list surgery by shape evaluation (E-SHAPE): unlink_item, link_item and touch_item folded on every doubly linked list of up to 5 entries with the item at every position leave the list well-formed in both directions with the expected order', 8)
    SHAPE_DECIDED.clear()
    ctx.defer({'C12-R2'}, 'C12-R6', only=lambda k_: ('|unlink|' in k_ or '|link|' in k_) and k_.split('|')[0] in SHAPE_DECIDED or (k_.startswith('LRUSet/LRUMap|') and len(SHAPE_DECIDED) == 4))
    # touch_item is folded on list shapes as a whole (also with the item at the head): how it spells its shortcut is immaterial
    ctx.defer({'C12-R5'}, 'C12-R6', only=lambda k_: k_.endswith('::touch_item|head-shortcut') and k_.split('::touch_item')[0] in SHAPE_DECIDED)
    ctx.rule('C12-R5', 'recency table: which operations refresh recency (insert-existing, at, touch, change_size(touch)) and which do not (peek, item_size, count, size, LRUSet::change_size); the head shortcut skips only the relink', 18)
    R = 'C12-R1'
    okall = True
    for w in ('c12_set.cc', 'c12_map.cc'):
        ok, diag = try_compile(os.path.join(VERIF, 'witness', w))
        errs = [l for l in diag.split('\n') if 'error:' in l]
        ctx.check(ok, R, w, w, 'explicit instantiation compiles', 'a member does not compile when instantiated: %s' % ' | '.join(e.split('error:')[1].strip() + ' @' + e.split(': error')[0].split('/')[-1] for e in errs[:3]))
        okall = okall and ok
    if not okall:
        for rid in list(ctx.rules):
            d, m = ctx.rules[rid]
            ctx.rules[rid] = (d, 0 if rid != 'C12-R1' else m)
        ctx.note('Rules R2-R5 were not evaluated because the instantiation witness does not compile.')
        return
    us = ctx.unit(witness_unit('c12_set.cc'))
    um = ctx.unit(witness_unit('c12_map.cc'))
    sets = members(us, 'phosg::LRUSet<')
    maps = members(um, 'phosg::LRUMap<')
    ctx.require(len(sets) == 2 and len(maps) == 2, 'LRU instantiations not found: %s %s' % (list(sets), list(maps)))
    for cls, fs in sorted(sets.items()):
        check_class(ctx, us, 'LRUSet<' + cls, fs, 'set')
    for cls, fs in sorted(maps.items()):
        check_class(ctx, um, 'LRUMap<' + cls, fs, 'map')
    # LRUSet and LRUMap list functions are identical
    a = next(iter(sets.values()))
    b = next(iter(maps.values()))
    for nm in ('unlink_item', 'link_item'):
        fa = next(f for f in a if f.get('name') == nm)
        fb = next(f for f in b if f.get('name') == nm)
        d_ = set(stmt_set(fa)) ^ set(stmt_set(fb))
        if len(d_) > 3:
            ctx.note('%s is written differently in LRUSet and LRUMap (each is judged on its own)' % nm)
            continue
        ctx.check(stmt_set(fa) == stmt_set(fb), 'C12-R2', 'LRUSet/LRUMap|%s-identical' % nm, fb, 'both containers use the same %s' % nm, '%s differs between LRUSet and LRUMap' % nm)
    ctx.note('Instantiation matrix: LRUSet<int>, LRUSet<std::string>, LRUMap<int,std::string>, LRUMap<std::string,int>.')
