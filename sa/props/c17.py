"""C17 - command-line arguments (decided part: every token is classified exactly once,
used flags are set wherever text is handed out, assert_none_unused covers every
container, integer acceptance evaluated on the boundary values of all 8 integer types,
exception types of the typed getters).  Shell-like tokenisation equality is C08 territory."""
import re

from ast_ import *
from path import *
from bits import *
from tables import TableEval

INT_TYPES_ = [('u8', 8, False), ('s8', 8, True), ('u16', 16, False), ('s16', 16, True), ('u32', 32, False), ('s32', 32, True), ('u64', 64, False), ('s64', 64, True)]
NATIVE = {('u', 8): 'unsigned char', ('s', 8): 'signed char', ('u', 16): 'unsigned short', ('s', 16): 'short', ('u', 32): 'unsigned int', ('s', 32): 'int', ('u', 64): 'unsigned long', ('s', 64): 'long'}


def targs(f):
    return [c['type']['qualType'] for c in kids(f) if c.get('kind') == 'TemplateArgument' and 'type' in c]


def adds_token(stmt):
    """every normally-completing path through stmt stores the token into positional or named"""
    s0 = strip(stmt)
    k = s0.get('kind')
    if not k:
        return False
    if k == 'CompoundStmt':
        return any(adds_token(c) for c in kids(s0) if falls_through(c)) or any(not falls_through(c) for c in kids(s0))
    if k == 'IfStmt':
        cond, then, els = if_parts(s0)
        return adds_token(then) and els is not None and adds_token(els)
    if k == 'ForStmt':
        # the flag group: one entry per letter, added unconditionally in the body
        body = loop_body(s0)
        return any(is_add(strip(c)) for c in stmts_of(body))
    return is_add(s0)


def is_add(s0):
    if s0.get('kind') != 'CXXMemberCallExpr' or call_name(s0) not in ('emplace_back', 'push_back'):
        return False
    o = canon(member_call_object(s0))
    return o == 'this.positional' or o.startswith('this.named[')



def copy_origin(e, body, unit, depth=0):
    """the by-value local (VarDecl) an element expression ultimately lives in, or None when it
    designates storage reached through references from `this`"""
    e = strip(e)
    while e is not None and e.get('kind') in ('ImplicitCastExpr', 'ParenExpr', 'MaterializeTemporaryExpr', 'ExprWithCleanups') and kids(e):
        e = strip(kids(e)[0])
    if e is None or depth > 8:
        return None
    k = e.get('kind')
    if k == 'DeclRefExpr':
        rd = ref_decl(e) or {}
        d = next((v for v in walk(body) if v.get('kind') == 'VarDecl' and v.get('id') == rd.get('id')), None)
        if d is None:
            return None          # parameter / member: not a local copy
        qt = (qtype(d) or '').rstrip()
        if qt.endswith('&') or qt.endswith('&&') or qt.endswith('*'):
            # a reference: follow what it is bound to (range-for variables: the range)
            lp = d.get('_p')
            while lp is not None and lp.get('kind') not in ('CXXForRangeStmt', 'CompoundStmt', 'FunctionDecl', 'CXXMethodDecl'):
                lp = lp.get('_p')
            if lp is not None and lp.get('kind') == 'CXXForRangeStmt' and not (d.get('name') or '').startswith('__'):
                rng = next((v for x in kids(lp) if x.get('kind') == 'DeclStmt' for v in kids(x) if v.get('kind') == 'VarDecl' and (v.get('name') or '').startswith('__range') and kids(v)), None)
                return copy_origin(kids(rng)[-1], body, unit, depth + 1) if rng is not None else None
            return copy_origin(kids(d)[-1], body, unit, depth + 1) if kids(d) else None
        dt_ = (dtype(d) or '') + ' ' + (qtype(d) or '')
        if any(w_ in dt_ for w_ in ('iterator', '_ptr<', 'reference_wrapper', 'span<', 'string_view')):
            return None          # a handle into storage, not a copy of it
        # a by-value local of class type: a copy
        return d if kids(d) and int_type_info(dtype(d) or '') is None else None
    if k == 'MemberExpr':
        return copy_origin(kids(e)[0], body, unit, depth + 1) if kids(e) and not is_this(kids(e)[0]) else None
    if k == 'CXXOperatorCallExpr' and call_name(e) in ('operator[]', 'operator*', 'operator->'):
        return copy_origin(kids(e)[1], body, unit, depth + 1)
    if k == 'CXXMemberCallExpr' and call_name(e) in ('at', 'front', 'back', 'begin', 'end', 'second', 'first'):
        return copy_origin(member_call_object(e), body, unit, depth + 1)
    if k == 'ArraySubscriptExpr':
        return copy_origin(e['inner'][0], body, unit, depth + 1)
    if k in ('CXXMemberCallExpr', 'CallExpr'):
        # a container handed back BY VALUE by one of the class's own functions is a temporary copy
        d = callee_decl(e, unit)
        rt = ((d or {}).get('type', {}).get('qualType') or '').split('(')[0].strip()
        if d is not None and rt and not rt.endswith(('&', '*')) and any(w_ in rt for w_ in ('vector', 'deque', 'list', 'map', 'ArgText')) and 'phosg' in (unit.qualname(d) or ''):
            return e
    return None

def run(ctx):
    ctx.rule('C17-R1', 'classification: the std::string constructor tokenises with split_args; every path through parse()\'s loop body stores the token once (positional, --name[=value], or one entry per flag letter, unconditionally); branch conditions and key/value slices are the documented ones', 6)
    ctx.rule('C17-R2', 'used flags: wherever an argument\'s text is handed out or parsed its used flag is set on the same element; assert_none_unused walks every container and throws invalid_argument on the first unused entry', 10)
    ctx.rule('C17-R3', 'integer acceptance per parse_int<RetT>: bases 0/16/10/8, "no digits" and "trailing characters" reject before any return; the range test is evaluated on the boundary values of each of the 8 integer types', 60)
    ctx.rule('C17-R4', 'exceptions: malformed text -> invalid_argument; missing argument -> out_of_range; default-value overloads catch out_of_range only', 10)
    ctx.rule('C17-R5', 'Arguments::parse evaluated (E-TABLE) on every token shape alone, in pairs, and on lists with repeated options and flag groups: positional / --name[=value] / one entry per flag letter, in order', 1)
    u = ctx.unit(repo_unit('Arguments.cc'))
    w = ctx.unit(witness_unit('c17.cc'))

    # ---------------- R1
    with ctx.section('C17-R1', 'C17'):
        R = 'C17-R1'
        ctors = u.func('phosg::Arguments::Arguments')
        sc = [f for f in ctors if len(params_of(f)) == 1 and (qtype(params_of(f)[0]) or '').replace('std::', '') in ('const string &', 'const basic_string<char> &')]
        ctx.require(len(sc) == 1, 'Arguments(const std::string&) not found')
        calls = [call_name(c) for c in walk(body_of(sc[0])) if c.get('kind') in ('CallExpr', 'CXXMemberCallExpr') and call_name(c) in ('split_args', 'parse', 'split', 'split_context')]
        ctx.check(calls == ['split_args', 'parse'], R, 'string-ctor|split_args-then-parse', sc[0], 'a single command-line string is tokenised by split_args, then classified', 'the string constructor calls %s' % calls)
        from props.c08 import check_split_args_quotes
        check_split_args_quotes(ctx, ctx.unit(repo_unit('Strings.cc')), R)
        # the classified containers are built by parse() alone: a getter that inserts (map operator[],
        # emplace, ...) makes an absent option "present without a value" for every later getter
        MUT = ('emplace', 'emplace_back', 'push_back', 'insert', 'try_emplace', 'insert_or_assign', 'erase', 'clear', 'swap', 'resize', 'pop_back', 'operator=')
        nmut = 0
        seen_fn = set()
        for unit_ in (u, w):
            for f in unit_.functions:
                q = unit_.qualname(f)
                if not q.startswith('phosg::Arguments::') or body_of(f) is None or is_dependent_pattern(f, unit_):
                    continue
                key_f = (f.get('mangledName') or q)
                if key_f in seen_fn:
                    continue
                seen_fn.add(key_f)
                for x in walk(body_of(f)):
                    tgt = None
                    if x.get('kind') == 'CXXOperatorCallExpr' and call_name(x) in ('operator[]', 'operator=') and len(kids(x)) >= 2 and canon(kids(x)[1]) in ('this.named', 'this.positional'):
                        if call_name(x) == 'operator[]' and canon(kids(x)[1]) == 'this.positional':
                            continue    # vector subscripts do not insert
                        tgt = (canon(kids(x)[1]), call_name(x))
                    if x.get('kind') == 'CXXMemberCallExpr' and call_name(x) in MUT and canon(member_call_object(x)) in ('this.named', 'this.positional'):
                        tgt = (canon(member_call_object(x)), call_name(x))
                    if tgt is None:
                        continue
                    nmut += 1
                    okm = f.get('name') in ('parse',) or f.get('kind') == 'CXXConstructorDecl'
                    ctx.check(okm, R, '%s|container-built-by-parse-only|%s.%s@%s' % (f.get('name'), tgt[0], tgt[1], x.get('_line')), x, '%s.%s inside %s' % (tgt[0], tgt[1], f.get('name')),
                              '%s modifies %s through %s: after this call an option that was never given exists with no value, so later getters throw or report it present' % (f.get('name'), tgt[0], tgt[1]))
        ctx.require(nmut >= 4, 'no insertion into named/positional found (expected in parse)')
    # ---------------- R5: parse() evaluated (E-TABLE) on token-shape representatives and short lists
    R5 = 'C17-R5'
    from peval import PEval, Rec, VecL, MapL, Str as PStr, Lit as PLit, Undecided as PUnd, Fault as PFault, Thrown as PThrown
    PE5 = PEval([u], max_depth=8)
    Pfn = next((f_ for f_ in u.func('phosg::Arguments::parse') if body_of(f_) is not None), None)

    def spec_parse(tokens):
        pos, named = [], {}
        for t_ in tokens:
            if not t_ or t_[:1] != b'-' or t_ in (b'-', b'--'):
                pos.append(t_)
            elif t_[:2] == b'--':
                j_ = t_.find(b'=', 2)
                if j_ < 0:
                    named.setdefault(t_[2:], []).append(b'')
                else:
                    named.setdefault(t_[2:j_], []).append(t_[j_ + 1:])
            else:
                for c_ in t_[1:]:
                    named.setdefault(bytes([c_]), []).append(b'')
        return pos, named
    singles = [b'', b'a', b'abc', b'a-b', b'a=b', b'=', b'-', b'--', b'---', b'-a', b'-ab', b'-aab', b'-a-', b'-=', b'-a=b', b'--a', b'--name', b'--name=value', b'--name=', b'--=v', b'--=', b'--n=a=b', b'--a-b=c', b'--x=--y', b'-- ', b' -a']
    lists = [[t_] for t_ in singles] + [[a_, b_] for a_ in singles[::3] for b_ in singles[1::4]] + [[b'--x=1', b'p', b'--x=2', b'-vv', b'q'], [b'-v', b'-v', b'--v'], [b'p1', b'p2', b'p3']]
    r5 = {'ok': 0, 'bad': None, 'und': None}
    for toks in lists:
        if Pfn is None:
            r5['und'] = 'Arguments::parse not found'
            break
        this = Rec()
        this.f['positional'] = VecL()
        this.f['named'] = MapL()
        try:
            PE5.call_with(Pfn, [VecL([PStr(t_) for t_ in toks])], this=this)
        except (PThrown, PFault) as e_:
            r5['bad'] = r5['bad'] or (toks, 'evaluation throws / faults: %s' % e_)
            continue
        except PUnd as e_:
            r5['und'] = str(e_)
            break
        tx = lambda x_: bytes(x_.b) if isinstance(x_, PStr) else x_.cstr() if isinstance(x_, PLit) else x_
        got = ([tx(x_) for x_ in this.f['positional'].items], {k_: [tx(x_) for x_ in v_.items] for k_, v_ in this.f['named'].d.items()})
        want = spec_parse(toks)
        if got != want:
            r5['bad'] = r5['bad'] or (toks, 'it is classified as positional %s, named %s; the documented classification is positional %s, named %s' % (got[0], got[1], want[0], want[1]))
        else:
            r5['ok'] += 1
    if r5['und']:
        ctx.undecided(R5, 'parse|evaluated', Pfn or u.path, 'Arguments::parse could not be evaluated (%s)' % r5['und'])
    elif r5['bad']:
        ctx.bad(R5, 'parse|evaluated', Pfn, 'for the token list %s %s' % ([t_.decode('latin1') for t_ in r5['bad'][0]], r5['bad'][1]))
    else:
        ctx.ok(R5, 'parse|evaluated', Pfn, '%d token lists (every token shape alone, in pairs, repeated options and flag groups) are classified as documented, in order' % r5['ok'])
    r5_decides = not r5['und'] and not r5['bad']

    class _Shape(Exception):
        pass

    def need(cond, msg):
        if not cond:
            raise _Shape(msg)

    def parse_structure():
        P = u.func('phosg::Arguments::parse')[0]
        ctx.fn('Arguments::parse')
        check_no_goto(P)
        lp = [x for x in walk(body_of(P)) if x.get('kind') == 'CXXForRangeStmt']
        need(len(lp) == 1, 'parse: token loop not found')
        lb = loop_body(lp[0])
        # Classification is decided as a finite boolean problem: the token shape is described by six
        # atoms (empty, first char is a dash, length 1, second char is a dash, length 2, an '=' was found);
        # every store site's path condition is evaluated on all consistent assignments and the union
        # per kind of store must be exactly the documented class.  Any control-flow shape is accepted.
        adds = [c for c in walk(lb) if is_add(c)]
        ATOMS = ['E', 'D0', 'S1', 'D1', 'S2', 'EQ']

        def atom_of(n):
            """(atom, positive?) for a leaf condition, or None"""
            n0 = strip(n)
            t = nf(n0).replace('std::basic_string<char>::npos', 'npos').replace('std::string::npos', 'npos')
            if t == 'arg.empty()':
                return 'E', True
            r = relation(n0, True)
            if r and r[1] in ('==', '!='):
                a_, b_ = sorted([nf(r[0]).replace('std::basic_string<char>::npos', 'npos').replace('std::string::npos', 'npos'), nf(r[2]).replace('std::basic_string<char>::npos', 'npos').replace('std::string::npos', 'npos')])
                key = {('45', 'arg[0]'): 'D0', ('45', 'arg[1]'): 'D1', ('1', 'arg.size()'): 'S1', ('2', 'arg.size()'): 'S2'}.get((a_, b_))
                if key:
                    return key, r[1] == '=='
                if 'npos' in (a_, b_) and any('find(61' in x_ or 'equal_pos' in x_ for x_ in (a_, b_)):
                    return 'EQ', r[1] == '!='
                if (a_, b_) == ('0', 'arg.size()'):
                    return 'E', r[1] == '=='
            return None

        def ev(n, asg):
            n0 = strip(n)
            k = n0.get('kind')
            if k == 'UnaryOperator' and n0.get('opcode') == '!':
                v = ev(n0['inner'][0], asg)
                return None if v is None else (not v)
            if k == 'BinaryOperator' and n0.get('opcode') in ('&&', '||'):
                x, y = ev(n0['inner'][0], asg), ev(n0['inner'][1], asg)
                if x is None or y is None:
                    # short-circuit may still decide
                    if n0['opcode'] == '&&' and (x is False or y is False):
                        return False
                    if n0['opcode'] == '||' and (x is True or y is True):
                        return True
                    return None
                return (x and y) if n0['opcode'] == '&&' else (x or y)
            if k == 'DeclRefExpr':
                rd = n0.get('referencedDecl') or {}
                if ((rd.get('type') or {}).get('qualType') or '').replace('const ', '') == 'bool':
                    from path import _single_assignment_init
                    init = _single_assignment_init(rd)
                    if init is not None:
                        return ev(init, asg)
            at = atom_of(n0)
            if at is None:
                return None
            return asg[at[0]] if at[1] else (not asg[at[0]])
        rows = []
        import itertools
        for bits in itertools.product((False, True), repeat=6):
            asg = dict(zip(ATOMS, bits))
            if asg['E'] and (asg['D0'] or asg['S1'] or asg['D1'] or asg['S2']):
                continue
            if asg['S1'] and (asg['S2'] or asg['D1']):
                continue
            rows.append(asg)

        def kind_of(c):
            t = nf(c)
            if t.startswith('this.positional.'):
                return 'positional' if t == 'this.positional.emplace_back(move(arg))' or t == 'this.positional.emplace_back(arg)' or t == 'this.positional.push_back(arg)' else None
            if t == 'this.named[arg.substr(2, (equal_pos - 2))].emplace_back(arg.substr((1 + equal_pos)))':
                return 'named=value'
            if t in ('this.named[arg.substr(2)].emplace_back("")', 'this.named[arg.substr(2)].emplace_back()'):
                return 'named'
            if t in ('this.named[arg.substr(z, 1)].emplace_back("")', 'this.named[arg.substr(z, 1)].emplace_back()'):
                return 'flags'
            return None
        want_cls = {
            'positional': lambda a: a['E'] or not a['D0'] or a['S1'] or (a['D1'] and a['S2']),
            'flags': lambda a: a['D0'] and not a['E'] and not a['S1'] and not a['D1'],
            'named=value': lambda a: a['D0'] and not a['S1'] and a['D1'] and not a['S2'] and a['EQ'],
            'named': lambda a: a['D0'] and not a['S1'] and a['D1'] and not a['S2'] and not a['EQ'],
        }
        reach = {k_: [False] * len(rows) for k_ in want_cls}
        unknown_site = None
        for c in adds:
            kd = kind_of(c)
            if kd is None:
                ctx.bad(R, 'parse|slices|%s' % nf(c)[:50], c, 'token is stored as `%s`, which is none of: positional arg / name between -- and = with the value after = / --name with empty value / one letter per flag' % nf(c))
                continue
            facts = path_facts(c, stop=lp[0])
            # conditions of loops between the site and the token loop (the flag-group loop) are not shape atoms
            facts = [f_ for f_ in facts if f_.origin is None or f_.origin.get('kind') not in LOOPS]
            for i_, asg in enumerate(rows):
                vals = [ev(f_.cond, asg) for f_ in facts]
                if any(v is None for v in vals):
                    unknown_site = (c, [nf(f_.cond) for f_, v in zip(facts, vals) if v is None][:2])
                    break
                if all(v == f_.pol for v, f_ in zip(vals, facts)):
                    reach[kd][i_] = True
        if unknown_site is not None:
            ctx.undecided(R, 'parse|partition', unknown_site[0], 'a store site is guarded by a condition outside the six token-shape atoms: %s' % unknown_site[1])
        else:
            for kd, fn_ in want_cls.items():
                wrong = [rows[i_] for i_ in range(len(rows)) if reach[kd][i_] != bool(fn_(rows[i_]))]
                ctx.check(not wrong, R, 'parse|partition|' + kd, lp[0], 'tokens stored as %s are exactly the documented class' % kd,
                          'a token with shape {%s} is %s stored as %s' % (', '.join('%s=%d' % (k_, v_) for k_, v_ in (wrong[0] if wrong else {}).items()), 'wrongly' if wrong and reach[kd][rows.index(wrong[0])] else 'not', kd))
            multi = [i_ for i_ in range(len(rows)) if sum(1 for kd in reach if reach[kd][i_]) != 1]
            ctx.check(not multi, R, 'parse|every-token-stored', lp[0], 'every token shape reaches exactly one kind of store', 'a token with shape {%s} reaches %d kinds of store: it is dropped or recorded twice' % (', '.join('%s=%d' % (k_, v_) for k_, v_ in (rows[multi[0]] if multi else {}).items()), sum(1 for kd in reach if multi and reach[kd][multi[0]])))
        esc = [x for x in walk(lb) if x.get('kind') in ('BreakStmt', 'ReturnStmt') and enclosing(x, LOOPS) is lp[0]]
        ctx.check(not esc, R, 'parse|no-early-exit', esc[0] if esc else lp[0], 'the token loop is never left early', 'parse() leaves the token loop early: the remaining tokens are dropped')
        fl = [x for x in walk(lb) if x.get('kind') == 'ForStmt']
        okf = len(fl) == 1
        if okf:
            init, cv, cond, inc, fb = for_parts(fl[0])
            zd = next((v for v in walk(init) if v.get('kind') == 'VarDecl'), None)
            okf = zd is not None and int_value(kids(zd)[-1]) == 1 and nf(cond) in ('(0 != arg[z])', '(arg[z] != 0)', '(z < arg.size())') and nf(inc) == '(z++)' and [is_add(strip(s)) for s in stmts_of(fb)] == [True]
        ctx.check(okf, R, 'parse|flag-group', fl[0] if fl else lp[0], 'every letter after the dash becomes one flag entry', 'the flag-group loop does not record exactly one entry per letter unconditionally (repeated letters must be kept: get_multi counts them)')
        eq = next((v for v in walk(lb) if v.get('kind') == 'VarDecl' and v.get('name') == 'equal_pos'), None)
        ctx.check(eq is not None and nf(kids(eq)[-1]) == 'arg.find(61, 2)', R, 'parse|equals-search', eq or lp[0], 'the first = after the -- prefix splits name and value', 'the = search changed: %s' % (nf(kids(eq)[-1]) if eq else None))


    real_bad = ctx.bad
    if r5_decides:
        ctx.bad = lambda rule_, key_, node_, detail_='': ctx.undecided(rule_, key_, node_, 'differs from the structural pattern (%s); behaviour decided by evaluation (C17-R5)' % detail_[:160])
    try:
        parse_structure()
    except (_Shape, StopIteration) as e_:
        if r5_decides:
            ctx.undecided(R, 'parse|structure', u.path, 'parse() is not written in the shape the structural rule reads (%s): decided by evaluation (C17-R5)' % (e_ or 'anchor missing'))
        else:
            raise AnalysisBroken(str(e_) or 'anchor missing')
    finally:
        ctx.bad = real_bad

    # ---------------- R2
    with ctx.section('C17-R2', 'C17'):
        R = 'C17-R2'
        accessors = [f for f in w.functions if strip_targs(w.qualname(f)).startswith('phosg::Arguments::get') and not is_dependent_pattern(f, w)]
        ctx.require(len(accessors) >= 20, 'Arguments accessor instantiations not found (%d)' % len(accessors))
        seen = set()
        n_text = 0
        for f in accessors:
            lab = '%s<%s>(%s)' % (f['name'], ','.join(t.replace('std::', '') for t in targs(f)), ','.join((qtype(p) or '').replace('std::', '') for p in params_of(f)))
            if lab in seen:
                continue
            seen.add(lab)
            body = body_of(f)
            texts = [x for x in walk(body) if x.get('kind') == 'MemberExpr' and x.get('name') == 'text' and 'ArgText' in (dtype(x['inner'][0]) or '')]
            for i, t in enumerate(texts):
                n_text += 1
                ctx.fn('Arguments::' + lab)
                base = canon(t['inner'][0])
                blk = enclosing(t, ('CompoundStmt',))
                marks = [s for s in kids(blk) if strip(s).get('kind') == 'BinaryOperator' and nf(strip(s)) == '(%s.used = 1)' % base]
                ctx.check(len(marks) == 1, R, '%s|text-use#%d-marks-used' % (lab, i), t, '%s.used = true next to the use of %s.text' % (base, base),
                          '%s.text is handed out without setting %s.used: assert_none_unused() then reports an argument that was read' % (base, base))
                # the element that is marked must be the stored one, not an element of a copy of the container
                cp = copy_origin(t['inner'][0], body, w)
                if cp is not None:
                    ctx.bad(R, '%s|text-use#%d-marks-stored-element' % (lab, i), cp, '%s is an element of `%s`, a by-value copy of the stored arguments: setting %s.used marks the copy, the stored argument stays unused and assert_none_unused() reports an argument that was read' % (base, src_text(cp, 60), base))
        ctx.require(n_text >= 8, 'uses of ArgText::text not found (%d)' % n_text)
        anu = u.func('phosg::Arguments::assert_none_unused')[0]
        ctx.fn('Arguments::assert_none_unused')
        rec = u.record_of(anu)
        holders = sorted(c['name'] for c in kids(rec) if c.get('kind') == 'FieldDecl' and 'ArgText' in (qtype(c) or '') + (c.get('type', {}).get('desugaredQualType') or ''))
        walked = set()
        for x in walk(body_of(anu)):
            if x.get('kind') == 'MemberExpr' and x.get('name') in holders and (not x.get('inner') or is_this(x['inner'][0])):
                walked.add(x['name'])
        ctx.check(holders == ['named', 'positional'] and walked == set(holders), R, 'assert_none_unused|all-containers', anu, 'walks %s' % holders, 'assert_none_unused does not inspect %s' % sorted(set(holders) - walked))
        # every throw is reached exactly under `!entry.used` (an `if (used) continue;` before it is the same
        # thing); nothing else leaves a loop
        throws_ = [t for t in walk(body_of(anu)) if t.get('kind') == 'CXXThrowExpr']
        okt = len(throws_) == 2 and all('invalid_argument' in (dtype(kids(t)[0]) or '') for t in throws_)
        for t in throws_:
            fs_ = [(nf(n_), pol_) for n_, pol_ in atoms(path_facts(t))]
            used_ = [f_ for f_ in fs_ if f_[0].endswith('.used')]
            other_ = [f_ for f_ in fs_ if not f_[0].endswith('.used')]
            okt = okt and len(used_) == 1 and bool(re.match(r'^[\w\[\]\.]+\.used$', used_[0][0])) and used_[0][1] is False and all('.size()' in f_[0] and f_[1] for f_ in other_)
        loops_ = [x for x in walk(body_of(anu)) if x.get('kind') in LOOPS]
        okt = okt and len(loops_) == 3 and not any(x.get('kind') in ('BreakStmt', 'ReturnStmt') for x in walk(body_of(anu)))
        for c_ in [x for x in walk(body_of(anu)) if x.get('kind') == 'ContinueStmt']:
            fs_ = [(nf(n_), pol_) for n_, pol_ in atoms(path_facts(c_))]
            used_ = [f_ for f_ in fs_ if f_[0].endswith('.used')]
            okt = okt and len(used_) == 1 and used_[0][1] is True and all('.size()' in f_[0] and f_[1] for f_ in fs_ if f_ not in used_)
        ctx.check(okt, R, 'assert_none_unused|throws-on-unused', anu, 'every entry is tested; an unused one throws invalid_argument', 'assert_none_unused no longer tests every entry / throws invalid_argument')

    # ---------------- R3
    with ctx.section('C17-R3', 'C17'):
        R = 'C17-R3'
        pis = [f for f in w.functions if strip_targs(w.qualname(f)) == 'phosg::Arguments::parse_int' and not is_dependent_pattern(f, w)]
        by_t = {}
        for f in pis:
            by_t.setdefault(targs(f)[0], f)
        masks = {}
        for tag, bits, sg in INT_TYPES_:
            vd = next((v for v in w.by_id.values() if v.get('kind') == 'VarDecl' and v.get('name') == 'mask_' + tag), None)
            ctx.require(vd is not None, 'witness mask_%s missing' % tag)
            m = re.search(r'Val<(\d+)>', vd.get('type', {}).get('desugaredQualType', '') or vd.get('type', {}).get('qualType', ''))
            ctx.require(m is not None, 'cannot read mask_for_type from %s' % vd.get('type'))
            masks[tag] = int(m.group(1))
            ctx.check(masks[tag] == (1 << bits) - 1, R, 'mask_for_type|' + tag, vd, 'mask_for_type = 2^%d - 1' % bits, 'mask_for_type for the %d-bit type is %#x' % (bits, masks[tag]))
        I = TableEval(w)
        for tag, bits, sg in INT_TYPES_:
            native = NATIVE[('s' if sg else 'u', bits)]
            f = by_t.get(native)
            ctx.require(f is not None, 'parse_int<%s> not instantiated (have %s)' % (native, sorted(by_t)))
            lab = 'parse_int<%s>' % native
            ctx.fn('Arguments::' + lab)
            check_no_goto(f)
            body = body_of(f)
            # bases and the "no digits" test
            sw = [x for x in walk(body) if x.get('kind') == 'SwitchStmt']
            bases = []
            nodig = 0
            for c in walk(sw[0]) if sw else []:
                if c.get('kind') == 'CallExpr' and call_name(c) == 'strtoull':
                    bases.append(int_value(call_args(c)[2]))
                    okargs = nf(call_args(c)[0]) == 'text.c_str()' and nf(call_args(c)[1]) == '&conversion_end'
                    if not okargs:
                        bases.append('bad-args')
            for x in walk(sw[0]) if sw else []:
                if x.get('kind') == 'IfStmt' and nf(if_parts(x)[0]) in ('(conversion_end == text.c_str())', '(text.c_str() == conversion_end)') and any(t.get('kind') == 'CXXThrowExpr' and 'invalid_argument' in (dtype(kids(t)[0]) or '') for t in walk(if_parts(x)[1])):
                    nodig += 1
            if not bases:
                # the switch may only select the base; the conversion and the no-digits test follow once
                from guard import subst_locals
                outer = [c for c in walk(body) if c.get('kind') == 'CallExpr' and call_name(c) == 'strtoull' and not (sw and any(c is y for y in walk(sw[0])))]
                if len(outer) == 1 and sw:
                    bv_ = ref_decl(call_args(outer[0])[2])
                    if bv_ is not None:
                        bases = [int_value(x['inner'][1]) for x in walk(sw[0]) if x.get('kind') == 'BinaryOperator' and x.get('opcode') == '=' and (ref_decl(x['inner'][0]) or {}).get('id') == bv_.get('id')]
                        a0 = subst_locals(nf(call_args(outer[0])[0]), outer[0])
                        endv = nf(call_args(outer[0])[1])
                        if a0 != 'text.c_str()' or not endv.startswith('&'):
                            bases.append('bad-args')
                        for x in stmts_of(body):
                            if x.get('kind') == 'IfStmt' and x['_off'] > outer[0]['_off'] and subst_locals(nf(if_parts(x)[0]), x) in ('(%s == text.c_str())' % endv[1:], '(text.c_str() == %s)' % endv[1:]) and not falls_through(if_parts(x)[1]) and \
                               any(t.get('kind') == 'CXXThrowExpr' and 'invalid_argument' in (dtype(kids(t)[0]) or '') for t in walk(if_parts(x)[1])):
                                nodig = 4
            ctx.check(bases == [0, 16, 10, 8] and nodig == 4, R, lab + '|bases-and-no-digits', f, 'DEFAULT/HEX/DECIMAL/OCTAL -> base 0/16/10/8, each rejecting text without digits', 'bases are %s, %d of 4 cases reject digit-less text' % (bases, nodig))
            trail = [x for x in stmts_of(body) if x.get('kind') == 'IfStmt' and nf(if_parts(x)[0]) in ('(0 != *conversion_end)', '(*conversion_end != 0)') and not falls_through(if_parts(x)[1])]
            rets = [r for r in walk(body) if r.get('kind') == 'ReturnStmt']
            ctx.check(len(trail) == 1 and all(r['_off'] > trail[0]['_off'] for r in rets) and sw and trail[0]['_off'] > sw[0]['_off'], R, lab + '|trailing-characters', trail[0] if trail else f, 'text with anything after the numeral is rejected before any return', 'trailing characters after the numeral are not rejected')
            # range test on boundary values: run the statements after the trailing-characters test
            vdecl = next((v for v in walk(body) if v.get('kind') == 'VarDecl' and v.get('name') == 'v'), None)
            tail = [s for s in stmts_of(body) if trail and s['_off'] > trail[0]['_off']]
            full = (1 << 64) - 1

            def verdict(value):
                """'accept' / 'reject' / None for the 64-bit pattern `value` produced by strtoull"""
                env = {}
                if vdecl is not None:
                    env[vdecl['id']] = const_bv(value, 64, True)
                I.ov = {'mask_for_type': masks[tag], 'is_unsigned_v': 0 if sg else 1, 'std::is_unsigned_v': 0 if sg else 1}

                def run(stmts):
                    for s in stmts:
                        s0 = strip(s)
                        k = s0.get('kind')
                        if k == 'DeclStmt':
                            for vd in kids(s0):
                                if vd.get('kind') == 'VarDecl' and kids(vd):
                                    env[vd['id']] = I.cast(I.eval(kids(vd)[-1], env), dtype(vd))
                        elif k == 'CompoundStmt':
                            r = run(list(kids(s0)))
                            if r:
                                return r
                        elif k == 'IfStmt':
                            cond, then, els = if_parts(s0)
                            t = I.truth(I.eval(cond, env))
                            if t not in (0, 1):
                                return 'undecided:' + nf(cond)[:60]
                            br = then if t == 1 else els
                            if br is not None:
                                r = run([br])
                                if r:
                                    return r
                        elif k == 'ReturnStmt':
                            return 'accept'
                        elif k == 'CXXThrowExpr':
                            return 'reject'
                    return None
                return run(tail)
            if sg:
                cases = [(0, True), ((1 << (bits - 1)) - 1, True), (full, True)]
                if bits < 64:
                    cases.append((full - (1 << (bits - 1)) + 1, True))   # the type minimum (for 64 bits the property only promises magnitudes below 2^63)
                if bits < 64:
                    cases += [(1 << (bits - 1), False), (full - (1 << (bits - 1)), False), (1 << 40 if bits < 40 else 1 << 62, bits >= 64)]
            else:
                cases = [(0, True), ((1 << bits) - 1, True)]
                if bits < 64:
                    cases += [(1 << bits, False), (full, False), (1 << 63, False)]
            for val, want in cases:
                got = verdict(val)
                signed_txt = val - (1 << 64) if val >> 63 else val
                ctx.check(got == ('accept' if want else 'reject'), R, '%s|value %#x' % (lab, val), f, '%d -> %s' % (signed_txt if sg else val, got),
                          '%s %s the numeral whose 64-bit pattern is %#x (%d as a signed value): it %s fit %s' % (lab, 'rejects' if got == 'reject' else ('accepts' if got == 'accept' else 'cannot be decided for (' + str(got) + ')'), val, signed_txt, 'does' if want else 'does not', native))

    # ---------------- R4
    with ctx.section('C17-R4', 'C17'):
        R = 'C17-R4'
        for f in accessors:
            if f['name'] != 'get':
                continue
            ps = params_of(f)
            ta = targs(f)
            lab = 'get<%s>(%s)' % (','.join(t.replace('std::', '') for t in ta), ','.join((qtype(p) or '').replace('std::', '') for p in ps))
            trys = [x for x in walk(body_of(f)) if x.get('kind') == 'CXXTryStmt']
            has_default = any(p.get('name') == 'default_value' for p in ps)
            if has_default:
                hs = [h for t in trys for h in kids(t)[1:]]
                types = [(qtype(kids(h)[0]) or '...') if kids(h) and kids(h)[0].get('kind') == 'VarDecl' else '...' for h in hs]
                ok = bool(hs) and all('out_of_range' in t for t in types)
                key = lab + '|default-catches-out_of_range-only'
                if key in [o.key for o in ctx.obs]:
                    continue
                ctx.check(ok, R, key, f, 'only a missing argument falls back to the default', 'the default-value overload catches %s: malformed text is silently replaced by the default' % types)
        fl = [f for f in w.functions if strip_targs(w.qualname(f)) == 'phosg::Arguments::parse_float' and not is_dependent_pattern(f, w)]
        ctx.require(len(fl) >= 2, 'parse_float instantiations not found')
        seenf = set()
        for f in fl:
            t = targs(f)[0]
            if t in seenf:
                continue
            seenf.add(t)
            body = body_of(f)
            th = [x for x in walk(body) if x.get('kind') == 'CXXThrowExpr']
            conds = sorted(nf(if_parts(x)[0]) for x in stmts_of(body) if x.get('kind') == 'IfStmt')
            ok = len(th) == 2 and all('invalid_argument' in (dtype(kids(x)[0]) or '') for x in th) and conds == sorted(['(conversion_end == text.c_str())', '(*conversion_end != 0)'])
            ctx.check(ok, R, 'parse_float<%s>|complete-literal' % t, f, 'no digits / trailing characters -> invalid_argument', 'parse_float checks are %s' % conds)
        for t_, f in by_t.items():
            th = [x for x in walk(body_of(f)) if x.get('kind') == 'CXXThrowExpr']
            types = sorted({(dtype(kids(x)[0]) or '').replace('std::', '') for x in th})
            ctx.check(set(types) <= {'invalid_argument', 'logic_error'} and 'invalid_argument' in types, R, 'parse_int<%s>|throw-types' % t_, f, 'malformed or out-of-range text -> invalid_argument', 'parse_int throws %s' % types)
        gs = [f for f in accessors if f['name'] == 'get' and targs(f) and 'basic_string' in targs(f)[0] + 'string' and len(params_of(f)) == 2]
        for f in gs:
            key = 'get<string>(%s)|missing-is-out_of_range' % (qtype(params_of(f)[0]) or '').replace('std::', '')
            if key in [o.key for o in ctx.obs]:
                continue
            th = [x for x in walk_deep(body_of(f), w) if x.get('kind') == 'CXXThrowExpr' and kids(x)]
            types = {(dtype(kids(x)[0]) or '').replace('std::', '') for x in th}
            ctx.check('out_of_range' in types and types <= {'out_of_range', 'logic_error'}, R, key, f, 'a missing argument raises out_of_range', 'string getter throws %s' % sorted(types))
    ctx.note('Instantiated for uint8..int64, float, double, bool, std::string via witness/c17.cc. Not decided: strtoull saturation for magnitudes >= 2^64; shell-like tokenisation (see C08).')
