"""C17 - command-line arguments (decided part: every token is classified exactly once,
used flags are set wherever text is handed out, assert_none_unused covers every
container, integer acceptance evaluated on the boundary values of all 8 integer types,
exception types of the typed getters).  Shell-like tokenisation equality is C08 territory."""
import re

from ast_ import *
from path import *
from bits import *
from tables import TableEval

INT_TYPES_ = [('u8', 8, False), ('s8', 8, True), ('u16', 16, False), ('s16', 16, True), ('u32', 32, False), ('s32', 32, True), ('u64', 64, False), ('s64', 64, True)]
NATIVE = {('u', 8): 'unsigned char', ('s', 8): 'signed char', ('u', 16): 'unsigned short', ('s', 16): 'short', ('u', 32): 'unsigned int', ('s', 32): 'int', ('u', 64): 'unsigned long', ('s', 64): 'long'}


def targs(f):
    return [c['type']['qualType'] for c in kids(f) if c.get('kind') == 'TemplateArgument' and 'type' in c]


def adds_token(stmt):
    """every normally-completing path through stmt stores the token into positional or named"""
    s0 = strip(stmt)
    k = s0.get('kind')
    if not k:
        return False
    if k == 'CompoundStmt':
        return any(adds_token(c) for c in kids(s0) if falls_through(c)) or any(not falls_through(c) for c in kids(s0))
    if k == 'IfStmt':
        cond, then, els = if_parts(s0)
        return adds_token(then) and els is not None and adds_token(els)
    if k == 'ForStmt':
        # the flag group: one entry per letter, added unconditionally in the body
        body = loop_body(s0)
        return any(is_add(strip(c)) for c in stmts_of(body))
    return is_add(s0)


def is_add(s0):
    if s0.get('kind') != 'CXXMemberCallExpr' or call_name(s0) not in ('emplace_back', 'push_back'):
        return False
    o = canon(member_call_object(s0))
    return o == 'this.positional' or o.startswith('this.named[')


def run(ctx):
    ctx.rule('C17-R1', 'classification: the std::string constructor tokenises with split_args; every path through parse()\'s loop body stores the token once (positional, --name[=value], or one entry per flag letter, unconditionally); branch conditions and key/value slices are the documented ones', 6)
    ctx.rule('C17-R2', 'used flags: wherever an argument\'s text is handed out or parsed its used flag is set on the same element; assert_none_unused walks every container and throws invalid_argument on the first unused entry', 10)
    ctx.rule('C17-R3', 'integer acceptance per parse_int<RetT>: bases 0/16/10/8, "no digits" and "trailing characters" reject before any return; the range test is evaluated on the boundary values of each of the 8 integer types', 60)
    ctx.rule('C17-R4', 'exceptions: malformed text -> invalid_argument; missing argument -> out_of_range; default-value overloads catch out_of_range only', 10)
    u = ctx.unit(repo_unit('Arguments.cc'))
    w = ctx.unit(witness_unit('c17.cc'))

    # ---------------- R1
    R = 'C17-R1'
    ctors = u.func('phosg::Arguments::Arguments')
    sc = [f for f in ctors if len(params_of(f)) == 1 and (qtype(params_of(f)[0]) or '').replace('std::', '') in ('const string &', 'const basic_string<char> &')]
    ctx.require(len(sc) == 1, 'Arguments(const std::string&) not found')
    calls = [call_name(c) for c in walk(body_of(sc[0])) if c.get('kind') in ('CallExpr', 'CXXMemberCallExpr') and call_name(c) in ('split_args', 'parse', 'split', 'split_context')]
    ctx.check(calls == ['split_args', 'parse'], R, 'string-ctor|split_args-then-parse', sc[0], 'a single command-line string is tokenised by split_args, then classified', 'the string constructor calls %s' % calls)
    from props.c08 import check_split_args_quotes
    check_split_args_quotes(ctx, ctx.unit(repo_unit('Strings.cc')), R)
    # the classified containers are built by parse() alone: a getter that inserts (map operator[],
    # emplace, ...) makes an absent option "present without a value" for every later getter
    MUT = ('emplace', 'emplace_back', 'push_back', 'insert', 'try_emplace', 'insert_or_assign', 'erase', 'clear', 'swap', 'resize', 'pop_back', 'operator=')
    nmut = 0
    seen_fn = set()
    for unit_ in (u, w):
        for f in unit_.functions:
            q = unit_.qualname(f)
            if not q.startswith('phosg::Arguments::') or body_of(f) is None or is_dependent_pattern(f, unit_):
                continue
            key_f = (f.get('mangledName') or q)
            if key_f in seen_fn:
                continue
            seen_fn.add(key_f)
            for x in walk(body_of(f)):
                tgt = None
                if x.get('kind') == 'CXXOperatorCallExpr' and call_name(x) in ('operator[]', 'operator=') and len(kids(x)) >= 2 and canon(kids(x)[1]) in ('this.named', 'this.positional'):
                    if call_name(x) == 'operator[]' and canon(kids(x)[1]) == 'this.positional':
                        continue    # vector subscripts do not insert
                    tgt = (canon(kids(x)[1]), call_name(x))
                if x.get('kind') == 'CXXMemberCallExpr' and call_name(x) in MUT and canon(member_call_object(x)) in ('this.named', 'this.positional'):
                    tgt = (canon(member_call_object(x)), call_name(x))
                if tgt is None:
                    continue
                nmut += 1
                okm = f.get('name') in ('parse',) or f.get('kind') == 'CXXConstructorDecl'
                ctx.check(okm, R, '%s|container-built-by-parse-only|%s.%s@%s' % (f.get('name'), tgt[0], tgt[1], x.get('_line')), x, '%s.%s inside %s' % (tgt[0], tgt[1], f.get('name')),
                          '%s modifies %s through %s: after this call an option that was never given exists with no value, so later getters throw or report it present' % (f.get('name'), tgt[0], tgt[1]))
    ctx.require(nmut >= 4, 'no insertion into named/positional found (expected in parse)')
    P = u.func('phosg::Arguments::parse')[0]
    ctx.fn('Arguments::parse')
    check_no_goto(P)
    lp = [x for x in walk(body_of(P)) if x.get('kind') == 'CXXForRangeStmt']
    ctx.require(len(lp) == 1, 'parse: token loop not found')
    lb = loop_body(lp[0])
    ctx.check(adds_token(lb) and not any(x.get('kind') in ('ContinueStmt', 'BreakStmt', 'ReturnStmt') and enclosing(x, LOOPS) is lp[0] for x in walk(lb)), R, 'parse|every-token-stored', lp[0], 'every path through the loop body stores the token', 'some path through parse()\'s loop body drops the token (or a repeated flag letter is recorded conditionally)')
    adds = [c for c in walk(lb) if is_add(c)]
    conds = sorted({nf(if_parts(x)[0]) for x in walk(lb) if x.get('kind') == 'IfStmt'})
    want_conds = sorted(['(!arg.empty() && (45 == arg[0]))', '(1 == arg.size())', '(45 == arg[1])', '(2 == arg.size())', '(equal_pos != npos)'])
    got_norm = sorted(c.replace('std::basic_string<char>::npos', 'npos').replace('std::string::npos', 'npos') for c in conds)
    ctx.check(got_norm == want_conds, R, 'parse|partition', lp[0], 'branches on empty / leading dash / length 1 / second dash / length 2 / presence of =', 'classification conditions are %s' % got_norm)
    slices = sorted(nf(c) for c in adds)
    want_sl = sorted(['this.positional.emplace_back(move(arg))'] * 3 + ['this.named[arg.substr(2, (equal_pos - 2))].emplace_back(arg.substr((1 + equal_pos)))', 'this.named[arg.substr(2)].emplace_back("")', 'this.named[arg.substr(z, 1)].emplace_back("")'])
    ctx.check(slices == want_sl, R, 'parse|slices', lp[0], 'name = text between -- and =, value = text after =; flags = one letter each', 'token slices are %s' % slices)
    fl = [x for x in walk(lb) if x.get('kind') == 'ForStmt']
    okf = len(fl) == 1
    if okf:
        init, cv, cond, inc, fb = for_parts(fl[0])
        zd = next((v for v in walk(init) if v.get('kind') == 'VarDecl'), None)
        okf = zd is not None and int_value(kids(zd)[-1]) == 1 and nf(cond) in ('(0 != arg[z])', '(arg[z] != 0)', '(z < arg.size())') and nf(inc) == '(z++)' and [is_add(strip(s)) for s in stmts_of(fb)] == [True]
    ctx.check(okf, R, 'parse|flag-group', fl[0] if fl else lp[0], 'every letter after the dash becomes one flag entry', 'the flag-group loop does not record exactly one entry per letter unconditionally (repeated letters must be kept: get_multi counts them)')
    eq = next((v for v in walk(lb) if v.get('kind') == 'VarDecl' and v.get('name') == 'equal_pos'), None)
    ctx.check(eq is not None and nf(kids(eq)[-1]) == 'arg.find(61, 2)', R, 'parse|equals-search', eq or lp[0], 'the first = after the -- prefix splits name and value', 'the = search changed: %s' % (nf(kids(eq)[-1]) if eq else None))

    # ---------------- R2
    R = 'C17-R2'
    accessors = [f for f in w.functions if strip_targs(w.qualname(f)).startswith('phosg::Arguments::get') and not is_dependent_pattern(f, w)]
    ctx.require(len(accessors) >= 20, 'Arguments accessor instantiations not found (%d)' % len(accessors))
    seen = set()
    n_text = 0
    for f in accessors:
        lab = '%s<%s>(%s)' % (f['name'], ','.join(t.replace('std::', '') for t in targs(f)), ','.join((qtype(p) or '').replace('std::', '') for p in params_of(f)))
        if lab in seen:
            continue
        seen.add(lab)
        body = body_of(f)
        texts = [x for x in walk(body) if x.get('kind') == 'MemberExpr' and x.get('name') == 'text' and 'ArgText' in (dtype(x['inner'][0]) or '')]
        for i, t in enumerate(texts):
            n_text += 1
            ctx.fn('Arguments::' + lab)
            base = canon(t['inner'][0])
            blk = enclosing(t, ('CompoundStmt',))
            marks = [s for s in kids(blk) if strip(s).get('kind') == 'BinaryOperator' and nf(strip(s)) == '(%s.used = 1)' % base]
            ctx.check(len(marks) == 1, R, '%s|text-use#%d-marks-used' % (lab, i), t, '%s.used = true next to the use of %s.text' % (base, base),
                      '%s.text is handed out without setting %s.used: assert_none_unused() then reports an argument that was read' % (base, base))
    ctx.require(n_text >= 8, 'uses of ArgText::text not found (%d)' % n_text)
    anu = u.func('phosg::Arguments::assert_none_unused')[0]
    ctx.fn('Arguments::assert_none_unused')
    rec = u.record_of(anu)
    holders = sorted(c['name'] for c in kids(rec) if c.get('kind') == 'FieldDecl' and 'ArgText' in (qtype(c) or '') + (c.get('type', {}).get('desugaredQualType') or ''))
    walked = set()
    for x in walk(body_of(anu)):
        if x.get('kind') == 'MemberExpr' and x.get('name') in holders and (not x.get('inner') or is_this(x['inner'][0])):
            walked.add(x['name'])
    ctx.check(holders == ['named', 'positional'] and walked == set(holders), R, 'assert_none_unused|all-containers', anu, 'walks %s' % holders, 'assert_none_unused does not inspect %s' % sorted(set(holders) - walked))
    tests = [x for x in walk(body_of(anu)) if x.get('kind') == 'IfStmt']
    okt = len(tests) == 2 and all(re.match(r'^!\w+\.used$', nf(if_parts(x)[0])) for x in tests) and all(any(t.get('kind') == 'CXXThrowExpr' and 'invalid_argument' in (dtype(kids(t)[0]) or '') for t in walk(if_parts(x)[1])) for x in tests)
    loops_ = [x for x in walk(body_of(anu)) if x.get('kind') in LOOPS]
    okt = okt and len(loops_) == 3 and not any(x.get('kind') in ('BreakStmt', 'ContinueStmt', 'ReturnStmt') for x in walk(body_of(anu)))
    ctx.check(okt, R, 'assert_none_unused|throws-on-unused', anu, 'every entry is tested; an unused one throws invalid_argument', 'assert_none_unused no longer tests every entry / throws invalid_argument')

    # ---------------- R3
    R = 'C17-R3'
    pis = [f for f in w.functions if strip_targs(w.qualname(f)) == 'phosg::Arguments::parse_int' and not is_dependent_pattern(f, w)]
    by_t = {}
    for f in pis:
        by_t.setdefault(targs(f)[0], f)
    masks = {}
    for tag, bits, sg in INT_TYPES_:
        vd = next((v for v in w.by_id.values() if v.get('kind') == 'VarDecl' and v.get('name') == 'mask_' + tag), None)
        ctx.require(vd is not None, 'witness mask_%s missing' % tag)
        m = re.search(r'Val<(\d+)>', vd.get('type', {}).get('desugaredQualType', '') or vd.get('type', {}).get('qualType', ''))
        ctx.require(m is not None, 'cannot read mask_for_type from %s' % vd.get('type'))
        masks[tag] = int(m.group(1))
        ctx.check(masks[tag] == (1 << bits) - 1, R, 'mask_for_type|' + tag, vd, 'mask_for_type = 2^%d - 1' % bits, 'mask_for_type for the %d-bit type is %#x' % (bits, masks[tag]))
    I = TableEval(w)
    for tag, bits, sg in INT_TYPES_:
        native = NATIVE[('s' if sg else 'u', bits)]
        f = by_t.get(native)
        ctx.require(f is not None, 'parse_int<%s> not instantiated (have %s)' % (native, sorted(by_t)))
        lab = 'parse_int<%s>' % native
        ctx.fn('Arguments::' + lab)
        check_no_goto(f)
        body = body_of(f)
        # bases and the "no digits" test
        sw = [x for x in walk(body) if x.get('kind') == 'SwitchStmt']
        bases = []
        nodig = 0
        for c in walk(sw[0]) if sw else []:
            if c.get('kind') == 'CallExpr' and call_name(c) == 'strtoull':
                bases.append(int_value(call_args(c)[2]))
                okargs = nf(call_args(c)[0]) == 'text.c_str()' and nf(call_args(c)[1]) == '&conversion_end'
                if not okargs:
                    bases.append('bad-args')
        for x in walk(sw[0]) if sw else []:
            if x.get('kind') == 'IfStmt' and nf(if_parts(x)[0]) in ('(conversion_end == text.c_str())', '(text.c_str() == conversion_end)') and any(t.get('kind') == 'CXXThrowExpr' and 'invalid_argument' in (dtype(kids(t)[0]) or '') for t in walk(if_parts(x)[1])):
                nodig += 1
        ctx.check(bases == [0, 16, 10, 8] and nodig == 4, R, lab + '|bases-and-no-digits', f, 'DEFAULT/HEX/DECIMAL/OCTAL -> base 0/16/10/8, each rejecting text without digits', 'bases are %s, %d of 4 cases reject digit-less text' % (bases, nodig))
        trail = [x for x in stmts_of(body) if x.get('kind') == 'IfStmt' and nf(if_parts(x)[0]) in ('(0 != *conversion_end)', '(*conversion_end != 0)') and not falls_through(if_parts(x)[1])]
        rets = [r for r in walk(body) if r.get('kind') == 'ReturnStmt']
        ctx.check(len(trail) == 1 and all(r['_off'] > trail[0]['_off'] for r in rets) and sw and trail[0]['_off'] > sw[0]['_off'], R, lab + '|trailing-characters', trail[0] if trail else f, 'text with anything after the numeral is rejected before any return', 'trailing characters after the numeral are not rejected')
        # range test on boundary values: run the statements after the trailing-characters test
        vdecl = next((v for v in walk(body) if v.get('kind') == 'VarDecl' and v.get('name') == 'v'), None)
        tail = [s for s in stmts_of(body) if trail and s['_off'] > trail[0]['_off']]
        full = (1 << 64) - 1

        def verdict(value):
            """'accept' / 'reject' / None for the 64-bit pattern `value` produced by strtoull"""
            env = {}
            if vdecl is not None:
                env[vdecl['id']] = const_bv(value, 64, True)
            I.ov = {'mask_for_type': masks[tag], 'is_unsigned_v': 0 if sg else 1, 'std::is_unsigned_v': 0 if sg else 1}

            def run(stmts):
                for s in stmts:
                    s0 = strip(s)
                    k = s0.get('kind')
                    if k == 'DeclStmt':
                        for vd in kids(s0):
                            if vd.get('kind') == 'VarDecl' and kids(vd):
                                env[vd['id']] = I.cast(I.eval(kids(vd)[-1], env), dtype(vd))
                    elif k == 'CompoundStmt':
                        r = run(list(kids(s0)))
                        if r:
                            return r
                    elif k == 'IfStmt':
                        cond, then, els = if_parts(s0)
                        t = I.truth(I.eval(cond, env))
                        if t not in (0, 1):
                            return 'undecided:' + nf(cond)[:60]
                        br = then if t == 1 else els
                        if br is not None:
                            r = run([br])
                            if r:
                                return r
                    elif k == 'ReturnStmt':
                        return 'accept'
                    elif k == 'CXXThrowExpr':
                        return 'reject'
                return None
            return run(tail)
        if sg:
            cases = [(0, True), ((1 << (bits - 1)) - 1, True), (full, True)]
            if bits < 64:
                cases.append((full - (1 << (bits - 1)) + 1, True))   # the type minimum (for 64 bits the property only promises magnitudes below 2^63)
            if bits < 64:
                cases += [(1 << (bits - 1), False), (full - (1 << (bits - 1)), False), (1 << 40 if bits < 40 else 1 << 62, bits >= 64)]
        else:
            cases = [(0, True), ((1 << bits) - 1, True)]
            if bits < 64:
                cases += [(1 << bits, False), (full, False), (1 << 63, False)]
        for val, want in cases:
            got = verdict(val)
            signed_txt = val - (1 << 64) if val >> 63 else val
            ctx.check(got == ('accept' if want else 'reject'), R, '%s|value %#x' % (lab, val), f, '%d -> %s' % (signed_txt if sg else val, got),
                      '%s %s the numeral whose 64-bit pattern is %#x (%d as a signed value): it %s fit %s' % (lab, 'rejects' if got == 'reject' else ('accepts' if got == 'accept' else 'cannot be decided for (' + str(got) + ')'), val, signed_txt, 'does' if want else 'does not', native))

    # ---------------- R4
    R = 'C17-R4'
    for f in accessors:
        if f['name'] != 'get':
            continue
        ps = params_of(f)
        ta = targs(f)
        lab = 'get<%s>(%s)' % (','.join(t.replace('std::', '') for t in ta), ','.join((qtype(p) or '').replace('std::', '') for p in ps))
        trys = [x for x in walk(body_of(f)) if x.get('kind') == 'CXXTryStmt']
        has_default = any(p.get('name') == 'default_value' for p in ps)
        if has_default:
            hs = [h for t in trys for h in kids(t)[1:]]
            types = [(qtype(kids(h)[0]) or '...') if kids(h) and kids(h)[0].get('kind') == 'VarDecl' else '...' for h in hs]
            ok = bool(hs) and all('out_of_range' in t for t in types)
            key = lab + '|default-catches-out_of_range-only'
            if key in [o.key for o in ctx.obs]:
                continue
            ctx.check(ok, R, key, f, 'only a missing argument falls back to the default', 'the default-value overload catches %s: malformed text is silently replaced by the default' % types)
    fl = [f for f in w.functions if strip_targs(w.qualname(f)) == 'phosg::Arguments::parse_float' and not is_dependent_pattern(f, w)]
    ctx.require(len(fl) >= 2, 'parse_float instantiations not found')
    seenf = set()
    for f in fl:
        t = targs(f)[0]
        if t in seenf:
            continue
        seenf.add(t)
        body = body_of(f)
        th = [x for x in walk(body) if x.get('kind') == 'CXXThrowExpr']
        conds = sorted(nf(if_parts(x)[0]) for x in stmts_of(body) if x.get('kind') == 'IfStmt')
        ok = len(th) == 2 and all('invalid_argument' in (dtype(kids(x)[0]) or '') for x in th) and conds == sorted(['(conversion_end == text.c_str())', '(*conversion_end != 0)'])
        ctx.check(ok, R, 'parse_float<%s>|complete-literal' % t, f, 'no digits / trailing characters -> invalid_argument', 'parse_float checks are %s' % conds)
    for t_, f in by_t.items():
        th = [x for x in walk(body_of(f)) if x.get('kind') == 'CXXThrowExpr']
        types = sorted({(dtype(kids(x)[0]) or '').replace('std::', '') for x in th})
        ctx.check(set(types) <= {'invalid_argument', 'logic_error'} and 'invalid_argument' in types, R, 'parse_int<%s>|throw-types' % t_, f, 'malformed or out-of-range text -> invalid_argument', 'parse_int throws %s' % types)
    gs = [f for f in accessors if f['name'] == 'get' and targs(f) and 'basic_string' in targs(f)[0] + 'string' and len(params_of(f)) == 2]
    for f in gs:
        key = 'get<string>(%s)|missing-is-out_of_range' % (qtype(params_of(f)[0]) or '').replace('std::', '')
        if key in [o.key for o in ctx.obs]:
            continue
        th = [x for x in walk(body_of(f)) if x.get('kind') == 'CXXThrowExpr' and kids(x)]
        types = {(dtype(kids(x)[0]) or '').replace('std::', '') for x in th}
        ctx.check('out_of_range' in types and types <= {'out_of_range', 'logic_error'}, R, key, f, 'a missing argument raises out_of_range', 'string getter throws %s' % sorted(types))
    ctx.note('Instantiated for uint8..int64, float, double, bool, std::string via witness/c17.cc. Not decided: strtoull saturation for magnitudes >= 2^64; shell-like tokenisation (see C08).')
