"""C07 - canvas operations vs the per-pixel model (decided part: raw-access
confinement, pixel guards, out_of_range cannot escape the drawing operations,
clamp structure, buffer/format consistency, widen/narrow and colour lane maps)."""
from ast_ import *
from path import *
from exc import *
from bits import *

IMG = 'phosg::Image'
RAW_ALLOWED = {'Image', '~Image', 'operator=', 'operator==', 'load', 'save_helper', 'read_pixel', 'write_pixel',
               'set_channel_width', 'set_has_alpha', 'get_data', 'empty'}
NO_OOR = ['fill_rect', 'blit', 'mask_blit', 'mask_blit_dst', 'blend_blit', 'custom_blit', 'draw_line', 'draw_horizontal_line', 'draw_vertical_line',
          'draw_text', 'draw_text_v', 'clear', 'invert', 'reverse_horizontal', 'reverse_vertical', 'set_alpha_from_mask_color', 'set_channel_width', 'set_has_alpha']
FORMAT_FIELDS = ('width', 'height', 'has_alpha', 'channel_width')


def image_methods(u):
    out = []
    for f in u.functions:
        q = strip_targs(u.qualname(f))
        if q.startswith(IMG + '::') and q.count('::') == 2:
            out.append(f)
    return out


def sig(f):
    return '%s(%s)' % (f.get('name'), ','.join((qtype(p) or '?').replace('phosg::', '') for p in params_of(f)))


def is_data_member(n, names=('raw', 'as8', 'as16', 'as32', 'as64')):
    """`<obj>.data.<asN>` member expression -> (object canon, member) or None"""
    n = strip(n)
    if n is None or n.get('kind') != 'MemberExpr' or n.get('name') not in names:
        return None
    b = strip(n['inner'][0]) if n.get('inner') else None
    if b is None or b.get('kind') != 'MemberExpr' or b.get('name') != 'data':
        return None
    return canon(b['inner'][0]) if b.get('inner') else 'this', n.get('name')


# --------------------------------------------------------------------------
# refiners for the exception-escape analysis

def _local_def(unit, rd):
    vd = unit.by_id.get(rd.get('id')) if rd else None
    if vd is not None and vd.get('kind') == 'VarDecl' and kids(vd):
        return vd
    return None


def _reassigned_after(func, decl_id, after_node):
    """is the variable written anywhere in func other than its own declaration,
    at a source position after after_node?"""
    for x in walk(body_of(func)):
        k = x.get('kind')
        tgt = None
        if k in ('BinaryOperator', 'CompoundAssignOperator') and x.get('opcode') in ASSIGN_OPS:
            tgt = x['inner'][0]
        elif k == 'UnaryOperator' and x.get('opcode') in ('++', '--', '&'):
            tgt = x['inner'][0]
        if tgt is not None and (ref_decl(tgt) or {}).get('id') == decl_id and x.get('_off', 0) > after_node.get('_off', 0) \
                and not any(a is after_node for a in ancestors(x)):
            return True
    return False


def _loop_var_bounds(site, unit):
    """loop variables enclosing site: decl id -> (lower const, upper bound node, strict, loop)"""
    out = {}
    for a in ancestors(site):
        if a.get('kind') == 'ForStmt':
            init, cv, cond, inc, body = for_parts(a)
            # two indices walking towards each other: for (lo = 0, hi = D - 1; lo < hi; lo++, hi--) keeps both in [0, D)
            vds_ = [x for x in walk(init) if x.get('kind') == 'VarDecl'] if init else []
            if len(vds_) == 2 and all(kids(v_) for v_ in vds_) and cond is not None and inc is not None:
                lo_, hi_ = vds_
                rr = relation(cond, True)
                hi_init = strip(kids(hi_)[-1])
                while hi_init is not None and hi_init.get('kind') in ('ImplicitCastExpr', 'ParenExpr') and kids(hi_init):
                    hi_init = strip(kids(hi_init)[0])
                incs_ = [strip(y_) for y_ in (kids(strip(inc)) if strip(inc).get('kind') == 'BinaryOperator' and strip(inc).get('opcode') == ',' else [])]
                ok2 = int_value(kids(lo_)[-1]) == 0 and rr is not None and (ref_decl(rr[0]) or {}).get('id') == lo_['id'] and rr[1] in ('<', '<=') and (ref_decl(rr[2]) or {}).get('id') == hi_['id'] and \
                    hi_init is not None and hi_init.get('kind') == 'BinaryOperator' and hi_init.get('opcode') == '-' and int_value(hi_init['inner'][1]) == 1 and len(incs_) == 2 and \
                    any(y_.get('kind') == 'UnaryOperator' and y_.get('opcode') == '++' and (ref_decl(y_['inner'][0]) or {}).get('id') == lo_['id'] for y_ in incs_) and \
                    any(y_.get('kind') == 'UnaryOperator' and y_.get('opcode') == '--' and (ref_decl(y_['inner'][0]) or {}).get('id') == hi_['id'] for y_ in incs_) and \
                    not ({lo_['id'], hi_['id']} & set(assigned_keys(body))) and (int_type_info(dtype(hi_)) or (0, False))[1]
                if ok2:
                    out[lo_['id']] = (0, hi_init['inner'][0], True, a)
                    out[hi_['id']] = (0, hi_init['inner'][0], True, a)
                    continue
            vd = next((x for x in walk(init) if x.get('kind') == 'VarDecl'), None) if init else None
            if vd is None or not kids(vd):
                continue
            lo = int_value(kids(vd)[-1])
            r = relation(cond, True) if cond else None
            inc_s = strip(inc) if inc else None
            if r is None or inc_s is None:
                continue
            if (ref_decl(r[0]) or {}).get('id') != vd['id'] or r[1] not in ('<', '<='):
                continue
            if not (inc_s.get('kind') == 'UnaryOperator' and inc_s.get('opcode') == '++' and (ref_decl(inc_s['inner'][0]) or {}).get('id') == vd['id']):
                continue
            if vd['id'] in assigned_keys(body):
                continue
            out[vd['id']] = (lo, r[2], r[1] == '<', a)
        if a.get('kind') in FUNC_KINDS:
            break
    return out


def _dim_of(n, unit, func, which):
    """Is n (an upper bound expression) the width/height (which in 'width','height')
    of some image object?  returns the object's canon or None.  Accepts
    this->width, X.get_width(), static_cast<ssize_t>(X.get_width()), a local
    initialised from one of those and never reassigned, and `dim / 2`."""
    n = strip(n)
    if n is None:
        return None
    if n.get('kind') in ('CStyleCastExpr', 'CXXStaticCastExpr', 'CXXFunctionalCastExpr', 'ImplicitCastExpr'):
        return _dim_of(n['inner'][0], unit, func, which)
    if n.get('kind') == 'MemberExpr' and n.get('name') == which:
        return canon(n['inner'][0]) if n.get('inner') else 'this'
    if n.get('kind') == 'CXXMemberCallExpr' and call_name(n) == 'get_' + which:
        o = member_call_object(n)
        return canon(o) if o is not None else 'this'
    if n.get('kind') == 'BinaryOperator' and n.get('opcode') == '/' and (int_value(n['inner'][1]) or 0) >= 1:
        return _dim_of(n['inner'][0], unit, func, which)
    rd = ref_decl(n)
    vd = _local_def(unit, rd)
    if vd is not None and not _reassigned_after(func, vd['id'], vd):
        return _dim_of(kids(vd)[-1], unit, func, which)
    return None


def make_image_refiners(unit):
    def pixel_call(call, d):
        return call.get('kind') == 'CXXMemberCallExpr' and (d or {}).get('name') in ('read_pixel', 'write_pixel') and 'std::out_of_range' in ''

    def refine_clamped(exc, call, d, u, f, thr):
        """M.read_pixel/write_pixel(A + xx, B + yy) inside for xx<w / yy<h after
        clamp_blit_dimensions(*this, source, &x,&y,&w,&h,&sx,&sy) with none of the
        six variables reassigned afterwards (the clamp contract)."""
        if call.get('kind') != 'CXXMemberCallExpr' or (d or {}).get('name') not in ('read_pixel', 'write_pixel') or 'std::out_of_range' not in thr:
            return None
        args = call_args(call)
        if len(args) < 2:
            return None
        obj = member_call_object(call)
        objc = canon(obj) if obj is not None else 'this'
        # the dominating clamp call
        clamp = None
        for s in preceding_statements(call):
            s0 = strip(s)
            if s0.get('kind') == 'CallExpr' and call_name(s0) == 'clamp_blit_dimensions':
                clamp = s0
                break
        if clamp is None:
            return None
        ca = call_args(clamp)
        if len(ca) != 8:
            return None
        dest_c, src_c = canon(ca[0]), canon(ca[1])
        if dest_c.startswith('*'):
            dest_c = dest_c[1:]
        ptr_ids = []
        for a in ca[2:]:
            a0 = strip(a)
            if a0.get('kind') != 'UnaryOperator' or a0.get('opcode') != '&' or not ref_decl(a0['inner'][0]):
                return None
            ptr_ids.append(ref_decl(a0['inner'][0])['id'])
        x_id, y_id, w_id, h_id, sx_id, sy_id = ptr_ids
        if any(_reassigned_after(f, i, clamp) for i in ptr_ids):
            return None
        if objc in (dest_c, 'this') and dest_c in ('this', objc):
            ox, oy = x_id, y_id
        elif objc == src_c:
            ox, oy = sx_id, sy_id
        else:
            return None
        lv = _loop_var_bounds(call, u)

        def coord_ok(arg, origin_id, extent_id):
            e = strip(arg)
            if e.get('kind') != 'BinaryOperator' or e.get('opcode') != '+':
                return False
            ids = [(ref_decl(e['inner'][0]) or {}).get('id'), (ref_decl(e['inner'][1]) or {}).get('id')]
            if origin_id not in ids:
                return False
            other = ids[1] if ids[0] == origin_id else ids[0]
            b = lv.get(other)
            return b is not None and b[0] == 0 and b[2] and (ref_decl(b[1]) or {}).get('id') == extent_id
        if coord_ok(args[0], ox, w_id) and coord_ok(args[1], oy, h_id):
            return {'std::out_of_range': 'coordinates (origin + i, origin + j) with 0 <= i < w, 0 <= j < h after clamp_blit_dimensions on %s (clamp contract; clamp body checked by C07-R4)' % objc}
        return None

    def refine_loop_bounds(exc, call, d, u, f, thr):
        """coordinates that are loop variables in [0, dim) (or their mirror dim - v - 1) of the same image"""
        if call.get('kind') != 'CXXMemberCallExpr' or (d or {}).get('name') not in ('read_pixel', 'write_pixel') or 'std::out_of_range' not in thr:
            return None
        args = call_args(call)
        if len(args) < 2:
            return None
        obj = member_call_object(call)
        objc = canon(obj) if obj is not None else 'this'
        lv = _loop_var_bounds(call, u)

        def ok(arg, which):
            e = strip(arg)
            rd = ref_decl(e)
            if rd and rd.get('id') in lv:
                lo, ub, strict, _ = lv[rd['id']]
                return lo is not None and lo >= 0 and strict and _dim_of(ub, u, f, which) == objc
            # mirror: dim - v - 1
            c = canon(e)
            for vid, (lo, ub, strict, _) in lv.items():
                vd = u.by_id.get(vid)
                nm = vd.get('name') if vd else None
                if nm and c in ('((%s.%s - %s) - 1)' % (objc, which, nm), '((%s - %s) - 1)' % ('this.' + which if objc == 'this' else objc + '.' + which, nm)):
                    return lo is not None and lo >= 0 and strict and _dim_of(ub, u, f, which) == objc
            return False
        if ok(args[0], 'width') and ok(args[1], 'height'):
            return {'std::out_of_range': 'coordinates are loop variables bounded by the image dimensions of %s' % objc}
        return None

    def refine_covering_image(exc, call, d, u, f, thr):
        """M.read_pixel(a + xx, b + yy) when a dominating guard throws unless
        M.get_width() >= a + w and M.get_height() >= b + h (for w > 0, h > 0)."""
        if call.get('kind') != 'CXXMemberCallExpr' or (d or {}).get('name') not in ('read_pixel',) or 'std::out_of_range' not in thr:
            return None
        args = call_args(call)
        obj = member_call_object(call)
        objc = canon(obj) if obj is not None else 'this'
        lv = _loop_var_bounds(call, u)

        def split(arg):
            e = strip(arg)
            if e.get('kind') != 'BinaryOperator' or e.get('opcode') != '+':
                return None
            a, b = e['inner'][0], e['inner'][1]
            for o, v in ((a, b), (b, a)):
                rv = ref_decl(v)
                if rv and rv.get('id') in lv and lv[rv['id']][0] == 0 and lv[rv['id']][2]:
                    ext = ref_decl(lv[rv['id']][1])
                    if ext and ref_decl(o):
                        return ref_decl(o)['id'], ext['id'], canon(o), canon(lv[rv['id']][1])
            return None
        sx_, sy_ = split(args[0]), split(args[1])
        if not sx_ or not sy_:
            return None
        # guard: if (... && (cast(M.get_width()) < a + w || cast(M.get_height()) < b + h)) throw
        need = {('width', '(%s + %s)' % tuple(sorted([sx_[2], sx_[3]]))): False, ('height', '(%s + %s)' % tuple(sorted([sy_[2], sy_[3]]))): False}
        for s in preceding_statements(call):
            if s.get('kind') != 'IfStmt':
                continue
            cond, then, els = if_parts(s)
            if falls_through(then) or els is not None:
                continue
            # every assignment to the variables between the guard and the call invalidates it
            if any(_reassigned_after(f, i, s) for i in (sx_[0], sx_[1], sy_[0], sy_[1])):
                continue
            conj = []
            stack = [cond]
            while stack:
                c = strip(stack.pop())
                if c.get('kind') == 'BinaryOperator' and c.get('opcode') == '&&':
                    stack.extend(c['inner'])
                else:
                    conj.append(c)
            others_ok = True
            for c in conj:
                if c.get('kind') == 'BinaryOperator' and c.get('opcode') == '||':
                    for dsj in c['inner']:
                        r = relation(dsj, True)
                        if not r:
                            continue
                        for a, op, b in ((r[0], r[1], r[2]), (r[2], FLIP[r[1]], r[0])):
                            for which in ('width', 'height'):
                                if _dim_of(a, u, f, which) == objc and op == '<':
                                    k = (which, canon(b))
                                    if k in need:
                                        need[k] = True
                else:
                    r = relation(c, True)
                    # remaining conjuncts must be implied inside the loops: extent > 0
                    if not (r and r[1] == '>' and int_value(r[2]) == 0 and (ref_decl(r[0]) or {}).get('id') in (sx_[1], sy_[1])):
                        others_ok = False
            if others_ok and all(need.values()):
                return {'std::out_of_range': 'a dominating guard throws unless %s covers [%s, %s+%s) x [%s, %s+%s)' % (objc, sx_[2], sx_[2], sx_[3], sy_[2], sy_[2], sy_[3])}
        return None

    return [refine_clamped, refine_loop_bounds, refine_covering_image]


# --------------------------------------------------------------------------

def check_confinement(ctx, u, methods):
    R = 'C07-R1'
    n_allowed = 0
    for f in methods + [g for g in u.functions if g not in methods and strip_targs(u.qualname(g)).startswith('phosg::') and 'Image' not in strip_targs(u.qualname(g)).split('::')[1:2]]:
        body = body_of(f)
        hits = [x for x in walk(body) if x.get('kind') == 'MemberExpr' and is_data_member(x)]
        # constructor initialisers too
        if not hits:
            continue
        nm = f.get('name')
        q = strip_targs(u.qualname(f))
        in_image = q.startswith(IMG + '::')
        if in_image and nm in RAW_ALLOWED:
            n_allowed += 1
            ctx.ok(R, 'raw-access-in|' + sig(f), f, '%d raw buffer uses in an owner function' % len(hits), nontrivial=True)
        else:
            ctx.bad(R, 'raw-access-in|' + sig(f), hits[0], '%s touches the pixel buffer directly (%s); drawing and blit code must go through read_pixel/write_pixel, whose guard is the only bounds check' % (q, src_text(hits[0].get('_p') or hits[0], 60)))
    ctx.require(n_allowed >= 8, 'owner functions of the pixel buffer not found (%d)' % n_allowed)
    # positive control: the rule's matcher recognises read_pixel's subscripts
    rp = [f for f in methods if f.get('name') == 'read_pixel' and len(params_of(f)) == 6]
    ctx.require(rp and any(is_data_member(x) for x in walk(body_of(rp[0])) if x.get('kind') == 'MemberExpr'), 'positive control failed: no raw access recognised in read_pixel')


def check_pixel_guard(ctx, u, methods):
    R = 'C07-R2'
    for f in methods:
        if f.get('name') not in ('read_pixel', 'write_pixel') or len(params_of(f)) < 2:
            continue
        full = len(params_of(f)) == 6
        if not full and not any(is_data_member(x) for x in walk(body_of(f)) if x.get('kind') == 'MemberExpr'):
            continue        # packed-colour overload that forwards to the six-argument form
        check_no_goto(f)
        key0 = sig(f).split('(')[0] + ('#r' if f.get('name') == 'read_pixel' else '#w')
        ctx.fn('Image::' + sig(f))
        px, py = params_of(f)[0], params_of(f)[1]
        subs = [x for x in walk(body_of(f)) if x.get('kind') == 'ArraySubscriptExpr' and is_data_member(x['inner'][0])]
        if full:
            ctx.require(len(subs) >= 16, '%s: pixel subscripts not found' % f.get('name'))
        elif not subs:
            ctx.undecided(R, key0 + '|raw-access', f, '%s touches the pixel buffer without a subscript the rule can read' % sig(f))
            continue
        if not full:
            key0 = sig(f) + ('#r' if f.get('name') == 'read_pixel' else '#w')
        cnt = {}
        for s in subs:
            obj, mem = is_data_member(s['inner'][0])
            idx = s['inner'][1]
            ic = canon(idx)
            from guard import split_const
            base, k = split_const(ic)
            rels = relations(s)
            have = {(a, op, b) for a, op, b, _, _ in rels}

            def holds_(a, ops, b):
                return any(((x == a and z == b and o in ops) or (x == b and z == a and FLIP[o] in ops)) for x, o, z in have)
            g = holds_(px['name'], ('>=',), '0') and holds_(py['name'], ('>=',), '0') and holds_(px['name'], ('<',), 'this.width') and holds_(py['name'], ('<',), 'this.height')
            # index base definition
            brd = None
            for x in walk(idx):
                if x.get('kind') == 'DeclRefExpr' and (x.get('referencedDecl') or {}).get('kind') == 'VarDecl':
                    brd = x['referencedDecl']
            vd = u.by_id.get(brd['id']) if brd else None
            idx_def = nf(kids(vd)[-1]) if vd is not None and kids(vd) else None
            if idx_def is not None:
                from guard import subst_locals as _sl
                idx_def = _sl(idx_def, s)
            # the index (and the coordinate test) may come from a helper: use its guard facts and
            # its returned expression with the parameters replaced by the caller's arguments
            hfacts, hexpr = _index_helper(vd, u) if vd is not None and kids(vd) else (None, None)
            if hexpr is not None:
                idx_def = hexpr
                have = have | hfacts
                g = holds_(px['name'], ('>=',), '0') and holds_(py['name'], ('>=',), '0') and holds_(px['name'], ('<',), 'this.width') and holds_(py['name'], ('<',), 'this.height')
            d_ok = vd is not None and idx_def is not None and renorm(idx_def) in {renorm(w_) for w_ in _perms_index(px['name'], py['name'])} and not _reassigned_after(f, vd['id'], vd)
            # channel offset
            alpha_fact = any((canon(n_) == 'this.has_alpha' and pol) for n_, pol in atoms(path_facts(s)))
            k_ok = k <= 2 or (k == 3 and alpha_fact)
            # member matches channel width
            w = int(mem[2:])
            cw_ok = holds_('this.channel_width', ('==',), str(w))
            c = cnt.get((mem, k), 0) + 1
            cnt[(mem, k)] = c
            key = '%s|%s[index+%d]%s' % (key0, mem, k, '' if c == 1 else '#%d' % c)
            why = []
            if not g:
                why.append('the four-way coordinate test (x<0, y<0, x>=width, y>=height -> throw) does not dominate it (facts: %s)' % sorted('%s %s %s' % h for h in have)[:6])
            if not d_ok:
                why.append('index is %s, expected (y*width + x) * (has_alpha ? 4 : 3)' % idx_def)
            if not k_ok:
                why.append('channel offset %d is used without has_alpha being established' % k)
            if not cw_ok:
                why.append('%s is used on a path where channel_width == %d is not established' % (mem, w))
            ctx.check(not why, R, key, s, 'guarded row-major access', '; '.join(why))
    # BitmapImage
    for nm in ('read_pixel', 'write_pixel', 'write_row'):
        for f in u.funcs('phosg::BitmapImage::' + nm):
            subs = [x for x in walk(body_of(f)) if x.get('kind') == 'ArraySubscriptExpr' and canon(x['inner'][0]) == 'this.data']
            ps = [p['name'] for p in params_of(f)]
            for i, s in enumerate(subs):
                have = {(a, op, b) for a, op, b, _, _ in relations(s)}
                gy = any((a == 'y' and op == '<' and b == 'this.height') or (b == 'y' and op == '>' and a == 'this.height') for a, op, b in have)
                gx = 'x' not in ps or any((a == 'x' and op == '<' and b == 'this.width') or (b == 'x' and op == '>' and a == 'this.width') for a, op, b in have)
                ic = canon(s['inner'][1])
                shape = ic in ('((x >> 3) + (this.row_bytes * y))', '((this.row_bytes * y) + (x >> 3))', '(this.row_bytes * y)', '((x / 8) + (this.row_bytes * y))')
                ctx.check(gx and gy and shape, R, 'BitmapImage::%s|subscript#%d' % (nm, i), s, 'guarded bit-row access', 'BitmapImage access %s is not dominated by x < width / y < height or has an unexpected index' % ic)


def _index_helper(vd, u):
    """(guard facts, returned expression) of a helper call that initialises vd, in the caller's terms"""
    import re as _re
    from guard import subst_locals
    init = strip(kids(vd)[-1])
    while init is not None and init.get('kind') in ('ImplicitCastExpr', 'CStyleCastExpr', 'CXXStaticCastExpr', 'ExprWithCleanups') and kids(init):
        init = strip(kids(init)[0])
    if init is None or init.get('kind') not in ('CallExpr', 'CXXMemberCallExpr'):
        return None, None
    d = callee_decl(init, u)
    hf = None
    if d is not None:
        hf = d if body_of(d) is not None else next((m for m in u.functions if m.get('mangledName') == d.get('mangledName') and body_of(m) is not None), None)
    if hf is None or '/usr/' in (hf.get('_file') or ''):
        return None, None
    rets = [r for r in walk(body_of(hf)) if r.get('kind') == 'ReturnStmt' and kids(r)]
    if len(rets) != 1:
        return None, None
    amap = {}
    for p_, a_ in zip(params_of(hf), call_args(init)):
        amap[p_.get('name')] = nf(a_)

    def tr(sx):
        sx = subst_locals(sx, rets[0])
        for nm, e in amap.items():
            sx = _re.sub(r'(?<![\\w.>])%s(?![\\w(])' % _re.escape(nm), e, sx)
        return sx
    facts = {(tr(a), op, tr(b)) for a, op, b, _, _ in relations(rets[0])}
    return facts, tr(nf(kids(rets[0])[0]))


def _perms_index(x, y):
    inner = '(' + ' * '.join(sorted(['this.width', y])) + ')'
    summ = '(' + ' + '.join(sorted([x, inner])) + ')'
    stride = '(this.has_alpha ? 4 : 3)'
    return {'(' + ' * '.join(sorted([summ, stride])) + ')'}


def check_no_escape(ctx, u, methods):
    R = 'C07-R3'
    us = repo_unit('Strings.cc')
    E = Exc([u, us], [refine_size_guarded_at] + make_image_refiners(u))
    seen = 0
    for f in methods:
        if f.get('name') not in NO_OOR:
            continue
        if f.get('name') in ('set_channel_width', 'set_has_alpha'):
            pass
        check_no_goto(f)
        seen += 1
        ctx.fn('Image::' + sig(f))
        mt = E.may_throw(f, u)
        w = mt.get('std::out_of_range')
        unread = None
        if w is not None:
            # is the escaping access indexed by a loop whose form the bounds refiner does not read
            # (start other than 0, `!=` bound, two running indices ...)?  Then the premise is undecided, not refuted
            import re as _re9
            m9 = _re9.search(r'called at [^:]+:(\d+):(\d+)', str(w))
            if m9:
                site = next((c for c in walk(body_of(f)) if c.get('kind') == 'CXXMemberCallExpr' and c.get('_line') == int(m9.group(1)) and c.get('_col') == int(m9.group(2))), None)
                if site is not None:
                    known = _loop_var_bounds(site, u)
                    for a_ in call_args(site)[:2]:
                        for y_ in walk(a_):
                            rd_ = ref_decl(y_) if y_.get('kind') == 'DeclRefExpr' else None
                            vd_ = u.by_id.get((rd_ or {}).get('id')) if rd_ else None
                            if vd_ is not None and vd_.get('kind') == 'VarDecl' and vd_['id'] not in known:
                                lp_ = enclosing(vd_, ('ForStmt',))
                                if lp_ is not None and for_parts(lp_)[0] is not None and any(z_ is vd_ for z_ in walk(for_parts(lp_)[0])):
                                    unread = 'the access `%s` is indexed by `%s`, whose loop `%s` is not of the form the bounds refiner reads' % (src_text(site, 50), vd_.get('name'), src_text(lp_, 50).split('{')[0].strip())
        if unread:
            ctx.undecided(R, sig(f), f, unread)
            continue
        ctx.check(w is None, R, sig(f), f, 'out_of_range cannot escape (throws: %s)' % sorted(mt),
                  'std::out_of_range can escape this drawing operation: %s' % (w or '')[:330])
    ctx.require(seen >= 25, 'drawing operations not found (%d)' % seen)
    ctx.extra['exemptions'] = sorted({'%s: %s' % (e[0], e[2][:120]) for e in E.exemptions})[:60]
    # direct pixel access does throw out_of_range (the other half of the clause)
    for f in methods:
        if f.get('name') in ('read_pixel', 'write_pixel') and len(params_of(f)) == 6:
            thr = [t for t in walk_deep(body_of(f), u) if t.get('kind') == 'CXXThrowExpr' and norm_type(dtype(kids(t)[0])) == 'std::out_of_range']
            ctx.check(len(thr) >= 1, R, sig(f).split('(')[0] + ('#r' if f.get('name') == 'read_pixel' else '#w') + '|throws-out_of_range', f, 'outside coordinates throw out_of_range', 'direct pixel access no longer throws out_of_range')


def _canon_renamed(n, ren):
    s = canon(n)
    for a, b in ren:
        s = s.replace(a, b)
    return s


def check_clamp(ctx, u, methods):
    R = 'C07-R4'
    fs = [f for f in u.functions if f.get('name') == 'clamp_blit_dimensions']
    ctx.require(len(fs) == 1, 'clamp_blit_dimensions not found')
    f = fs[0]
    ctx.fn('clamp_blit_dimensions')
    check_no_goto(f)
    ps = [p['name'] for p in params_of(f)]
    ctx.require(ps == ['dest', 'source', 'x', 'y', 'w', 'h', 'sx', 'sy'], 'clamp_blit_dimensions parameters changed: %s' % ps)
    stmts = stmts_of(body_of(f))
    ifs = [s for s in stmts if s.get('kind') == 'IfStmt']

    from guard import local_defs
    ldefs = local_defs(f)

    def leaf_for(axis):
        o, e, so, dim = {'x': ('*x', '*w', '*sx', 'get_width'), 'y': ('*y', '*h', '*sy', 'get_height')}[axis]
        mp = {o: 'A', e: 'W', so: 'SA', 'source.%s()' % dim: 'source.dim', 'dest.%s()' % dim: 'dest.dim'}
        import re as _re
        return lambda t: mp.get(_re.sub(r'^\((?:unsigned |signed )?(?:long|int|short|char|ssize_t|size_t|int64_t)(?: long)?\)', '', ldefs.get(t, t)))

    def cs(s):
        cond, then, els = if_parts(s)
        return (cond, [strip(t) for t in stmts_of(then)], els)

    def render(s, axis):
        cond, then, els = cs(s)
        lf = leaf_for(axis)
        body = [nf(t, lf) for t in then]
        # the statement that zeroes the trimmed origin must come last; the others commute
        head, tail = sorted(body[:-1]), body[-1:]
        return nf(cond, lf) + ' => ' + ' ; '.join(head + tail)
    xs, ys, order = [], [], []
    # alternative shape: one per-axis routine called once for each axis
    axis_calls = [strip(s_) for s_ in stmts if strip(s_).get('kind') == 'CallExpr' and callee_decl(strip(s_), u) is not None and body_of(callee_decl(strip(s_), u)) is not None]
    if len(axis_calls) == 2 and callee_decl(axis_calls[0], u) is callee_decl(axis_calls[1], u):
        H = callee_decl(axis_calls[0], u)
        hp = [p_['name'] for p_ in params_of(H)]
        a0 = [nf(a_) for a_ in call_args(axis_calls[0])]
        a1 = [nf(a_) for a_ in call_args(axis_calls[1])]
        role = {}
        for nm_, ax, ay in zip(hp, a0, a1):
            pair = (ax, ay)
            r_ = {('dest.get_width()', 'dest.get_height()'): 'dest.dim', ('source.get_width()', 'source.get_height()'): 'source.dim', ('x', 'y'): 'A', ('w', 'h'): 'W', ('sx', 'sy'): 'SA'}.get(pair)
            if r_ is None:
                r_ = {('dest.get_height()', 'dest.get_width()'): 'dest.dim', ('source.get_height()', 'source.get_width()'): 'source.dim', ('y', 'x'): 'A', ('h', 'w'): 'W', ('sy', 'sx'): 'SA'}.get(pair)
            role[nm_] = r_
        ctx.check(None not in role.values() and sorted(role.values()) == ['A', 'SA', 'W', 'dest.dim', 'source.dim'], R, 'axis-routine|arguments', axis_calls[0], 'the per-axis routine is applied to (width, x, w, sx) and to (height, y, h, sy)',
                  'the per-axis clipping routine is not called with corresponding horizontal and vertical arguments: %s / %s' % (a0, a1))
        check_no_goto(H)
        ctx.fn(H.get('name'))
        mp_ = {}
        for nm_, r_ in role.items():
            mp_[('*' + nm_) if r_ in ('A', 'W', 'SA') else nm_] = r_
        lf_ = lambda t: mp_.get(t)
        for s in [s_ for s_ in stmts_of(body_of(H)) if s_.get('kind') == 'IfStmt']:
            cond, then, els = cs(s)
            body_ = [nf(t, lf_) for t in then]
            txt = nf(cond, lf_) + ' => ' + ' ; '.join(sorted(body_[:-1]) + body_[-1:])
            xs.append(txt)
            ys.append(txt)
            order.append(txt)
        for x in walk(body_of(H)):
            if x.get('kind') == 'BinaryOperator' and x.get('opcode') in ('<', '>', '<=', '>=') and any((dtype(o) or '').startswith('unsigned') for o in x['inner']):
                ctx.bad(R, 'signed-comparisons|axis-routine', x, 'a clipping comparison in the per-axis routine converts a signed coordinate to unsigned (%s)' % src_text(x, 80))
        ifs = [s_ for s_ in ifs]
    for s in (ifs if not xs else []):
        cond, then, els = cs(s)
        names = {(ref_decl(y) or {}).get('name') for y in walk(s)}
        if 'w' in names and 'h' in names:
            continue   # the final collapse step
        if names & {'y', 'h', 'sy'}:
            ys.append(render(s, 'y'))
            order.append(render(s, 'y'))
        else:
            xs.append(render(s, 'x'))
            order.append(render(s, 'x'))
    ctx.check(sorted(xs) == sorted(ys) and len(xs) == 4, R, 'x/y-symmetry', f, 'the 4 vertical steps are the 4 horizontal steps under (x,w,sx,width) <-> (y,h,sy,height)',
              'clipping differs between the axes: x-steps %s vs y-steps %s' % (sorted(set(xs) - set(ys))[:2], sorted(set(ys) - set(xs))[:2]))
    want = {
        'trim-source-origin': '(SA < 0) => (A -= SA) ; (W += SA) ; (SA = 0)',
        'trim-dest-origin': '(A < 0) => (SA -= A) ; (W += A) ; (A = 0)',
        'trim-source-extent': '(source.dim < (SA + W)) => (W = (source.dim - SA))',
        'trim-dest-extent': '(dest.dim < (A + W)) => (W = (dest.dim - A))',
    }
    for k, w_ in want.items():
        ctx.check(w_ in xs, R, 'step|' + k, f, w_, 'clipping step `%s` not found; the horizontal steps are %s' % (w_, xs))
    first_extent = next((i for i, c in enumerate(order) if '+ W' in c.split('=>')[0]), len(order))
    last_origin = max([i for i, c in enumerate(order) if c.split(' =>')[0] in ('(SA < 0)', '(A < 0)')] or [-1])
    ctx.check(last_origin < first_extent, R, 'order|origins-before-extents', f, 'origin trims precede extent trims', 'an extent trim precedes an origin trim: the extent is computed from an untrimmed origin')
    # all comparisons signed
    bad = []
    for x in walk(body_of(f)):
        if x.get('kind') == 'BinaryOperator' and x.get('opcode') in ('<', '>', '<=', '>='):
            if any((dtype(o) or '').startswith('unsigned') for o in x['inner']):
                bad.append(x)
    ctx.check(not bad, R, 'signed-comparisons', bad[0] if bad else f, 'every clipping comparison is evaluated in a signed type',
              'a clipping comparison converts a signed coordinate to unsigned (%s): negative coordinates compare as huge and the area is not trimmed' % (src_text(bad[0], 80) if bad else ''))
    # negative extent collapses to empty
    last = ifs[-1] if ifs else None
    okc = False
    if last is not None:
        cond, then, els = cs(last)
        c = nf(cond)
        neg = set()
        for n_, pol_ in atoms([Fact(cond, False, last)]):
            r_ = relation(n_, pol_)
            if r_:
                a_, o_, b_ = nf(r_[0]), r_[1], nf(r_[2])
                if a_ == '0':
                    a_, o_, b_ = b_, FLIP[o_], a_
                neg.add((a_, o_, b_))
        okc = neg == {('*w', '>=', '0'), ('*h', '>=', '0')} and sorted(nf(t) for t in then) == ['(*h = 0)', '(*w = 0)'] and last is stmts[-1]
    ctx.check(okc, R, 'negative-extent-collapses', last or f, 'w<0 or h<0 => empty area, as the last step', 'the final step does not collapse a negative extent to an empty area')
    # fill_rect clipping: same symmetric structure
    for g in methods:
        if g.get('name') == 'fill_rect' and len(params_of(g)) == 8:
            gi = [s for s in stmts_of(body_of(g)) if s.get('kind') == 'IfStmt']
            gx, gy = [], []
            for s in gi:
                cond, then, els = cs(s)
                txt = canon(cond)
                cn = {(ref_decl(y_) or {}).get('name') for y_ in walk(cond)}
                if cn & {'x', 'w'} and cn & {'y', 'h'}:
                    continue     # a test over both axes (empty-area early exit), not a per-axis clipping step
                if 'a' == canon(cond).strip('()').split(' ')[-1] or ' a)' in txt or '(a ' in txt or '== a' in txt or 'a ==' in txt:
                    continue
                rx = _canon_renamed(cond, [('get_width', 'get_dim')]) + ' => ' + ' ; '.join(_canon_renamed(t, [('get_width', 'get_dim')]) for t in then)
                if any(v in canon(cond) for v in ('y', 'h')) and not any(v in canon(cond).replace('this', '').replace('get_width', '').replace('get_height', '') for v in ('x', 'w')):
                    import re as _re
                    gy.append(_re.sub(r'\by\b', 'A', _re.sub(r'\bh\b', 'W', _canon_renamed(cond, [('get_height', 'get_dim')]) + ' => ' + ' ; '.join(_canon_renamed(t, [('get_height', 'get_dim')]) for t in then))))
                else:
                    import re as _re
                    gx.append(_re.sub(r'\bx\b', 'A', _re.sub(r'\bw\b', 'W', rx)))
            ctx.check(sorted(gx) == sorted(gy) and len(gx) == 2, R, 'fill_rect|x/y-symmetry', g, 'fill_rect clips both axes identically', 'fill_rect clips the axes differently: %s vs %s' % (sorted(gx), sorted(gy)))
            badc = [x for x in walk(body_of(g)) if x.get('kind') == 'BinaryOperator' and x.get('opcode') in ('<', '>', '<=', '>=') and
                    any(o.get('kind') == 'ImplicitCastExpr' and o.get('castKind') == 'IntegralCast' and (dtype(o) or '').startswith('unsigned') and (dtype(o['inner'][0]) or '') in ('long', 'int') and
                        any((ref_decl(y) or {}).get('name') in ('x', 'y', 'w', 'h') for y in walk(o)) for o in x['inner'])]
            ctx.check(not badc, R, 'fill_rect|signed-comparisons', badc[0] if badc else g, 'signed clipping comparisons', 'fill_rect compares a signed coordinate as unsigned: %s' % (src_text(badc[0], 70) if badc else ''))


def check_buffer_format(ctx, u, methods):
    """R5: format fields and the buffer change together; allocation sizes follow the class invariant."""
    R = 'C07-R5'
    gds = [f for f in methods if f.get('name') == 'get_data_size']
    ctx.require(len(gds) == 1, 'Image::get_data_size not found')
    rets = [x for x in walk(body_of(gds[0])) if x.get('kind') == 'ReturnStmt']
    inv = nf(kids(rets[0])[0])
    want_inv = '(' + ' * '.join(sorted(['this.height', 'this.width', '(3 + this.has_alpha)', '(this.channel_width / 8)'])) + ')'
    ctx.check(inv == want_inv, R, 'get_data_size|invariant', gds[0], 'data size = width*height*(3+alpha)*(channel_width/8)', 'get_data_size() is %s' % inv)
    for f in methods:
        nm = f.get('name')
        if f.get('kind') == 'CXXDestructorDecl' or nm in ('load',):
            continue
        body = body_of(f)
        field_writes = [x for x in walk(body) if x.get('kind') in ('BinaryOperator', 'CompoundAssignOperator') and x.get('opcode') in ASSIGN_OPS and
                        canon(x['inner'][0]) in ['this.' + ff for ff in FORMAT_FIELDS]]
        raw_writes = [x for x in walk(body) if x.get('kind') == 'BinaryOperator' and x.get('opcode') == '=' and canon(x['inner'][0]) in ('this.data.raw', 'this.data')]
        allocs = [x for x in walk(body) if x.get('kind') == 'BinaryOperator' and x.get('opcode') == '=' and is_data_member(x['inner'][0], ('raw',)) is not None and
                  any(c.get('kind') == 'CallExpr' and call_name(c) in ('malloc', 'calloc', 'realloc') for c in walk(x['inner'][1]))]
        # also `DataPtrs new_data; new_data.raw = malloc(...)`
        allocs += [x for x in walk(body) if x.get('kind') == 'BinaryOperator' and x.get('opcode') == '=' and strip(x['inner'][0]).get('kind') == 'MemberExpr' and strip(x['inner'][0]).get('name') == 'raw' and
                   x not in allocs and any(c.get('kind') == 'CallExpr' and call_name(c) in ('malloc', 'calloc') for c in walk(x['inner'][1]))]
        if not field_writes and not allocs:
            continue
        ctx.fn('Image::' + sig(f))
        key0 = sig(f)
        # (1) a function that changes a format field re-commits the buffer unconditionally afterwards
        if field_writes and f.get('kind') != 'CXXConstructorDecl':
            last_fw = max(field_writes, key=lambda x: x.get('_off', 0))
            dom = [r for r in raw_writes if strip(containing_statement(r)) is r and containing_statement(r).get('_p') is body]
            ok = any(True for r in dom)
            ctx.check(ok, R, key0 + '|buffer-recommitted', last_fw, 'format change is accompanied by an unconditional new buffer',
                      'the format fields (%s) are changed but this->data.raw is not unconditionally replaced: the buffer can be smaller than get_data_size() for the new format' % ', '.join(sorted({canon(x['inner'][0])[5:] for x in field_writes})))
        # (2) allocation sizes
        for i, a in enumerate(allocs):
            call = next(c for c in walk(a['inner'][1]) if c.get('kind') == 'CallExpr' and call_name(c) in ('malloc', 'calloc', 'realloc'))
            size = call_args(call)[-1]
            sc = nf(size)
            rd = ref_decl(size)
            vd = _local_def(u, rd)
            if vd is not None and not _reassigned_after(f, vd['id'], vd):
                sc = nf(kids(vd)[-1])
                size_site = vd
            else:
                size_site = call
            ok = False
            why = 'allocation size %s is not the class invariant' % sc
            if sc == 'this.get_data_size()':
                # fields final at that point
                later = [x for x in field_writes if x.get('_off', 0) > size_site.get('_off', 0)]
                ok = not later
                why = 'get_data_size() is evaluated before %s is updated' % ', '.join(canon(x['inner'][0]) for x in later)
            else:
                # explicit formula: invariant with fields replaced by the values committed later in this function
                sub = want_inv
                for x in field_writes:
                    if x.get('opcode') == '=' and x.get('_off', 0) > size_site.get('_off', 0):
                        sub = sub.replace(canon(x['inner'][0]), nf(x['inner'][1]))
                ok = _poly_equal(sc, sub)
                if not ok:
                    # the same comparison on polynomials (hoisted factors, `alpha ? 4 : 3` for `3 + alpha`)
                    from poly import Poly as _P7, p_mul as _pm7, p_add as _pa7, p_const as _pc7, p_atom as _pt7
                    import re as _re7
                    got_p = _P7(f, u).poly(size)
                    want_p = _pc7(1)
                    fs_ = sub.strip()
                    fs_ = fs_[1:-1] if fs_.startswith('(') and fs_.endswith(')') else fs_
                    depth_, cur_, parts_ = 0, '', []
                    i_ = 0
                    while i_ < len(fs_):
                        ch_ = fs_[i_]
                        depth_ += ch_ == '('
                        depth_ -= ch_ == ')'
                        if depth_ == 0 and fs_.startswith(' * ', i_):
                            parts_.append(cur_)
                            cur_ = ''
                            i_ += 3
                            continue
                        cur_ += ch_
                        i_ += 1
                    parts_.append(cur_)
                    for pt_ in parts_:
                        m_ = _re7.match(r'^\((\d+) \+ (.+)\)$', pt_)
                        if m_:
                            want_p = _pm7(want_p, _pa7(_pc7(int(m_.group(1))), _pt7(m_.group(2))))
                        elif pt_.isdigit():
                            want_p = _pm7(want_p, _pc7(int(pt_)))
                        else:
                            want_p = _pm7(want_p, _pt7(pt_))
                    ok = got_p == want_p
                why = 'allocation size %s differs from the invariant %s under the fields committed by this function' % (sc, sub)
            ctx.check(ok, R, key0 + '|alloc-size#%d' % i, a, 'buffer allocated with the invariant size', why)


def _poly_equal(a, b):
    """products of the same multiset of factors (canonical strings of nested binary *)"""
    def factors(s):
        s = s.strip()
        if s.startswith('(') and s.endswith(')'):
            depth = 0
            parts = []
            cur = ''
            inner = s[1:-1]
            i = 0
            top_mul = False
            while i < len(inner):
                ch = inner[i]
                if ch == '(':
                    depth += 1
                elif ch == ')':
                    depth -= 1
                if depth == 0 and inner.startswith(' * ', i):
                    parts.append(cur)
                    cur = ''
                    i += 3
                    top_mul = True
                    continue
                cur += ch
                i += 1
            parts.append(cur)
            if top_mul:
                out = []
                for p in parts:
                    out.extend(factors(p))
                return out
        return [s]
    return sorted(factors(a)) == sorted(factors(b))


def check_lane_maps(ctx, u, methods):
    R = 'C07-R6'
    I = Interp(u)
    # expand_color / compress_color
    ex = [f for f in u.functions if f.get('name') == 'expand_color']
    co = [f for f in u.functions if f.get('name') == 'compress_color']
    ctx.require(len(ex) == 1 and len(co) == 1, 'expand_color / compress_color not found')
    il = [x for x in walk(body_of(ex[0])) if x.get('kind') == 'InitListExpr']
    ctx.require(len(il) >= 1 and len(kids(il[0])) == 4, 'expand_color initialiser list not found')
    p = params_of(ex[0])[0]
    comps = [I.eval(e, {p['id']: sym_bv('c', 32, False)}) for e in kids(il[0])]
    okx = True
    for j, v in enumerate(comps):
        v = I.cast(v, 'unsigned long')
        spec = [('i', 'c', 8 * (3 - j) + b) if b < 8 else 0 for b in range(64)]
        if expect_lanes(v, spec):
            okx = False
    ctx.check(okx, R, 'expand_color|lanes', ex[0], 'r,g,b,a = bytes 3,2,1,0 of the colour', 'expand_color does not split 0xRRGGBBAA into its four bytes')
    cps = params_of(co[0])
    env = {cps[j]['id']: sym_bv('rgba'[j], 64, False) for j in range(4)}
    v = I.eval_function(co[0], env)
    spec = []
    for b in range(32):
        j, bit = divmod(b, 8)
        spec.append(('i', 'abgr'[j], bit))
    ctx.check(v is not None and not expect_lanes(I.cast(v, 'unsigned int'), spec), R, 'compress_color|lanes', co[0], 'colour = r<<24 | g<<16 | b<<8 | a (low bytes)', 'compress_color does not pack the low bytes of r,g,b,a as 0xRRGGBBAA')
    # set_channel_width: widen then narrow is the identity
    f = next((m for m in methods if m.get('name') == 'set_channel_width'), None)
    ctx.require(f is not None, 'set_channel_width not found')
    ctx.fn('Image::set_channel_width')
    exprs = {}
    vdecl = None
    for x in walk(body_of(f)):
        if x.get('kind') == 'BinaryOperator' and x.get('opcode') == '=' and strip(x['inner'][0]).get('kind') == 'ArraySubscriptExpr':
            dst = strip(x['inner'][0])
            m = strip(dst['inner'][0])
            if m.get('kind') == 'MemberExpr' and (m.get('name') or '').startswith('as') and canon(m).startswith('new_data'):
                have = {(a, op, b) for a, op, b, _, _ in relations(x)}
                old = [int(b) for a, op, b in have if a == 'this.channel_width' and op == '==' and b.isdigit()]
                new = [int(b) for a, op, b in have if a == 'new_width' and op == '==' and b.isdigit()]
                if len(old) == 1 and len(new) == 1 and int(m['name'][2:]) == new[0]:
                    exprs[(old[0], new[0])] = x['inner'][1]
                    for y in walk(x['inner'][1]):
                        if y.get('kind') == 'DeclRefExpr' and (y.get('referencedDecl') or {}).get('kind') == 'VarDecl':
                            vdecl = y['referencedDecl']
    pairs = [(a, b) for a in (8, 16, 32, 64) for b in (8, 16, 32, 64) if a < b]
    ctx.require(vdecl is not None and all((a, b) in exprs and (b, a) in exprs for a, b in pairs), 'set_channel_width: conversion expressions for the 12 width pairs not found (%s)' % sorted(exprs))
    for a, b in pairs:
        wide = I.eval(exprs[(a, b)], {vdecl['id']: sym_bv('v', 64, False, free_bits=a)})
        wide = BV(64, wide.b[:b] + [0] * (64 - b), False)   # stored into the b-bit element, read back zero-extended
        back = I.eval(exprs[(b, a)], {vdecl['id']: wide})
        bad = expect_lanes(back, [('i', 'v', i) for i in range(a)])
        ctx.check(not bad, R, 'set_channel_width|%d->%d->%d' % (a, b, a), exprs[(a, b)], 'widen %d->%d then narrow %d->%d is the identity' % (a, b, b, a),
                  'widening %d->%d followed by narrowing does not give the original sample back: %s' % (a, b, describe_mismatch(bad)))
        # widening replicates the sample (full-scale maps to full-scale)
        rep = expect_lanes(BV(b, wide.b[:b]), [('i', 'v', i % a) for i in range(b)])
        ctx.check(not rep, R, 'set_channel_width|%d->%d-replicates' % (a, b), exprs[(a, b)], 'widening replicates the sample into every %d-bit lane' % a, 'widening %d->%d is not sample replication: %s' % (a, b, describe_mismatch(rep)))
    # value source: v read from the element type of the current width at the same index
    # resolved overloads in draw_line
    dl = [m for m in methods if m.get('name') == 'draw_line' and len(params_of(m)) == 8]
    ctx.require(len(dl) == 1, 'draw_line not found')
    for i, c in enumerate([c for c in walk(body_of(dl[0])) if c.get('kind') == 'CallExpr' and call_name(c) == 'abs']):
        d = callee_decl(c, u)
        t = (d or {}).get('type', {}).get('qualType', '')
        ctx.check(t.startswith('long (long') or t.startswith('long long'), R, 'draw_line|abs#%d' % i, c, 'abs resolves to the long overload', 'abs resolves to `%s`: 64-bit coordinate differences are truncated' % t)
    # walk state of the line rasteriser: the major-axis loop starts at the endpoint the
    # minor coordinate and the error term were initialised for, and runs to the other endpoint
    dlb = body_of(dl[0])
    loops_dl = [x for x in walk(dlb) if x.get('kind') == 'ForStmt' and any(c.get('kind') == 'CXXMemberCallExpr' and call_name(c) == 'write_pixel' for c in walk(x))]
    ctx.require(len(loops_dl) == 1, 'draw_line: rasterising loop not found')
    init, cv, cond, inc, lb = for_parts(loops_dl[0])
    xv = next((x for x in walk(init) if x.get('kind') == 'VarDecl'), None) if init else None
    ctx.require(xv is not None and kids(xv), 'draw_line: loop variable not found')
    dxs = [vd for vd in walk(dlb) if vd.get('kind') == 'VarDecl' and kids(vd) and strip(kids(vd)[-1]).get('kind') == 'BinaryOperator' and strip(kids(vd)[-1]).get('opcode') == '-'
           and not any(c.get('kind') == 'CallExpr' for c in walk(vd)) and (dtype(vd) or '') in ('long', 'ssize_t', 'long long')]
    ctx.require(len(dxs) >= 1, 'draw_line: major-axis delta (`dx = x1 - x0`) not found')
    dxn = strip(kids(dxs[0])[-1])
    X1, X0 = canon(dxn['inner'][0]), canon(dxn['inner'][1])
    steps = [vd for vd in walk(dlb) if vd.get('kind') == 'VarDecl' and kids(vd) and strip(kids(vd)[-1]).get('kind') == 'ConditionalOperator' and (dtype(vd) or '') in ('long', 'ssize_t', 'long long', 'int')]
    ctx.require(len(steps) >= 1, 'draw_line: minor-axis step (`ystep = (y0 < y1) ? 1 : -1`) not found')
    r_ = relation(kids(strip(kids(steps[0])[-1]))[0], True)
    ctx.require(r_ is not None, 'draw_line: step direction test not recognised')
    Y0 = canon(r_[0]) if r_[1] in ('<', '<=') else canon(r_[2])
    # the minor coordinate: the variable incremented by the step
    yv = None
    for a in walk(lb):
        if a.get('kind') == 'CompoundAssignOperator' and a.get('opcode') == '+=' and (ref_decl(a['inner'][1]) or {}).get('id') == steps[0]['id']:
            yv = u.by_id.get((ref_decl(a['inner'][0]) or {}).get('id'))
    ctx.require(yv is not None and kids(yv), 'draw_line: minor coordinate (`y += ystep`) not found')
    errs = [vd for vd in walk(dlb) if vd.get('kind') == 'VarDecl' and kids(vd) and (dtype(vd) or '') in ('double', 'float') and any(a.get('kind') == 'CompoundAssignOperator' and (ref_decl(a['inner'][0]) or {}).get('id') == vd['id'] for a in walk(lb))]
    x_init = canon(kids(xv)[-1])
    y_init = canon(kids(yv)[-1])
    err_zero = bool(errs) and all(canon(kids(e)[-1]) in ('0', '0.0') or int_value(kids(e)[-1]) == 0 for e in errs)
    if x_init != X0 and not (y_init == Y0 and err_zero):
        raise AnalysisBroken('draw_line: the walk starts at %s with minor coordinate %s: not a form this rule can decide' % (x_init, y_init))
    ctx.check(x_init == X0 and y_init == Y0 and err_zero, R, 'draw_line|walk-start', loops_dl[0], 'walk starts at (%s, %s) with zero error' % (X0, Y0),
              'the walk starts at major coordinate `%s` while the minor coordinate and error term are those of the endpoint `%s`: the drawn pixels are shifted off the ideal segment' % (x_init, X0))
    rc = relation(cond, True) if cond else None
    inc_ok = inc is not None and strip(inc).get('kind') == 'UnaryOperator' and strip(inc).get('opcode') == '++' and (ref_decl(strip(inc)['inner'][0]) or {}).get('id') == xv['id']
    end_ok = rc is not None and (ref_decl(rc[0]) or {}).get('id') == xv['id'] and rc[1] == '<=' and canon(rc[2]) == X1
    if x_init == X0:
        ctx.check(inc_ok and end_ok, R, 'draw_line|walk-extent', loops_dl[0], 'one pixel per major-axis step from %s to %s inclusive' % (X0, X1),
                  'the walk does not visit every major-axis coordinate from %s to %s inclusive in steps of one (condition `%s`)' % (X0, X1, src_text(cond, 40) if cond else ''))
    # glyph index bounds
    dt = [m for m in methods if m.get('name') == 'draw_text_v']
    ctx.require(len(dt) == 1, 'draw_text_v not found')
    subs = [x for x in walk(body_of(dt[0])) if x.get('kind') == 'ArraySubscriptExpr' and any((ref_decl(y) or {}).get('name') == 'font' for y in walk(x))]
    outer = [s for s in subs if strip(s['inner'][0]).get('kind') == 'ArraySubscriptExpr']
    ctx.require(len(outer) >= 1, 'font subscript not found in draw_text_v')
    fvd = next((v for v in u.by_id.values() if v.get('kind') == 'VarDecl' and v.get('name') == 'font'), None)
    ft = qtype(fvd) if fvd else ''
    import re as _re
    m = _re.search(r'\[(\d+)\]\[(\d+)\]', ft or '')
    ctx.require(m is not None, 'font table type not found (%r)' % ft)
    rows, cols = int(m.group(1)), int(m.group(2))
    s = outer[0]
    # inner index yy*5+xx with yy<7, xx<5
    lv = _loop_var_bounds(s, u)
    ic = canon(s['inner'][1])
    mm = _re.match(r'^\(xx \+ \((\d+) \* yy\)\)$|^\(\((\d+) \* yy\) \+ xx\)$', ic)
    stride = int(mm.group(1) or mm.group(2)) if mm else None
    ub = {}
    for vid, (lo, ubn, strict, _) in lv.items():
        vd = u.by_id.get(vid)
        if vd is not None and int_value(ubn) is not None and strict and lo == 0:
            ub[vd.get('name')] = int_value(ubn)
    ok_inner = stride is not None and 'xx' in ub and 'yy' in ub and ub['xx'] <= stride and (ub['yy'] - 1) * stride + ub['xx'] - 1 < cols
    ctx.check(ok_inner, R, 'draw_text_v|glyph-cell-index', s, 'yy*%s+xx <= %d < %d' % (stride, (ub.get('yy', 0) - 1) * (stride or 0) + ub.get('xx', 0) - 1, cols), 'glyph cell index %s can exceed the %d cells of a glyph (bounds %s)' % (ic, cols, ub))
    # character clamp: ch < 0x20 || ch > 0x7F -> 0x7F ; ch -= 0x20  => [0, 0x5F]
    chd = ref_decl(strip(s['inner'][0])['inner'][1])
    okc = False
    if chd:
        body = body_of(dt[0])
        clamp = None
        sub = None
        for x in walk(body):
            if x.get('kind') == 'IfStmt':
                cond, then, els = if_parts(x)
                c = canon(cond)
                ts = [strip(t) for t in stmts_of(then)]
                if len(ts) == 1 and ts[0].get('kind') == 'BinaryOperator' and ts[0].get('opcode') == '=' and (ref_decl(ts[0]['inner'][0]) or {}).get('id') == chd['id']:
                    lo = hi = None
                    for n_, pol in atoms([Fact(cond, False, x)]):
                        r = relation(n_, pol)
                        if r and (ref_decl(r[0]) or {}).get('id') == chd['id'] and int_value(r[2]) is not None:
                            if r[1] == '>=':
                                lo = int_value(r[2])
                            if r[1] == '<=':
                                hi = int_value(r[2])
                    clamp = (lo, hi, int_value(ts[0]['inner'][1]), x)
            if x.get('kind') == 'CompoundAssignOperator' and x.get('opcode') == '-=' and (ref_decl(x['inner'][0]) or {}).get('id') == chd['id']:
                sub = (int_value(x['inner'][1]), x)
        if clamp and sub and None not in clamp[:3] and sub[0] is not None:
            lo, hi, rep, cn = clamp
            okc = lo - sub[0] >= 0 and hi - sub[0] < rows and lo <= rep <= hi and cn.get('_off', 0) < sub[1].get('_off', 0) < s.get('_off', 0)
    ctx.check(okc, R, 'draw_text_v|glyph-index', s, 'character clamped to the %d glyphs of the font' % rows, 'the glyph index is not confined to [0, %d) before font[ch] is read' % rows)


def check_clamp_by_evaluation(ctx, u):
    """C07-R8: clamp_blit_dimensions folded on a grid of canvas sizes, origins and extents; the area it
    leaves must be the set of (dest pixel, source pixel) pairs of the per-pixel model"""
    from peval import PEval, Ptr, Rec, Thrown, Undecided, Fault
    R = 'C07-R8'
    fs = [f for f in u.functions if f.get('name') == 'clamp_blit_dimensions' and body_of(f) is not None]
    ctx.need(len(fs) == 1, 'clamp_blit_dimensions not found')
    f = fs[0]
    ps = params_of(f)
    ctx.need(len(ps) == 8 and all('*' in (qtype(p) or '') for p in ps[2:]) and all('Image' in (qtype(p) or '') for p in ps[:2]), 'clamp_blit_dimensions signature changed')
    PE = PEval([u])

    def axis_model(D, S, x, w, sx):
        return {(x + i, sx + i) for i in range(max(w, 0)) if 0 <= x + i < D and 0 <= sx + i < S}

    def run(D, S, x, w, sx, vertical):
        dest, src = PE.new_object('phosg::Image'), PE.new_object('phosg::Image')
        if dest is None or src is None:
            raise Undecided('Image object model')
        other = (2, 2, 0, 2, 0)       # the other axis: a 2-pixel in-bounds strip
        dims = ((D, other[0]), (S, other[1])) if not vertical else ((other[0], D), (other[1], S))
        dest.f.update({'width': dims[0][0], 'height': dims[0][1]})
        src.f.update({'width': dims[1][0], 'height': dims[1][1]})
        cell = {'x': x if not vertical else other[2], 'y': other[2] if not vertical else x, 'w': w if not vertical else other[3], 'h': other[3] if not vertical else w,
                'sx': sx if not vertical else other[4], 'sy': other[4] if not vertical else sx, '__parent__': None}
        args = [dest, src] + [Ptr(cell, k, 'long') for k in ('x', 'y', 'w', 'h', 'sx', 'sy')]
        PE.call_with(f, args)
        a, e, so = ('x', 'w', 'sx') if not vertical else ('y', 'h', 'sy')
        oa, oe, oso = ('y', 'h', 'sy') if not vertical else ('x', 'w', 'sx')
        got_axis = {(cell[a] + i, cell[so] + i) for i in range(max(cell[e], 0))}
        got_other = {(cell[oa] + i, cell[oso] + i) for i in range(max(cell[oe], 0))}
        return got_axis, got_other
    vals = (-3, -1, 0, 1, 2, 4)
    n, bad, und = 0, None, None
    for vertical in (False, True):
        for D in (0, 1, 3):
            for S in (0, 1, 3):
                for x in vals:
                    for sx in vals:
                        for w in (-1, 0, 1, 2, 3, 6):
                            if und or bad:
                                continue
                            try:
                                ga, go = run(D, S, x, w, sx, vertical)
                            except Thrown as e_:
                                bad = 'throws %s' % e_.etype
                                continue
                            except Fault as e_:
                                bad = 'faults (%s)' % e_
                                continue
                            except Undecided as e_:
                                und = str(e_)
                                continue
                            n += 1
                            want = axis_model(D, S, x, w, sx)
                            want_o = {(0, 0), (1, 1)}
                            got2d = {(p_, q_) for p_ in ga for q_ in go}
                            want2d = {(p_, q_) for p_ in want for q_ in want_o}
                            if got2d != want2d:
                                ax = 'vertical' if vertical else 'horizontal'
                                bad = '%s axis, dest size %d, source size %d, origin %d, extent %d, source origin %d: the clamped area copies %s; the pixels inside both canvases are %s' % (ax, D, S, x, w, sx, sorted(ga) if go else 'nothing', sorted(want))
    if und:
        ctx.undecided(R, 'clamp|grid', f, 'clamp_blit_dimensions could not be folded (%s)' % und)
        return False
    if bad:
        ctx.bad(R, 'clamp|grid', f, 'clamp_blit_dimensions: ' + bad)
        return False
    ctx.ok(R, 'clamp|grid', f, 'on %d (axis, sizes, origins, extent) combinations the clamped area is exactly the set of pixel pairs inside both canvases (empty when there is none)' % n)
    return True


def check_culling_guards(ctx, u, methods):
    """C07-R9: an early-out that skips drawing because a position lies beyond a canvas edge must cover
    everything the skipped code would have drawn (the background box of a text cell is one pixel larger
    than its glyph): otherwise the result depends on where the canvas ends."""
    from poly import Poly, p_add, p_const
    R = 'C07-R9'
    n = 0
    for f in methods:
        if body_of(f) is None or f.get('name') not in ('draw_text_v', 'draw_text', 'draw_horizontal_line', 'draw_vertical_line', 'fill_rect'):
            continue
        for g in walk(body_of(f)):
            if g.get('kind') != 'IfStmt':
                continue
            cond, then, els = if_parts(g)
            st = [strip(x) for x in stmts_of(then)] if then is not None else []
            if els is not None or len(st) != 1 or st[0].get('kind') not in ('ReturnStmt', 'ContinueStmt', 'BreakStmt'):
                continue
            host = enclosing(g, ('CXXMethodDecl', 'FunctionDecl')) or f
            PL = Poly(host, u)
            edge_atoms = []

            def disjuncts(e):
                e0 = strip(e)
                while e0 is not None and e0.get('kind') in ('ParenExpr', 'ImplicitCastExpr') and kids(e0):
                    e0 = strip(kids(e0)[0])
                if e0 is not None and e0.get('kind') == 'BinaryOperator' and e0.get('opcode') == '||':
                    return disjuncts(e0['inner'][0]) + disjuncts(e0['inner'][1])
                return [e0]
            # each disjunct on its own triggers the skip
            for n_, pol in [(x_, p_) for dj in disjuncts(cond) for x_, p_ in atoms([Fact(dj, True, g)])]:
                r = relation(n_, pol)
                if not r:
                    continue
                for a_, o_, b_ in ((r[0], r[1], r[2]), (r[2], FLIP[r[1]], r[0])):
                    bc = canon(b_)
                    if o_ in ('>=', '>') and bc in ('this.width', 'this.height', 'this.get_width()', 'this.get_height()'):
                        edge_atoms.append(('far', 'x' if 'width' in bc else 'y', PL.poly(a_), 0 if o_ == '>=' else 1, n_))
                    if o_ in ('<=', '<') and int_value(b_) == 0:
                        edge_atoms.append(('near', None, PL.poly(a_), 0 if o_ == '<=' else -1, n_))
            if not edge_atoms:
                continue
            # drawing calls that the skip bypasses: later statements of the same block (and the rest of the loop body)
            later = [x for x in walk(enclosing(g, ('CompoundStmt',))) if x.get('_off', 0) > g.get('_off', 0)]
            rects = []
            for c in later:
                if c.get('kind') == 'CXXMemberCallExpr' and call_name(c) == 'fill_rect' and len(call_args(c)) >= 4:
                    a = call_args(c)
                    rects.append((c, PL.poly(a[0]), PL.poly(a[1]), PL.poly(a[2]), PL.poly(a[3])))
            for kind, axis, E, adj, node in edge_atoms:
                for c, x0, y0, w, h in rects:
                    for ax, o0, ext in (('x', x0, w), ('y', y0, h)):
                        if axis is not None and axis != ax:
                            continue
                        if kind == 'far':
                            d = p_add(o0, E, -1)           # first drawn coordinate - E  must be >= 0
                            if list(d) in ([], [()]):
                                n += 1
                                ctx.check(d.get((), 0) + adj >= 0, R, '%s|cull@%s|%s' % (f.get('name'), g.get('_line'), src_text(node, 30)), g, 'everything skipped lies beyond the edge',
                                          'the early-out `%s` skips `%s`, which starts %d pixel(s) before that position: when the position is exactly at the canvas edge, pixels inside the canvas are not drawn and the result differs from the same drawing on a larger canvas' % (src_text(node, 40), src_text(c, 50), -(d.get((), 0) + adj)))
                        else:
                            d = p_add(E, p_add(o0, ext), -1)  # E - (last drawn coordinate + 1) must be >= 0
                            if list(d) in ([], [()]):
                                n += 1
                                ctx.check(d.get((), 0) + adj >= 0, R, '%s|cull@%s|%s' % (f.get('name'), g.get('_line'), src_text(node, 30)), g, 'everything skipped lies before the edge',
                                          'the early-out `%s` skips `%s`, which extends %d pixel(s) past that position: when the cell ends exactly at the canvas edge, pixels inside the canvas are not drawn and the result differs from the same drawing on a larger canvas' % (src_text(node, 40), src_text(c, 50), -(d.get((), 0) + adj)))
    if n == 0:
        ctx.ok(R, 'no-culling-guards', 'Image.cc', 'no drawing routine skips work by comparing a position with a canvas edge', nontrivial=False)


def check_swallow_granularity(ctx, u, methods):
    R = 'C07-R7'
    n = 0
    for f in methods:
        body = body_of(f)
        if body is None:
            continue
        for t in walk(body):
            if t.get('kind') != 'CXXTryStmt':
                continue
            ks = [c for c in kids(t) if c.get('kind')]
            blk, handlers = ks[0], ks[1:]
            px = [c for c in walk(blk) if c.get('kind') == 'CXXMemberCallExpr' and call_name(c) in ('write_pixel', 'read_pixel')]
            if not px:
                continue
            # a handler that completes normally (no throw inside) swallows the exception
            swallowing = [h for h in handlers if not any(x.get('kind') == 'CXXThrowExpr' for x in walk(h))]
            if not swallowing:
                continue
            n += 1
            loops = [x for x in walk(blk) if x.get('kind') in LOOPS]
            key = '%s|try@%s' % (f.get('name'), t.get('_line'))
            coords = {(canon(call_args(c)[0]), canon(call_args(c)[1])) for c in px if len(call_args(c)) >= 2}
            ctx.check(not loops and len(coords) == 1, R, key, t, 'the swallowed exception guards the accesses of a single pixel',
                      'in %s the try block whose handler swallows the out-of-canvas exception contains %s: the first clipped pixel abandons the rest of the block, so pixels that are inside the canvas are not drawn' % (f.get('name'), ('a loop over %d pixel access(es)' % len(px)) if loops else ('accesses to %d different pixels' % len(coords))))
    if n == 0:
        ctx.ok(R, 'no-swallowing-try', 'Image.cc', 'no try block swallows a pixel-access exception', nontrivial=False)



def check_default_extent_by_evaluation(ctx, u, methods):
    """C07-R10: the statements a blit variant runs before clamp_blit_dimensions (the "negative extent means the
    whole source" default) followed by the clamp, folded on a grid that includes negative extents and negative
    source origins: the area left must be the per-pixel model's (extent < 0 -> the source's full extent)."""
    from peval import PEval, Ptr, Thrown, Undecided, Fault
    R = 'C07-R10'
    PE = PEval([u])
    Undec_ = PE.new_object('phosg::Image')   # stand-in for parameters the default must not read
    cl = [f for f in u.functions if f.get('name') == 'clamp_blit_dimensions' and body_of(f) is not None]
    ctx.need(len(cl) == 1, 'clamp_blit_dimensions not found')
    n_fn = 0
    for f in methods:
        body = body_of(f)
        if body is None:
            continue
        top = stmts_of(body)
        idx = next((i for i, s_ in enumerate(top) if strip(s_).get('kind') == 'CallExpr' and call_name(strip(s_)) == 'clamp_blit_dimensions'), None)
        if idx is None:
            continue
        clamp = strip(top[idx])
        ca = call_args(clamp)
        ps = params_of(f)
        names = [p_.get('name') for p_ in ps]
        key = '%s@%s' % (f.get('name'), (f.get('loc') or {}).get('line', (f.get('range', {}).get('begin') or {}).get('line', '?')))
        ids = []
        for a in ca[2:]:
            a0 = strip(a)
            rd = ref_decl(a0['inner'][0]) if a0.get('kind') == 'UnaryOperator' and a0.get('opcode') == '&' else None
            ids.append(rd['id'] if rd else None)
        if len(ca) != 8 or None in ids or canon(ca[0]) not in ('*this', 'this') or not all(k_ in names for k_ in ('source', 'x', 'y', 'w', 'h', 'sx', 'sy')):
            ctx.undecided(R, key + '|default-extent', f, 'the clamp call is not clamp_blit_dimensions(*this, source, &x, &y, &w, &h, &sx, &sy) on the parameters')
            continue
        if [p_['id'] for p_ in ps if p_.get('name') in ('x', 'y', 'w', 'h', 'sx', 'sy')] != ids:
            ctx.undecided(R, key + '|default-extent', f, 'the clamp call does not take the six parameters in order')
            continue
        n_fn += 1
        bad = und = None
        n = 0
        for vertical in (False, True):
            for D in (1, 3):
                for S in (1, 3):
                    for x in (-2, 0, 1):
                        for sx in (-2, -1, 0, 1, 2):
                            for w in (-1, -5, 2):
                                if bad or und:
                                    continue
                                dest, src = PE.new_object('phosg::Image'), PE.new_object('phosg::Image')
                                if dest is None or src is None:
                                    und = 'Image object model'
                                    continue
                                dest.f.update({'width': 2 if vertical else D, 'height': D if vertical else 2})
                                src.f.update({'width': 2 if vertical else S, 'height': S if vertical else 2})
                                # the other axis: negative extent too, origin 0 -> the model copies its 2 pixels
                                v = {'x': 0 if vertical else x, 'y': x if vertical else 0, 'w': -1 if vertical else w, 'h': w if vertical else -1,
                                     'sx': 0 if vertical else sx, 'sy': sx if vertical else 0, 'source': src}
                                try:
                                    vals = [v.get(nm, 0 if 'int' in (qtype(p_) or '') or 'size_t' in (qtype(p_) or '') else None) for nm, p_ in zip(names, ps)]
                                    if any(val is None for val in vals):
                                        # a non-integer extra parameter (a mask image, a callback): the prologue must not depend on it
                                        vals = [Undec_ if val is None else val for val in vals]
                                    frame = PE.bind(ps, vals, {}, 0, True)
                                    frame['__this__'] = dest
                                    PE.run(top[:idx], frame, 0)
                                    PE.call_with(cl[0], [dest, src] + [Ptr(frame, i_, 'long') for i_ in ids])
                                    g = {k_: PE.lookup(frame, i_) for k_, i_ in zip(('x', 'y', 'w', 'h', 'sx', 'sy'), ids)}
                                except Thrown as e_:
                                    bad = 'throws %s' % e_.etype
                                    continue
                                except Fault as e_:
                                    bad = 'faults (%s)' % e_
                                    continue
                                except (Undecided, KeyError) as e_:
                                    und = str(e_)
                                    continue
                                if not all(isinstance(t_, int) for t_ in g.values()):
                                    und = 'non-constant result'
                                    continue
                                n += 1
                                a_, e_, so_ = ('y', 'h', 'sy') if vertical else ('x', 'w', 'sx')
                                oa_, oe_, oso_ = ('x', 'w', 'sx') if vertical else ('y', 'h', 'sy')
                                got = {(g[a_] + i, g[so_] + i) for i in range(max(g[e_], 0))} if g[oe_] > 0 else set()
                                got_o = {(g[oa_] + i, g[oso_] + i) for i in range(max(g[oe_], 0))}
                                ext = S if w < 0 else w
                                want = {(x + i, sx + i) for i in range(ext) if 0 <= x + i < D and 0 <= sx + i < S}
                                if (got and got_o != {(0, 0), (1, 1)}) or got != want:
                                    bad = '%s axis, dest size %d, source size %d, origin %d, extent %d%s, source origin %d: after the default and the clamp the copy covers %s (other axis %s); the per-pixel model gives %s' % (
                                        'vertical' if vertical else 'horizontal', D, S, x, w, ' (negative: whole source)' if w < 0 else '', sx, sorted(got), sorted(got_o), sorted(want))
        if und:
            ctx.undecided(R, key + '|default-extent', f, 'the statements before the clamp could not be folded (%s)' % und)
        elif bad:
            ctx.bad(R, key + '|default-extent', top[0] if idx else clamp, bad)
        else:
            ctx.ok(R, key + '|default-extent', f, 'default extent + clamp folded on %d (axis, sizes, origin, extent incl. negative, source origin incl. negative) combinations: the area is the per-pixel model\'s' % n)
    ctx.need(n_fn >= 8, 'fewer than 8 blit variants with a clamp prologue found (%d)' % n_fn)

def run(ctx):
    ctx.rule('C07-R1', 'raw pixel-buffer access (data.raw / data.asN) occurs only in the owner functions; every drawing / blit / transform function reaches pixels through read_pixel/write_pixel', 8)
    ctx.rule('C07-R2', 'in read_pixel/write_pixel every subscript is dominated by the four-way coordinate test, is (y*width+x)*(alpha?4:3)+k with k=3 only under has_alpha, and uses the asN matching channel_width', 34)
    ctx.rule('C07-R3', 'std::out_of_range cannot escape fill/blit/mask/blend/custom blits, lines, text and the whole-image transforms (exception-escape analysis; clamp-contract, loop-bound and covering-guard premises re-checked per call site)', 27)
    ctx.rule('C07-R4', 'clamp_blit_dimensions: x/y symmetric, each trim adjusts origin / other origin / extent with the right signs, origins before extents, signed comparisons, negative extent collapses; fill_rect clips symmetrically', 10)
    ctx.rule('C07-R5', 'buffer/format consistency: a function that changes width/height/has_alpha/channel_width unconditionally commits a new buffer; every allocation has the invariant size for the format committed', 10)
    ctx.rule('C07-R6', 'lane maps: expand/compress_color inverse byte layouts; widen-then-narrow of every channel-width pair is the identity (E-BITS); abs resolves to the 64-bit overload; glyph indices stay inside the font table', 18)
    ctx.rule('C07-R8', 'clamp_blit_dimensions by evaluation (E-TABLE): folded on a grid of canvas sizes (0, 1, 3), origins and source origins (-3..4) and extents (-1..6) on each axis, the area it leaves is exactly the set of (dest, source) pixel pairs inside both canvases', 1)
    ctx.rule('C07-R9', 'culling: an early-out that compares a drawing position with a canvas edge covers the whole extent of the drawing calls it skips (clipping invariance of text cells and their background box)', 1)
    ctx.rule('C07-R7', 'clipping by catch is per pixel: a try block whose handler swallows the exception of an out-of-canvas pixel access contains one pixel access and no loop, so one clipped pixel never skips the pixels after it', 1)
    ctx.rule('C07-R10', 'default extent by evaluation (E-TABLE): in every blit variant the statements before clamp_blit_dimensions (negative w / h means the whole source) plus the clamp, folded on a grid with negative extents and negative source origins, leave exactly the per-pixel model\'s area', 8)
    u = ctx.unit(repo_unit('Image.cc'))
    methods = image_methods(u)
    ctx.require(len(methods) >= 60, 'Image methods not found (%d)' % len(methods))
    check_confinement(ctx, u, methods)
    check_pixel_guard(ctx, u, methods)
    check_no_escape(ctx, u, methods)
    with ctx.section('C07-R10', 'C07'):
        check_default_extent_by_evaluation(ctx, u, methods)
    r8 = [False]
    with ctx.section('C07-R8', 'C07'):
        r8[0] = check_clamp_by_evaluation(ctx, u)
    if r8[0]:
        ctx.defer({'C07-R4'}, 'C07-R8', only=lambda k_: not k_.startswith(('fill_rect', 'get_data_size')))
    with ctx.section('C07-R4', 'C07'):
        check_clamp(ctx, u, methods)
    check_buffer_format(ctx, u, methods)
    with ctx.section('C07-R7', 'C07'):
        check_swallow_granularity(ctx, u, methods)
    with ctx.section('C07-R9', 'C07'):
        check_culling_guards(ctx, u, methods)
    with ctx.section('C07-R6', 'C07'):
        check_lane_maps(ctx, u, methods)
    ctx.note('resize_blit performs no clipping by design and is not in the property\'s list. Not decided: equality with the per-pixel model, clipping invariance, line geometry, blend arithmetic.')
