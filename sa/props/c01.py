"""C01 - typed binary writer/reader round trip with exact big/little-endian layout
(decided part: the accessor algebra, 24/48-bit lane maps, advance widths, bit packers)."""
import re

from ast_ import *
from path import *
from bits import *
from guard import split_const, strip_casts

ACC = re.compile(r'^(p?)(get|put)_([usf])(8|16|32|64)([blr]?)$')
NATIVE = {('u', 8): 'unsigned char', ('s', 8): 'signed char', ('u', 16): 'unsigned short', ('s', 16): 'short', ('u', 32): 'unsigned int', ('s', 32): 'int',
          ('u', 64): 'unsigned long', ('s', 64): 'long', ('f', 32): 'float', ('f', 64): 'double'}
ORDER_TMPL = {'b': 'big_endian', 'l': 'little_endian', 'r': 'reverse_endian'}


def targs(f):
    return [c['type']['qualType'] for c in kids(f) if c.get('kind') == 'TemplateArgument' and 'type' in c]


def classify_wrapper(t):
    """(order, value type, size) of an accessor's wrapper type argument."""
    t = t.replace('phosg::', '').strip()
    m = re.match(r'^(big_endian|little_endian|reverse_endian|same_endian)<([^,<>]+)(?:,\s*([^<>]+))?>$', t)
    if m:
        return m.group(1), m.group(2).strip(), sizeof_type(m.group(2).strip())
    return 'native', t, sizeof_type(t)


def methods_of(u, cls):
    out = {}
    for f in u.functions:
        q = u.qualname(f)
        if strip_targs(q).startswith(cls + '::') and not is_dependent_pattern(f, u) and not targs(f):
            out.setdefault(f.get('name'), f)
    return out


def check_accessor_table(ctx, u):
    R = 'C01-R1'
    tables = {}
    for cls in ('phosg::StringReader', 'phosg::StringWriter', 'phosg::BufferWriter'):
        ms = methods_of(u, cls)
        table = {}
        for nm, f in sorted(ms.items()):
            m = ACC.match(nm)
            if not m:
                continue
            pos, verb, kind_, bits, order = m.group(1), m.group(2), m.group(3), int(m.group(4)), m.group(5)
            key = '%s::%s' % (cls.split('::')[-1], nm)
            ctx.fn(key)
            body = body_of(f)
            allc = [c for c in walk(body) if c.get('kind') == 'CXXMemberCallExpr']
            want_callee = pos + verb
            calls = [c for c in allc if call_name(c) == want_callee]
            # the only other member call allowed is the wrapper's conversion to its exposed type applied to the result
            others = [c for c in allc if c not in calls and not ((callee_decl(c, u) or {}).get('kind') == 'CXXConversionDecl' and calls and strip(member_call_object(c)) is calls[0])]
            if len(calls) != 1 or others or not is_this(member_call_object(calls[0])):
                ctx.bad(R, key + '|forwards', f, 'accessor does not forward to this->%s<W>(...) exactly once' % want_callee)
                continue
            d = callee_decl(calls[0], u)
            ta = targs(d)
            if len(ta) != 1:
                ctx.bad(R, key + '|forwards', f, 'cannot read the wrapper type argument of %s' % want_callee)
                continue
            w_order, w_val, w_size = classify_wrapper(ta[0])
            table[nm] = (w_order, w_val, w_size)
            problems = []
            if w_size != bits // 8:
                problems.append('moves %s bytes (%s) but the name says %d bits' % (w_size, ta[0], bits))
            want_order = ORDER_TMPL.get(order, 'native')
            if bits == 8 and order == '':
                want_order = 'native'
            if w_order != want_order:
                problems.append('wrapper %s has byte order `%s`, the suffix `%s` requires `%s`' % (ta[0], w_order, order or '(none)', want_order))
            is_float = w_val in ('float', 'double')
            if is_float != (kind_ == 'f'):
                problems.append('wrapper value type %s does not match the `%s` accessor kind' % (w_val, kind_))
            # declared native type
            native = NATIVE[(kind_, bits)]
            if verb == 'get':
                rt = f.get('type', {}).get('desugaredQualType') or f.get('type', {}).get('qualType') or ''
                rt0 = (f.get('type', {}).get('qualType') or '').split('(')[0].strip()
                alias = {'uint8_t': 'unsigned char', 'int8_t': 'signed char', 'uint16_t': 'unsigned short', 'int16_t': 'short', 'uint32_t': 'unsigned int', 'int32_t': 'int',
                         'uint64_t': 'unsigned long', 'int64_t': 'long'}
                if alias.get(rt0, rt0) != native:
                    problems.append('returns %s, expected the native %s' % (rt0, native))
            else:
                pt = dtype(params_of(f)[-1])
                if pt != native:
                    problems.append('takes %s, expected the native %s' % (pt, native))
            # argument pass-through in order
            formal_ids = [p['id'] for p in params_of(f)]
            actual_ids = [(ref_decl(_through_conversion(a)) or {}).get('id') for a in call_args(calls[0]) if a.get('kind') != 'CXXDefaultArgExpr']
            if actual_ids != formal_ids:
                problems.append('arguments are not forwarded unchanged and in order')
            ctx.check(not problems, R, key, f, '%s -> %s<%s>' % (nm, want_callee, ta[0]), '; '.join(problems))
        tables[cls] = table
    return tables


def _through_conversion(a):
    """the argument of an implicit converting construction (uint16_t -> be_uint16_t), else a itself"""
    x = strip(a)
    while x is not None and x.get('kind') in ('CXXConstructExpr', 'CXXFunctionalCastExpr') and len(kids(x)) == 1:
        x = strip(kids(x)[0])
    return x


def check_symmetry(ctx, u, tables):
    R = 'C01-R2'
    rd, sw, bw = tables['phosg::StringReader'], tables['phosg::StringWriter'], tables['phosg::BufferWriter']
    for nm, w in sorted(sw.items()):
        if nm.startswith('put_'):
            g = 'get_' + nm[4:]
        elif nm.startswith('pput_'):
            g = 'pget_' + nm[5:]
        else:
            continue
        if g not in rd:
            # the reader has no native-order multi-byte or r-suffixed getters: nothing to pair with
            ctx.ok(R, 'StringWriter::%s|no-reader-counterpart' % nm, 'Strings.hh', 'reader has no %s' % g, nontrivial=False)
            continue
        a, b = w, rd[g]
        same = a[0] == b[0] and a[2] == b[2] and (a[1] in ('float', 'double')) == (b[1] in ('float', 'double'))
        ctx.check(same, R, 'StringWriter::%s<->StringReader::%s' % (nm, g), 'Strings.hh', 'writer and reader use the same wrapper (%s, %d bytes)' % (a[0], a[2]),
                  'writer encodes with %s/%s bytes but the matching reader decodes with %s/%s bytes' % (a[0], a[2], b[0], b[2]))
    for nm in sorted(set(sw) | set(bw)):
        ctx.check(sw.get(nm) == bw.get(nm), R, 'StringWriter::%s==BufferWriter::%s' % (nm, nm), 'Strings.hh', 'identical wrapper in both writers',
                  'StringWriter::%s uses %s, BufferWriter::%s uses %s' % (nm, sw.get(nm), nm, bw.get(nm)))


def check_widths(ctx, u):
    R = 'C01-R3'
    # get<T>/pget<T>: default extent is sizeof(T); the advance equals the checked extent
    for fn in ('get', 'pget'):
        fs = [f for f in u.funcs('phosg::StringReader::' + fn) if targs(f)]
        ctx.require(len(fs) >= 10, 'StringReader::%s<T> instantiations missing' % fn)
        seen = set()
        for f in fs:
            t = targs(f)[0]
            if t in seen:
                continue
            seen.add(t)
            key = 'StringReader::%s<%s>' % (fn, t)
            ctx.fn(key)
            sz = sizeof_type(t)
            size_p = [p for p in params_of(f) if p.get('name') == 'size']
            if not size_p:
                ctx.bad(R, key + '|default-extent', f, 'no `size` parameter')
                continue
            dflt = None
            for x in walk(size_p[0]):
                if x.get('kind') == 'UnaryExprOrTypeTraitExpr':
                    dflt = int_value(x)
            if dflt is None:
                # uninstantiated default argument: read it from the pattern's argType
                pat = [g for g in u.all_functions if g.get('name') == fn and not targs(g) and strip_targs(u.qualname(g)) == 'phosg::StringReader::' + fn]
                names = {x.get('argType', {}).get('qualType') for g in pat for p in params_of(g) if p.get('name') == 'size' for x in walk(p) if x.get('kind') == 'UnaryExprOrTypeTraitExpr'}
                ok = names == {'T'}
                ctx.check(ok and sz is not None, R, key + '|default-extent', size_p[0], 'default extent is sizeof(T) = %s' % sz, 'default extent of %s<T> is not sizeof(T) (%s)' % (fn, names))
            else:
                ctx.check(dflt == sz, R, key + '|default-extent', size_p[0], 'default extent sizeof(T) = %s' % sz, 'default extent is %s, sizeof(T) is %s' % (dflt, sz))
            if fn == 'get':
                # offset += size where size is the extent handed to pget<T>
                adv = [x for x in walk(body_of(f)) if x.get('kind') == 'CompoundAssignOperator' and x.get('opcode') == '+=' and canon(x['inner'][0]) == 'this.offset']
                calls = [c for c in walk(body_of(f)) if c.get('kind') == 'CXXMemberCallExpr' and call_name(c) == 'pget']
                ok = len(adv) == 1 and len(calls) == 1 and len(call_args(calls[0])) == 2 and canon(adv[0]['inner'][1]) == canon(call_args(calls[0])[1]) and canon(call_args(calls[0])[0]) == 'this.offset'
                ctx.check(ok, R, key + '|advance=extent', f, 'cursor advances by the extent that was read at the cursor', 'cursor advance differs from the extent read: advance %s, read %s' % ([canon(a['inner'][1]) for a in adv], [canon(c) for c in calls]))
                facts = [a for a in adv for n, pol in atoms(path_facts(a)) if (ref_decl(n) or {}).get('name') == 'advance' and pol]
                ctx.check(len(facts) == len(adv) and adv, R, key + '|advance-flag', f, 'advance happens iff `advance`', 'cursor advance is not controlled by the `advance` argument')
    # put<T>: appends sizeof(v) bytes of &v
    for cls, how in (('phosg::StringWriter', 'append'), ('phosg::BufferWriter', 'write'), ('phosg::BlockStringWriter', 'write')):
        fs = [f for f in u.funcs(cls + '::put') if targs(f)]
        seen = set()
        for f in fs:
            t = targs(f)[0]
            if t in seen:
                continue
            seen.add(t)
            key = '%s::put<%s>' % (cls.split('::')[-1], t)
            ctx.fn(key)
            calls = [c for c in walk(body_of(f)) if c.get('kind') == 'CXXMemberCallExpr' and call_name(c) == how]
            ok = False
            why = 'no single %s(&v, sizeof(v)) call' % how
            if len(calls) == 1:
                a = call_args(calls[0])
                v = params_of(f)[0]
                addr = [x for x in walk(a[0]) if x.get('kind') == 'UnaryOperator' and x.get('opcode') == '&' and (ref_decl(x['inner'][0]) or {}).get('id') == v['id']]
                n = int_value(a[1])
                ok = bool(addr) and n == sizeof_type(t)
                why = 'appends %s bytes of %s; sizeof(T) = %s' % (n, canon(a[0]), sizeof_type(t))
            ctx.check(ok, R, key + '|append-width', f, 'appends exactly sizeof(T) = %s bytes of the value' % sizeof_type(t), why)
    # BufferWriter::write advances by what it stored
    f = u.func('phosg::BufferWriter::write')
    for g in f:
        if len(params_of(g)) == 2:
            adv = [x for x in walk(body_of(g)) if x.get('kind') == 'CompoundAssignOperator' and x.get('opcode') == '+=' and canon(x['inner'][0]) == 'this.offset']
            calls = [c for c in walk(body_of(g)) if c.get('kind') == 'CXXMemberCallExpr' and call_name(c) == 'pwrite']
            ok = len(adv) == 1 and len(calls) == 1 and canon(adv[0]['inner'][1]) == canon(call_args(calls[0])[2]) and canon(call_args(calls[0])[0]) == 'this.offset'
            ctx.check(ok, R, 'BufferWriter::write|advance=stored', g, 'offset advances by the size stored at offset', 'BufferWriter::write does not advance by the stored size')


def _conj_atoms(c, pol):
    c = strip_casts(c)
    if c is None:
        return []
    k = c.get('kind')
    if k == 'BinaryOperator' and ((c.get('opcode') == '&&' and pol) or (c.get('opcode') == '||' and not pol)):
        return _conj_atoms(c['inner'][0], pol) + _conj_atoms(c['inner'][1], pol)
    if k == 'UnaryOperator' and c.get('opcode') == '!':
        return _conj_atoms(c['inner'][0], not pol)
    if k == 'ExprWithCleanups' and kids(c):
        return _conj_atoms(kids(c)[0], pol)
    return [(c, pol)]


def _nonzero_subject(n, pol):
    """canonical X when (n, pol) says `X != 0`, else None"""
    n = strip_casts(n)
    if n is None:
        return None
    if n.get('kind') == 'BinaryOperator' and n.get('opcode') in ('!=', '>', '==') and len(n['inner']) == 2:
        a, b = n['inner']
        op = n['opcode']
        if int_value(b) == 0 and ((op in ('!=', '>') and pol) or (op == '==' and not pol)):
            return canon(a)
        if int_value(a) == 0 and ((op == '!=' and pol) or (op == '==' and not pol)):
            return canon(b)
        return None
    if n.get('kind') == 'CXXMemberCallExpr' and call_name(n) == 'empty' and not pol:
        return canon(member_call_object(n)) + '.size()'
    if pol and n.get('kind') in ('CXXMemberCallExpr', 'DeclRefExpr', 'MemberExpr'):
        return canon(n)
    return None


def check_writer_sequencing(ctx, u):
    """a sequential (non-positional) BufferWriter writer either delegates to another sequential writer or
    stores at the cursor and then advances the cursor by the number of bytes stored"""
    R = 'C01-R8'
    seen = set()
    for f in u.functions:
        q = strip_targs(u.qualname(f))
        if not q.startswith('phosg::BufferWriter::') or body_of(f) is None or is_dependent_pattern(f, u):
            continue
        nm = f.get('name') or ''
        if nm not in ('write', 'put'):
            continue
        key = '%s(%s)' % (nm, ','.join(strip_targs(qtype(p) or '') for p in params_of(f)))
        if key in seen:
            continue
        seen.add(key)
        ctx.fn(q)
        body = body_of(f)
        calls = [c for c in walk(body) if c.get('kind') in ('CXXMemberCallExpr', 'CallExpr', 'CXXDependentScopeMemberExpr') and (call_name(c) or '') in ('write', 'put', 'pwrite', 'pput')]
        # in a dependent pattern the callee is unresolved: read the member name off the callee expression
        if not calls:
            calls = [c for c in walk(body) if c.get('kind') == 'CallExpr' and any(m.get('kind') in ('CXXDependentScopeMemberExpr', 'UnresolvedMemberExpr', 'MemberExpr') and (m.get('member') or m.get('name') or '') in ('write', 'put', 'pwrite', 'pput') for m in walk(kids(c)[0]))]
        def cname(c):
            n_ = call_name(c)
            if n_:
                return n_
            for m in walk(kids(c)[0]):
                if m.get('kind') in ('CXXDependentScopeMemberExpr', 'UnresolvedMemberExpr', 'MemberExpr'):
                    return m.get('member') or m.get('name')
            return None
        seq = [c for c in calls if cname(c) in ('write', 'put')]
        pos = [c for c in calls if cname(c) in ('pwrite', 'pput')]
        adv = [x for x in walk(body) if x.get('kind') == 'CompoundAssignOperator' and x.get('opcode') == '+=' and canon(x['inner'][0]) == 'this.offset']
        if seq and not pos and not adv:
            ctx.ok(R, key, f, 'delegates to the sequential %s' % cname(seq[0]))
        elif len(pos) == 1 and not seq:
            a = call_args(pos[0])
            at_cursor = bool(a) and canon(a[0]) == 'this.offset'
            if not at_cursor:
                ctx.undecided(R, key, f, 'the store is not at this->offset')
            elif not adv:
                ctx.bad(R, key, f, '%s stores at the cursor through %s but never advances the cursor: the next sequential write overwrites these bytes' % (key, cname(pos[0])))
            else:
                # amount: the size argument of the store, or the size of the string / object stored
                amt = nf(adv[0]['inner'][1])
                sizes = {nf(x) for x in a[1:]} | {'%s.size()' % nf(x) for x in a[1:]} | {'sizeof(%s)' % nf(x) for x in a[1:]}
                later = all(x.get('_off', 0) > pos[0].get('_off', 0) for x in adv)
                uncond = all(enclosing(x, ('IfStmt',) + LOOPS) is None for x in adv)
                if len(adv) == 1 and later and uncond and amt in sizes:
                    ctx.ok(R, key, f, 'stores at the cursor, then advances it by %s' % amt)
                elif len(adv) == 1 and later and uncond:
                    ctx.bad(R, key, f, '%s stores %s at the cursor but advances it by %s' % (key, sorted(nf(x) for x in a[1:]), amt))
                else:
                    ctx.undecided(R, key, f, 'cursor update is conditional or precedes the store')
        else:
            ctx.undecided(R, key, f, 'neither a delegation to a sequential writer nor store-then-advance')


def _assigned_cursor_delta(f, u, assigns, adv_param):
    """n when the single cursor assignment of f is `this->offset = <cursor before> + n * advance` (as polynomials,
    named locals expanded), else None"""
    from poly import Poly, p_add, p_atom
    if len(assigns) != 1 or assigns[0].get('kind') != 'BinaryOperator':
        return None
    PL = Poly(f, u)
    d = p_add(PL.poly(assigns[0]['inner'][1]), p_atom('this.offset'), -1)
    if list(d) == [(adv_param.get('name'),)] and enclosing(assigns[0], ('IfStmt',) + LOOPS) is None:
        # nothing else may have moved the cursor before (the local holding the old position is its value at entry)
        return d[(adv_param.get('name'),)]
    return None


def check_advance_discipline(ctx, u):
    """every sequential accessor with an `advance` flag moves the cursor by the encoded width on
    every path where the flag is set - no other condition decides whether the cursor moves."""
    R = 'C01-R7'
    from guard import subst_locals
    seen = set()
    for cls in ('phosg::StringReader', 'phosg::BitReader'):
        for f in u.functions:
            q = strip_targs(u.qualname(f))
            if not q.startswith(cls + '::') or is_dependent_pattern(f, u) or body_of(f) is None:
                continue
            adv_p = [p for p in params_of(f) if p.get('name') == 'advance' and 'bool' in (qtype(p) or '')]
            if not adv_p:
                continue
            key = '%s(%s)' % (q.split('::', 1)[1], ','.join(strip_targs(dtype(p) or '') for p in params_of(f)))
            if key in seen:
                continue
            seen.add(key)
            ctx.fn(q)
            body = body_of(f)
            writes = [x for x in walk(body) if x.get('kind') == 'CompoundAssignOperator' and x.get('opcode') == '+=' and canon(x['inner'][0]) == 'this.offset']
            fwd = [c for c in walk(body) if c.get('kind') == 'CXXMemberCallExpr' and any((ref_decl(a) or {}).get('id') == adv_p[0]['id'] for a in call_args(c))]
            if not writes:
                if fwd:
                    ctx.ok(R, key + '|forwards', f, 'forwards `advance` to %s' % call_name(fwd[0]), nontrivial=False)
                else:
                    incs = [x for x in walk(body) if x.get('kind') in ('UnaryOperator', 'BinaryOperator') and x.get('opcode') in ('++', '=') and kids(x) and canon(x['inner'][0]) == 'this.offset']
                    delta = _assigned_cursor_delta(f, u, incs, adv_p[0])
                    if delta is not None:
                        # offset = <old offset> + (advance ? n : 0): the polynomial n * advance
                        ctx.ok(R, key + '|advance#0', incs[0], 'cursor set to the old position plus %d iff `advance`' % delta)
                    elif incs:
                        ctx.undecided(R, key + '|advance', f, 'cursor is updated with a form other than `offset += n`')
                    else:
                        ctx.bad(R, key + '|advance', f, '%s takes `advance` but never moves the cursor' % key)
                continue
            for i, w in enumerate(writes):
                amount = subst_locals(canon(w['inner'][1]), w)
                extra = []
                has_flag = False
                n = w
                while n is not None and n is not body:
                    par = n.get('_p')
                    if par is not None and par.get('kind') == 'IfStmt':
                        c, t, e = if_parts(par)
                        if n is t or n is e:
                            for a, pol in _conj_atoms(c, n is t):
                                if (ref_decl(a) or {}).get('id') == adv_p[0]['id'] and pol:
                                    has_flag = True
                                    continue
                                sub = _nonzero_subject(a, pol)
                                if sub is not None and subst_locals(sub, w) == amount:
                                    continue      # skipping an advance of zero changes nothing
                                extra.append('%s%s' % ('' if pol else '!', src_text(a, 60)))
                    elif par is not None and par.get('kind') in LOOPS:
                        extra.append('inside a loop')
                    n = par
                rets_ = [canon(kids(r_)[0]) for r_ in walk(body) if r_.get('kind') == 'ReturnStmt' and kids(r_)]
                rv = rets_[0] if len(set(rets_)) == 1 else None
                nm_ = f.get('name')
                want = None
                if nm_ in ('get_cstr', 'get_line') and rv:
                    want = {'(1 + %s.size())' % rv}
                elif nm_ in ('read', 'readx') and 'string' in (qtype(f) or '').split('(')[0] and rv:
                    want = {'%s.size()' % rv} | ({'size'} if nm_ == 'readx' else set())
                elif nm_ == 'read' and cls.endswith('StringReader') and rv:
                    want = {rv}
                elif nm_ in ('readx', 'getv', 'read'):
                    want = {'size'}
                if want is not None:
                    ctx.check(amount in want or canon(w['inner'][1]) in want, R, key + '|amount#%d' % i, w, 'advance amount %s is the encoded width' % amount,
                              'the cursor advances by %s; the encoded width of what %s returns is %s' % (amount, nm_, ' or '.join(sorted(want))))
                ctx.check(has_flag and not extra, R, key + '|advance#%d' % i, w,
                          'cursor moves by %s iff `advance`' % amount,
                          ('the cursor advance by %s is additionally conditioned on %s: with the flag set the cursor does not always move by the encoded width' % (amount, ', '.join(extra))) if has_flag else 'cursor advance is not controlled by the `advance` argument')
            # an early plain return before the advance leaves the cursor where it was
            first = min(w.get('_off', 0) for w in writes)
            for r in walk(body):
                if r.get('kind') == 'ReturnStmt' and r.get('_off', 0) < first:
                    conds = []
                    n = r
                    while n is not None and n is not body:
                        par = n.get('_p')
                        if par is not None and par.get('kind') == 'IfStmt':
                            c, t, e = if_parts(par)
                            conds += _conj_atoms(c, n is t) if (n is t or n is e) else []
                        n = par
                    if not any((ref_decl(a) or {}).get('id') == adv_p[0]['id'] and not pol for a, pol in conds):
                        ctx.undecided(R, key + '|early-return@%s' % r.get('_line'), r, 'a return before the cursor update is not conditioned on !advance')


def mem_spec(order, nbytes, width, base='this.data', idx='offset'):
    out = []
    for i in range(width):
        j, b = divmod(i, 8)
        if j < nbytes:
            k = (nbytes - 1 - j) if order == 'b' else j
            out.append(('i', ('mem', base, idx, k), b))
        else:
            out.append(0)
    return out


def check_2448(ctx, u):
    R = 'C01-R4'
    # the sign-extending forms rest on ext24 / ext48 (Encoding.hh): bits >= N replicate bit N-1
    from bits import Interp as _Interp, sym_bv as _sym_bv
    I1 = _Interp(u)
    for nm_, N_ in (('ext24', 24), ('ext48', 48)):
        fe = [f_ for f_ in u.func('phosg::' + nm_) if body_of(f_) is not None]
        if len(fe) != 1:
            ctx.undecided(R, nm_ + '|sign-replication', 'Encoding.hh', '%s not found in this unit' % nm_)
            continue
        ctx.fn('phosg::' + nm_)
        pe = params_of(fe[0])[0]
        pw_, ps_ = int_type_info(dtype(pe))
        I1.notes = []
        v_ = I1.eval_function(fe[0], {pe['id']: _sym_bv('a', pw_, ps_, free_bits=N_)})
        if v_ is None:
            ctx.undecided(R, nm_ + '|sign-replication', fe[0], 'cannot derive the bit map of %s' % nm_)
            continue
        spec_ = [('i', 'a', i_) if i_ < N_ else ('i', 'a', N_ - 1) for i_ in range(v_.w)]
        bad_ = expect_lanes(v_, spec_)
        if bad_ and all(g_ == T for _, g_, _w in bad_):
            ctx.undecided(R, nm_ + '|sign-replication', fe[0], 'the bit map could not be derived for %d bit(s)' % len(bad_))
        else:
            ctx.check(not bad_ and not I1.notes, R, nm_ + '|sign-replication', fe[0], 'bits >= %d equal bit %d of the argument, low bits unchanged' % (N_, N_ - 1),
                      '%s does not replicate bit %d into bits %d..%d, so get_s%d* / pget_s%d* return v + 2^%d for negative fields: %s %s' % (nm_, N_ - 1, N_, v_.w - 1, N_, N_, N_, describe_mismatch(bad_), '; '.join(I1.notes)))
    I = BVExec(u)
    ms = methods_of(u, 'phosg::StringReader')
    for bits in (24, 48):
        nbytes = bits // 8
        for order in ('b', 'l'):
            nm = 'pget_u%d%s' % (bits, order)
            f = ms.get(nm)
            ctx.require(f is not None, 'StringReader::%s not found' % nm)
            ctx.fn('StringReader::' + nm)
            I.notes = []
            p = params_of(f)[0]
            # the field is nbytes wide: a read through a checked getter must not ask for more bytes than
            # that (a wider load throws, or reads past the end, for a field that ends the buffer)
            wide = None
            for c_ in walk(body_of(f)):
                if c_.get('kind') == 'CXXMemberCallExpr' and (call_name(c_) or '') in ('pget', 'get', 'pgetv', 'getv', 'pread', 'preadx'):
                    d_ = callee_decl(c_, u)
                    ta_ = [x_['type']['qualType'] for x_ in kids(d_) if x_.get('kind') == 'TemplateArgument' and x_.get('type')] if d_ is not None else []
                    sz_ = sizeof_type(ta_[0]) if ta_ else None
                    a_ = [x_ for x_ in call_args(c_) if x_.get('kind') != 'CXXDefaultArgExpr']
                    if call_name(c_) in ('pget', 'get') and len(a_) >= 2 and int_value(a_[1]) is not None:
                        sz_ = int_value(a_[1])
                    if call_name(c_) in ('pgetv', 'getv', 'pread', 'preadx') and len(a_) >= 2:
                        sz_ = int_value(a_[-1])
                    if sz_ is not None and sz_ > nbytes:
                        wide = (c_, sz_)
            if wide:
                ctx.bad(R, nm + '|extent', wide[0], '%s reads %d bytes through `%s` for a %d-byte field: when the field is the last thing in the buffer the accessor throws (or reads past the end) although all %d bytes are present' % (nm, wide[1], src_text(wide[0], 50), nbytes, nbytes))
            try:
                v = I.call(f, [], {}, bound={('canon', p['id']): p.get('name')})
            except Unsupported as e:
                ctx.undecided(R, nm + '|lanes', f, 'cannot derive the lane map of %s (%s)' % (nm, e))
                continue
            if not isinstance(v, BV):
                ctx.undecided(R, nm + '|lanes', f, 'cannot derive the lane map of %s' % nm)
                continue
            # the parameter is named `offset`; memory symbols are keyed by the index expression
            spec = mem_spec(order, nbytes, v.w, idx=p.get('name'))
            bad = expect_lanes(v, spec)
            if bad and all(g_ == T for _, g_, _w in bad):
                ctx.undecided(R, nm + '|lanes', f, 'the bit map could not be derived for %d bit(s) (an operation outside the bit-provenance domain): neither confirmed nor refuted' % len(bad))
            else:
                ctx.check(not bad and not I.notes, R, nm + '|lanes', f, '%d-bit %s-endian assembly: result byte j = data[offset + %s], upper bits zero' % (bits, 'big' if order == 'b' else 'little', ('%d-j' % (nbytes - 1)) if order == 'b' else 'j'),
                      'lane map is not the %s-endian value of the %d bytes at offset: %s %s' % ('big' if order == 'b' else 'little', nbytes, describe_mismatch(bad), '; '.join(I.notes)))
            # sequential form: get_uNN reads at the cursor and advances by nbytes
            g = ms.get('get_u%d%s' % (bits, order))
            ctx.require(g is not None, 'StringReader::get_u%d%s not found' % (bits, order))
            adv = [x for x in walk(body_of(g)) if x.get('kind') == 'CompoundAssignOperator' and x.get('opcode') == '+=' and canon(x['inner'][0]) == 'this.offset']
            calls = [c for c in walk(body_of(g)) if c.get('kind') == 'CXXMemberCallExpr' and call_name(c) == nm]
            from guard import subst_locals as _slg
            at_cursor = len(calls) == 1 and _slg(canon(call_args(calls[0])[0]), calls[0]) == 'this.offset'
            ok = len(adv) == 1 and int_value(adv[0]['inner'][1]) == nbytes and at_cursor
            if not adv:
                asg_ = [x for x in walk(body_of(g)) if x.get('kind') == 'BinaryOperator' and x.get('opcode') == '=' and canon(x['inner'][0]) == 'this.offset']
                ap_ = [p_ for p_ in params_of(g) if p_.get('name') == 'advance']
                if ap_ and _assigned_cursor_delta(g, u, asg_, ap_[0]) == nbytes and at_cursor:
                    ok = True
            ctx.check(ok, R, 'get_u%d%s|advance' % (bits, order), g, 'reads %s at the cursor and advances by %d' % (nm, nbytes), 'sequential form does not read %s(this->offset) and advance by %d: advance %s' % (nm, nbytes, [canon(a['inner'][1]) for a in adv]))
            rets = [x for x in walk(body_of(g)) if x.get('kind') == 'ReturnStmt']
            okr = len(rets) == 1 and calls and any(c is calls[0] for c in walk(g)) and _returns_value_of(rets[0], calls[0], u)
            ctx.check(okr, R, 'get_u%d%s|returns-read' % (bits, order), g, 'returns the value read', 'sequential form does not return the value it read')
            # signed forms: extNN applied to the unsigned getter with the arguments forwarded
            for pre in ('p', ''):
                sn = '%sget_s%d%s' % (pre, bits, order)
                un = '%sget_u%d%s' % (pre, bits, order)
                s = ms.get(sn)
                ctx.require(s is not None, 'StringReader::%s not found' % sn)
                ctx.fn('StringReader::' + sn)
                rets = [x for x in walk(body_of(s)) if x.get('kind') == 'ReturnStmt']
                good = False
                if len(rets) == 1 and kids(rets[0]):
                    e = strip(kids(rets[0])[0])
                    if e.get('kind') == 'CallExpr' and call_name(e) == 'ext%d' % bits and len(call_args(e)) == 1:
                        inner = strip(call_args(e)[0])
                        if inner.get('kind') == 'CXXMemberCallExpr' and call_name(inner) == un and is_this(member_call_object(inner)):
                            good = [(ref_decl(a) or {}).get('id') for a in call_args(inner)] == [p_['id'] for p_ in params_of(s)]
                ctx.check(good, R, sn + '|ext', s, '%s = ext%d(%s(args))' % (sn, bits, un), '%s is not ext%d applied to %s with the arguments forwarded' % (sn, bits, un))


def _returns_value_of(ret, call, u):
    e = strip(kids(ret)[0]) if kids(ret) else None
    if e is None:
        return False
    if e is call:
        return True
    rd = ref_decl(e)
    if rd:
        vd = u.by_id.get(rd.get('id'))
        return vd is not None and any(x is call for x in walk(vd))
    return False


def check_bits(ctx, u):
    R = 'C01-R5'
    I = Interp(u)
    # ---- reader: bit n of the stream is bit 7-(n&7) of byte n>>3, accumulated MSB first.
    # The whole function is executed abstractly (bit provenance; control flow is constant once
    # size and start are fixed) for a spread of sizes and start offsets: result bit j must be
    # stream bit start+size-1-j and every higher result bit must be 0.  Any loop form is accepted.
    f = u.func('phosg::BitReader::pread')[0]
    ctx.fn('BitReader::pread')
    start_p, size_p = params_of(f)[0], params_of(f)[1]
    X = BVExec(u)
    bad_bits = []
    unsupported = None
    sizes = range(1, 65) if ctx.tier == 'thorough' else (1, 2, 7, 8, 9, 15, 16, 17, 31, 32, 33, 47, 48, 56, 63, 64)
    starts = range(0, 16) if ctx.tier == 'thorough' else (0, 3, 13)
    ctx.extra['bitreader_unrolled'] = {'sizes': len(list(sizes)), 'start_offsets': len(list(starts))}
    site = f
    for S in sizes:
        for start in starts:
            X.notes = []
            try:
                v = X.call(f, [], {}, bound={start_p['id']: const_bv(start, 64), size_p['id']: const_bv(S, 8)})
            except Unsupported as e:
                unsupported = str(e)
                break
            if not isinstance(v, BV):
                unsupported = 'no value returned'
                break
            want = []
            for j in range(v.w):
                if j < S:
                    n = start + S - 1 - j
                    want.append(('i', ('mem', 'this.data', '0', n >> 3), 7 - (n & 7)))
                else:
                    want.append(0)
            bad = expect_lanes(v, want)
            if bad:
                bad_bits.append('size=%d start=%d: %s%s' % (S, start, describe_mismatch(bad, 2), ('; ' + X.notes[0]) if X.notes else ''))
        if unsupported:
            break
    if unsupported:
        ctx.undecided(R, 'BitReader::pread|msb-first', f, 'the function is outside the supported statement forms (%s)' % unsupported)
    else:
        ctx.check(not bad_bits, R, 'BitReader::pread|msb-first', f, 'for every size 1..64 sampled and three start offsets, result bit j = stream bit start+size-1-j (bit 7-(n&7) of byte n>>3), higher bits 0 (function executed over bit provenance)',
                  'a read of `size` bits does not return the MSB-first value of the stream bits: %s' % '; '.join(bad_bits[:3]))
    # BitReader::read advances by size
    g = u.func('phosg::BitReader::read')[0]
    adv = [x for x in walk(body_of(g)) if x.get('kind') == 'CompoundAssignOperator' and x.get('opcode') == '+=' and canon(x['inner'][0]) == 'this.offset']
    calls = [c for c in walk(body_of(g)) if c.get('kind') == 'CXXMemberCallExpr' and call_name(c) == 'pread']
    ok = len(adv) == 1 and len(calls) == 1 and canon(adv[0]['inner'][1]) == canon(call_args(calls[0])[1]) and canon(call_args(calls[0])[0]) == 'this.offset'
    ctx.check(ok, R, 'BitReader::read|advance', g, 'cursor advances by the number of bits read at the cursor', 'BitReader::read does not advance by the number of bits read')

    # ---- writer: write(v) is executed abstractly from every state (u = 0..7 unset bits in the last
    # byte, whose unset bits are zero): with u == 0 a new byte with bit 7 = v is appended and 7 bits
    # stay unset; otherwise bit u-1 of the last byte becomes v and u-1 bits stay unset.  This is the
    # reader's convention (n-th bit of a byte is bit 7-n).  Any control-flow shape is accepted.
    w = u.func('phosg::BitWriter::write')[0]
    ctx.fn('BitWriter::write')
    vparam = params_of(w)[0]
    vbit = BV(1, [('i', 'v', 0)])
    for uu in range(0, 8):
        last = BV(8, [0] * uu + [('i', 'last', i) for i in range(uu, 8)], False)
        env0 = {vparam['id']: vbit, ('member', 'last_byte_unset_bits'): const_bv(uu, 8), ('vec', 'this.data'): [const_bv(0x5A, 8), last]}
        X.notes = []
        try:
            envr = dict(env0)
            envr[('vec', 'this.data')] = list(env0[('vec', 'this.data')])
            X.run([body_of(w)], envr, 0)
        except Unsupported as e:
            ctx.undecided(R, 'BitWriter::write|state-%d' % uu, w, 'write() is outside the supported statement forms (%s)' % e)
            continue
        except Exception as e:   # _Ret
            if e.__class__.__name__ != '_Ret':
                raise
        vec = envr[('vec', 'this.data')]
        un = bv_const(envr[('member', 'last_byte_unset_bits')]) if isinstance(envr.get(('member', 'last_byte_unset_bits')), BV) else None
        if uu == 0:
            want_vec = [const_bv(0x5A, 8).b, last.b, [0] * 7 + [('i', 'v', 0)]]
            want_un = 7
        else:
            nb = list(last.b)
            nb[uu - 1] = ('i', 'v', 0)
            want_vec = [const_bv(0x5A, 8).b, nb]
            want_un = uu - 1
        got_vec = [x.b[:8] for x in vec]
        okw = got_vec == want_vec and un == want_un
        why = ''
        if not okw:
            why = 'from the state "%d bit(s) unset" write(v) leaves %d byte(s), %s unset; last byte bits (LSB first) %s; expected %d byte(s), %d unset, last byte %s' % (
                uu, len(vec), un, [cell_str(c) for c in got_vec[-1]] if got_vec else [], len(want_vec), want_un, [cell_str(c) for c in want_vec[-1]])
        ctx.check(okw, R, 'BitWriter::write|state-%d' % uu, w, 'write(v) with %d unset bit(s): %s' % (uu, 'appends a byte whose bit 7 is v, 7 unset' if uu == 0 else 'bit %d of the last byte becomes v, %d unset' % (uu - 1, uu - 1)), why)

    # ---- truncate keeps exactly the first size bits
    t = u.func('phosg::BitWriter::truncate')[0]
    ctx.fn('BitWriter::truncate')
    tb = body_of(t)
    # by evaluation (E-TABLE): truncate(n) folded from every state of up to 3 bytes x 0..7 unset bits, n = 0..size+1
    from peval import PEval, Str, Thrown, Undecided, Fault
    PE = PEval([u])
    ev_bad, ev_und, ev_n = None, None, 0
    for nbytes_ in range(0, 4):
        for un_ in (range(0, 8) if nbytes_ else (0,)):
            bits_ = nbytes_ * 8 - un_
            raw = bytearray([0xFF] * nbytes_)
            if nbytes_:
                raw[-1] = (0xFF << un_) & 0xFF
            for n_ in range(0, bits_ + 2):
                if ev_und:
                    break
                bw = PE.new_object('phosg::BitWriter')
                if bw is None:
                    ev_und = 'BitWriter object model'
                    break
                bw.f.update({'data': Str(bytes(raw)), 'last_byte_unset_bits': un_})
                try:
                    PE.call_with(t, [n_], this=bw)
                    out = (bytes(bw.f['data'].b), bw.f['last_byte_unset_bits'])
                except Thrown as e_:
                    out = 'throws'
                except Fault as e_:
                    out = 'faults: %s' % e_
                except Undecided as e_:
                    ev_und = str(e_)
                    break
                if n_ > bits_:
                    want = 'throws'
                else:
                    wb = bytearray([0xFF] * ((n_ + 7) // 8))
                    wu = (8 - (n_ & 7)) & 7
                    if wb:
                        wb[-1] = (0xFF << wu) & 0xFF
                    want = (bytes(wb), wu)
                ev_n += 1
                if out != want and not ev_bad:
                    ev_bad = 'truncate(%d) on %d bit(s) (%s, %d unset) gives %s; expected %s' % (n_, bits_, bytes(raw).hex() or 'empty', un_, out if isinstance(out, str) else (out[0].hex(), out[1]), want if isinstance(want, str) else (want[0].hex(), want[1]))
    if ev_bad:
        ctx.bad(R, 'BitWriter::truncate|mask', t, 'truncate does not keep exactly the first n bits: ' + ev_bad)
        return
    if not ev_und:
        ctx.ok(R, 'BitWriter::truncate|mask', t, 'truncate(n) keeps exactly the first n bits (ceil(n/8) bytes, (8-n%%8)%%8 unset bits, unset bits cleared) and refuses to extend: folded on %d (state, n) pairs' % ev_n)
        return
    ctx.note('BitWriter::truncate could not be folded (%s): structural rule used' % ev_und)
    szp = params_of(t)[0]
    sets = [x for x in walk(tb) if x.get('kind') == 'BinaryOperator' and x.get('opcode') == '=' and canon(x['inner'][0]) == 'this.last_byte_unset_bits']
    ands = [x for x in walk(tb) if x.get('kind') == 'CompoundAssignOperator' and x.get('opcode') == '&=']
    resizes = [c for c in walk(tb) if c.get('kind') == 'CXXMemberCallExpr' and call_name(c) == 'resize']
    if not (len(sets) == 1 and len(ands) == 1 and len(resizes) == 1):
        ctx.undecided(R, 'BitWriter::truncate|mask', t, 'truncate could not be folded (%s) and is not one unset-bits assignment, one &= and one resize' % ev_und)
        return
    bad_t = []
    locs = [x for x in walk(tb) if x.get('kind') == 'VarDecl' and kids(x)]
    for m in range(0, 17):
        env = {szp['id']: const_bv(m, 64)}
        for vd in locs:
            env[vd['id']] = I.cast(I.eval(kids(vd)[-1], env), dtype(vd))
        un = bv_const(I.eval(sets[0]['inner'][1], env))
        nbytes = bv_const(I.eval(call_args(resizes[0])[0], env))
        want_un = (8 - (m & 7)) & 7
        want_bytes = (m + 7) // 8
        maskv = None
        if un is not None:
            maskv = _eval_with_member(I, ands[0]['inner'][1], 'last_byte_unset_bits', un, env)
        want_mask = (0xFF << want_un) & 0xFF
        if un != want_un or nbytes != want_bytes or (want_un and (maskv is None or (maskv & 0xFF) != want_mask)):
            bad_t.append((m, un, nbytes, maskv))
    guard_ok = any(canon(n) == 'this.last_byte_unset_bits' and pol for n, pol in atoms(path_facts(ands[0]))) or \
        any((relation(n, pol) or (None, None, None))[1] in ('>', '!=') for n, pol in atoms(path_facts(ands[0])))
    ctx.check(not bad_t and guard_ok, R, 'BitWriter::truncate|mask', ands[0], 'truncate(n): ceil(n/8) bytes, (8-n%8)%8 unset bits, low unset bits of the last byte cleared (checked for n = 0..16)',
              'truncate does not keep exactly the first n bits: (n, unset, bytes, mask) mismatches %s; mask guarded by unset!=0: %s' % (bad_t[:4], guard_ok))


def _subst_member(n, name):
    return n


def _eval_with_member(I, expr, member, value, env=None):
    """Evaluate expr with this-><member> bound to a constant (member reads are
    replaced by the constant through a temporary environment keyed by canon)."""
    env = dict(env or {})
    saved = I.eval

    def patched(n, e, depth=0):
        n0 = strip(n, casts=False)
        if n0.get('kind') == 'MemberExpr' and n0.get('name') == member and (not n0.get('inner') or is_this(n0['inner'][0])):
            info = int_type_info(dtype(n0)) or (8, False)
            return const_bv(value & ((1 << info[0]) - 1), info[0], info[1])
        return saved(n, e, depth)
    I.eval = patched
    try:
        v = I.eval(expr, env)
    finally:
        I.eval = saved
    return bv_const(v)


def run(ctx):
    ctx.rule('C01-R1', 'accessor table: every {p}{get,put}_{u,s,f}{8..64}{b,l,r} forwards to get/pget/put/pput<W> with sizeof(W)=bits/8, byte order of W = suffix, float-ness and native type matching, arguments forwarded in order', 170)
    ctx.rule('C01-R2', 'each writer accessor and the reader accessor of the same name use the same wrapper; StringWriter and BufferWriter tables are identical', 100)
    ctx.rule('C01-R3', 'widths: default extent of get/pget<T> is sizeof(T); sequential reads advance by the extent read iff `advance`; put<T> appends exactly sizeof(T) bytes of the value', 60)
    ctx.rule('C01-R4', '24/48-bit accessors: lane maps equal the big/little-endian value of the 3/6 bytes at offset (E-BITS); sequential forms advance by 3/6; signed forms are ext24/ext48 of the unsigned ones', 20)
    ctx.rule('C01-R5', 'bit packers agree on MSB-first: reader selects bit 7-(n&7) of byte n>>3; writer sets bit u-1 with u unset bits, fresh byte 0x80/7; truncate keeps exactly n bits', 7)
    ctx.rule('C01-R6', 'positional writes (StringWriter::pput<T>) grow the string to cover the write, fill the gap with zero bytes, and copy sizeof(T) bytes at offset', 30)
    ctx.rule('C01-R7', 'every sequential accessor taking `advance` (get<T>, getv, get_u24/48, read, readx, get_line, get_cstr, BitReader::read) moves the cursor by the encoded width whenever the flag is set: the update is conditioned on the flag alone (a zero-amount skip is equivalent); the amount is the encoded width', 40)
    ctx.rule('C01-R8', 'BufferWriter sequential writers (write, put<T>) delegate to another sequential writer or store at the cursor and then advance it, unconditionally, by the number of bytes stored', 3)
    u = ctx.unit(repo_unit('Strings.cc'))
    tables = check_accessor_table(ctx, u)
    check_symmetry(ctx, u, tables)
    check_widths(ctx, u)
    check_2448(ctx, u)
    check_bits(ctx, u)
    check_advance_discipline(ctx, u)
    with ctx.section('C01-R8', 'C01'):
        check_writer_sequencing(ctx, u)
    from props.c02 import check_pput
    check_pput(ctx, u, 'C01-R6')
    ctx.note('Byte-order correctness of the wrappers themselves is C03; bounds are C02. Not decided here: equality of whole value sequences under arbitrary interleavings of appends and positional writes.')
