"""C13 - KDTree (decided part: descent predicate agreement, ordering obligations of
node deletion, full frontier scan of the min search, null-root consistency, sibling
identity of within / exists(range), count and delete pairing).  Multiset equivalence
over all histories is not decided."""
import os

import re
from ast_ import *
from path import *


def run(ctx):
    ctx.rule('C13-R1', 'descent: link_node, at and erase go to `before` iff coordinate < node coordinate (strict) along the node\'s dimension; range searches visit before iff low <(=) node and after_or_equal iff high >(=) node; box test is half-open', 14)
    ctx.rule('C13-R2', 'delete_node takes its replacement as the minimum of after_or_equal along the node\'s dimension (a lone before subtree is re-homed first); the min/max search scans its whole frontier with the documented pruning', 12)
    ctx.rule('C13-R3', 'every traversal seeded with root tests it for null first (destructor, within, exists, at, erase, link_node)', 10)
    ctx.rule('C13-R4', 'within and exists(low, high) are the same traversal modulo the action on a hit and the empty-tree result', 4)
    ctx.rule('C13-R5', 'pairing: node_count++ with each link, node_count-- and delete once per deletion; destructor frees each dequeued node after enqueueing both children; unlink clears whichever parent slot holds the node; erase only gives up after the whole descent', 14)
    ctx.rule('C13-R6', 'all members instantiate for 2-D and 3-D integer points', 1)
    ok, diag = try_compile(os.path.join(VERIF, 'witness', 'c13.cc'))
    errs = [l for l in diag.split('\n') if 'error:' in l]
    ctx.check(ok, 'C13-R6', 'c13.cc', 'c13.cc', 'explicit instantiation compiles', 'a KDTree member does not compile when instantiated: %s' % ' | '.join(errs[:3]))
    if not ok:
        for rid in list(ctx.rules):
            d, m = ctx.rules[rid]
            ctx.rules[rid] = (d, 0 if rid != 'C13-R6' else m)
        return
    u = ctx.unit(witness_unit('c13.cc'))
    classes = {}
    for f in u.functions:
        q = u.qualname(f)
        if q.startswith('phosg::KDTree<') and not is_dependent_pattern(f, u) and '::Iterator::' not in q and '::Node::' not in q:
            cls = q.split('>::')[0] + '>'
            classes.setdefault(cls, {}).setdefault(f.get('name'), []).append(f)
    ctx.require(len(classes) == 2, 'KDTree instantiations not found: %s' % list(classes))
    for cls, m in sorted(classes.items()):
        lab = cls.replace('phosg::', '').replace('long', 'int64')
        check_tree(ctx, u, lab, m)
    # the coordinate accessor the tree descends and filters by: at(d) must be the d-th coordinate of
    # the point type (evaluated for every d; the tree's box tests use nothing else of the point)
    from peval import PEval, Vec, Ord, Undecided as PUnd, Fault as PFault
    n_at = 0
    for f in u.functions:
        q = u.qualname(f)
        mt = re.match(r'^phosg::Vector([234])<', q)
        if not mt or f.get('name') != 'at' or is_dependent_pattern(f, u) or body_of(f) is None:
            continue
        n = int(mt.group(1))
        comps = ['x', 'y', 'z', 'w'][:n]
        rec_ = u.record_of(f)
        order_ = [c['name'] for c in sorted([c for c in walk(rec_) if c.get('kind') == 'FieldDecl' and c.get('name') in comps], key=lambda c: c.get('_off', 0))]
        try:
            got = []
            for i_ in range(n):
                r_ = PEval([u]).call_with(f, [i_], this=Vec('this', list(order_)))
                got.append(order_[r_.idx] if isinstance(r_, Ord) else repr(r_))
        except (PUnd, PFault) as e_:
            n_at += 1
            from peval import Thrown as _PThrown
            if isinstance(e_, (_PThrown, PFault)):
                ctx.bad('C13-R1', 'Vector%d::at|coordinate' % n, f, 'Vector%d::at(%d) %s for a valid dimension: a %d-dimensional tree cannot read coordinate %d (insert and the box queries throw, exists() swallows it and answers false)' % (n, len(got), 'throws %s' % e_.etype if isinstance(e_, _PThrown) else 'faults (%s)' % e_, n, len(got)))
            else:
                ctx.undecided('C13-R1', 'Vector%d::at|coordinate' % n, f, 'the coordinate accessor could not be evaluated (%s)' % e_)
            continue
        n_at += 1
        ctx.check(got == comps, 'C13-R1', 'Vector%d::at|coordinate' % n, f, 'at(d) is coordinate d for d = 0..%d' % (n - 1),
                  'Vector%d::at(d) yields %s for d = 0..%d: the tree splits and filters dimension d by another coordinate (box queries ignore or double-count an axis)' % (n, got, n - 1))
    ctx.require(n_at >= 2, 'Vector2/Vector3::at instantiations not found in the witness unit')



_DN_REN = {}


def dn_names(dn):
    """renaming of delete_node's own variable names to the canonical ones: the walker that is finally
    deleted -> n, the node returned by the replacement search -> target"""
    ren = {}
    for d_ in walk(body_of(dn)):
        if d_.get('kind') == 'CXXDeleteExpr' and kids(d_):
            rd = ref_decl(kids(d_)[0])
            if rd is not None and rd.get('name') and rd['name'] != 'n':
                ren[rd['name']] = 'n'
    for v in walk(body_of(dn)):
        if v.get('kind') == 'VarDecl' and v.get('name') and v['name'] != 'target':
            hits = [c for c in walk(v) if c.get('kind') in ('CallExpr', 'CXXMemberCallExpr') and call_name(c) == 'find_subtree_min_max']
            if hits:
                ren[v['name']] = 'target'
    for x in walk(body_of(dn)):
        if x.get('kind') == 'BinaryOperator' and x.get('opcode') == '=' and any(c.get('kind') in ('CallExpr', 'CXXMemberCallExpr') and call_name(c) == 'find_subtree_min_max' for c in walk(x['inner'][1])):
            rd = ref_decl(x['inner'][0])
            if rd is not None and rd.get('name') and rd['name'] != 'target':
                ren[rd['name']] = 'target'
    return ren


def dnn(s_):
    """apply the current delete_node renaming to a canonical string"""
    if s_ is None:
        return s_
    for a_, b_ in _DN_REN.items():
        s_ = re.sub(r'(?<![\w.])%s(?![\w(])' % re.escape(a_), b_, s_)
    return s_

def one(m, name, nparams=None):
    fs = m.get(name, [])
    if nparams is not None:
        fs = [f for f in fs if len(params_of(f)) == nparams]
    if not fs:
        raise AnalysisBroken('KDTree::%s not found' % name)
    return fs[0]


def check_tree(ctx, u, lab, m):
    for fs in m.values():
        for f in fs:
            check_no_goto(f)
    # ---------------- R1
    R = 'C13-R1'
    ln = one(m, 'link_node')
    ctx.fn(lab + '::link_node')
    # the descent decision: a comparison of the new point with a node's point along that node's
    # dimension selects `before` (strictly smaller) or `after_or_equal` (everything else) - written
    # as an if/else, a named bool or a conditional expression
    import re as _re
    decisions = []
    for x in walk(body_of(ln)):
        if x.get('kind') not in ('IfStmt', 'ConditionalOperator'):
            continue
        if x.get('kind') == 'IfStmt':
            cond, then, els = if_parts(x)
        else:
            cond, then, els = kids(x)[0], kids(x)[1], kids(x)[2]
        rel = None
        for n_, pol_ in atoms([Fact(cond, True, x)]):
            r_ = relation(n_, pol_)
            if r_ and r_[1] in ('<', '<=', '>', '>='):
                a_, b_ = nf(r_[0]), nf(r_[2])
                m1 = _re.match(r'^new_node\.pt\.at\((\w+)\.dim\)$', a_)
                m2 = _re.match(r'^(\w+)\.pt\.at\((\w+)\.dim\)$', b_)
                if m1 and m2 and m1.group(1) == m2.group(1) == m2.group(2):
                    rel = (r_[1], m1.group(1))
                m1 = _re.match(r'^new_node\.pt\.at\((\w+)\.dim\)$', b_)
                m2 = _re.match(r'^(\w+)\.pt\.at\((\w+)\.dim\)$', a_)
                if m1 and m2 and m1.group(1) == m2.group(1) == m2.group(2):
                    rel = (FLIP[r_[1]], m1.group(1))
        if rel is None or els is None:
            continue
        tm = {y.get('name') for y in walk(then) if y.get('kind') == 'MemberExpr' and y.get('name') in ('before', 'after_or_equal')}
        em = {y.get('name') for y in walk(els) if y.get('kind') == 'MemberExpr' and y.get('name') in ('before', 'after_or_equal')}
        decisions.append((x, rel[0], tm, em))
    if not decisions:
        ctx.undecided(R, lab + '|link_node|descent', ln, 'the before/after_or_equal decision of link_node was not recognised')
    for x, op_, tm, em in decisions:
        ctx.check(op_ == '<' and tm == {'before'} and em == {'after_or_equal'}, R, lab + '|link_node|descent', x, 'new < node (strict) -> before, else after_or_equal',
                  'link_node sends `new %s node` to %s and everything else to %s: ties must go to after_or_equal (strict `<` selects before)' % (op_, sorted(tm), sorted(em)))
    for nm, np_ in (('at', 1), ('erase', 2)):
        f = one(m, nm, np_)
        ctx.fn('%s::%s' % (lab, nm))
        co = [x for x in walk(body_of(f)) if x.get('kind') == 'ConditionalOperator']
        ok = len(co) == 1 and nf(co[0]['inner'][0]) == '(pt.at(n.dim) < n.pt.at(n.dim))' and canon(co[0]['inner'][1]) == 'n.before' and canon(co[0]['inner'][2]) == 'n.after_or_equal'
        ctx.check(ok, R, '%s|%s|descent' % (lab, nm), co[0] if co else f, 'pt < node (strict) -> before, else after_or_equal', '%s descends with `%s`: it disagrees with where link_node put the entry' % (nm, nf(co[0]) if co else None))
    from guard import subst_locals as _sl

    def child_pushes(fn_):
        out = []
        for c_ in walk(body_of(fn_)):
            if c_.get('kind') == 'CXXMemberCallExpr' and call_name(c_) in ('emplace_back', 'push_back', 'push', 'emplace', 'push_front') and call_args(c_):
                a0 = strip(call_args(c_)[0])
                while a0 is not None and a0.get('kind') in ('ImplicitCastExpr', 'ParenExpr') and kids(a0):
                    a0 = strip(kids(a0)[0])
                if a0 is not None and a0.get('kind') == 'MemberExpr' and a0.get('name') in ('before', 'after_or_equal') and kids(a0):
                    out.append((c_, a0.get('name'), canon(kids(a0)[0])))
        return out
    for nm in ('within', 'exists'):
        f = one(m, nm, 2)
        ctx.fn('%s::%s(low, high)' % (lab, nm))
        pushes = child_pushes(f)
        if not pushes:
            # the traversal lives elsewhere (a shared visitor): analyse the function that holds it
            g = None
            for c_ in walk(body_of(f)):
                if c_.get('kind') in ('CallExpr', 'CXXMemberCallExpr'):
                    d_ = callee_decl(c_, u)
                    if d_ is not None and body_of(d_) is not None and child_pushes(d_):
                        g = d_
            if g is None:
                ctx.undecided(R, '%s|%s|visit' % (lab, nm), f, 'the range traversal of %s (enqueueing of the before / after_or_equal children) was not found in the function or a direct callee' % nm)
                continue
            f = g
            pushes = child_pushes(f)
        ps_ = [p_.get('name') for p_ in params_of(f)]
        lowp, highp = (ps_ + ['low', 'high'])[:2] if len(ps_) >= 2 else ('low', 'high')

        def rels_at(site, negate_cond=None):
            out = set()
            facts = atoms(path_facts(site)) if negate_cond is None else atoms([Fact(negate_cond, False, site)])
            for n_, pol in facts:
                r_ = relation(n_, pol)
                if r_:
                    a_, o_, b_ = _sl(nf(r_[0]), site), r_[1], _sl(nf(r_[2]), site)
                    if ('%s.at(' % lowp in a_ or '%s.at(' % highp in a_) and not ('%s.at(' % lowp in b_ or '%s.at(' % highp in b_):
                        a_, o_, b_ = b_, FLIP[o_], a_
                    out.add((a_, o_, b_))
                else:
                    out.add((_sl(nf(n_), site), 'truth', pol))
            return out
        by_kind = {}
        for c_, kind_, node_ in pushes:
            by_kind.setdefault(kind_, []).append((c_, node_))
        okc = set(by_kind) == {'before', 'after_or_equal'} and all(len(v_) == 1 for v_ in by_kind.values())
        for kind_, want_ops, lab_k, bound in (('before', ('>', '>='), 'visit-before', lowp), ('after_or_equal', ('<=', '<'), 'visit-after', highp)):
            if kind_ not in by_kind:
                ctx.bad(R, '%s|%s|%s' % (lab, nm, lab_k), f, 'the `%s` child is never enqueued by the range traversal' % kind_)
                continue
            c_, node_ = by_kind[kind_][0]
            rs_ = rels_at(c_)
            split_ = '%s.pt.at(%s.dim)' % (node_, node_)
            found = [(a_, o_, b_) for a_, o_, b_ in rs_ if a_ == split_ and b_ == '%s.at(%s.dim)' % (bound, node_) and o_ != 'truth']
            ok_ = len(found) == 1 and found[0][1] in want_ops
            if kind_ == 'before':
                ctx.check(ok_, R, '%s|%s|%s' % (lab, nm, lab_k), c_, 'before visited iff low < node', 'the `before` subtree is visited under %s: entries smaller than the node inside the box can be skipped' % (sorted('%s %s %s' % r_ for r_ in rs_ if r_[1] != 'truth') or 'no comparison with the lower corner'))
            else:
                ctx.check(ok_, R, '%s|%s|%s' % (lab, nm, lab_k), c_, 'after_or_equal visited iff high >= node', 'the `after_or_equal` subtree is visited under %s: entries >= the node inside the box can be skipped' % (sorted('%s %s %s' % r_ for r_ in rs_ if r_[1] != 'truth') or 'no comparison with the upper corner'))
            # the child is enqueued under its own predicate only (plus its non-null test)
            other = '%s.at(%s.dim)' % (highp if kind_ == 'before' else lowp, node_)
            okc = okc and not any(b_ == other for a_, o_, b_ in rs_ if o_ != 'truth')
            # ... and not only when the sibling was not: an else-branch of the sibling's test skips this
            # subtree whenever the box straddles the split
            sib = 'after_or_equal' if kind_ == 'before' else 'before'
            lp_ = enclosing(c_, LOOPS)
            for ft in (path_facts(c_) if len(by_kind[kind_]) == 1 else ()):
                if ft.pol is False and lp_ is not None and ft.cond.get('_off', 0) > lp_.get('_off', 0):
                    txt_ = _sl(nf(ft.cond), c_)
                    if ('%s.%s' % (node_, sib)) in txt_ or other in txt_:
                        ctx.bad(R, '%s|%s|%s-independent' % (lab, nm, lab_k), c_, 'the `%s` child is enqueued only when `%s` is false: when the box straddles the split and the `%s` child exists, the `%s` subtree is never searched and entries inside the box are missed' % (kind_, src_text(ft.cond, 60), sib, kind_))
        if any(len(v_) > 1 for v_ in by_kind.values()):
            ctx.undecided(R, '%s|%s|children' % (lab, nm), f, 'a child is enqueued at several sites (a case split the rule does not combine): %s' % sorted((k_, len(v_)) for k_, v_ in by_kind.items()))
        else:
            ctx.check(okc, R, '%s|%s|children' % (lab, nm), f, 'children enqueued under their own predicate', 'child enqueue sites / conditions changed: %s' % sorted((k_, len(v_)) for k_, v_ in by_kind.items()))
        node_ = pushes[0][2]
        box = [x for x in walk(body_of(f)) if x.get('kind') == 'IfStmt' and any(y.get('kind') == 'BreakStmt' for y in walk(if_parts(x)[1])) and enclosing(x, LOOPS) is not None and
               any(('%s.at(' % lowp) in nf(y) or ('%s.at(' % highp) in nf(y) for y in [if_parts(x)[0]])]
        if len(box) != 1:
            ctx.undecided(R, '%s|%s|half-open-box' % (lab, nm), f, 'the box membership test is not an `if (...) break` over the dimensions in this function (moved to a helper)')
        else:
            inside = {r_ for r_ in rels_at(box[0], negate_cond=if_parts(box[0])[0]) if r_[1] != 'truth'}
            dims_ = {mm.group(1) for a_, o_, b_ in inside for mm in [re.match(r'^%s\.pt\.at\((\w+)\)$' % re.escape(node_), a_)] if mm}
            d_ = next(iter(dims_)) if len(dims_) == 1 else '?'
            want_in = {('%s.pt.at(%s)' % (node_, d_), '>=', '%s.at(%s)' % (lowp, d_)), ('%s.pt.at(%s)' % (node_, d_), '<', '%s.at(%s)' % (highp, d_))}
            ctx.check(inside == want_in, R, '%s|%s|half-open-box' % (lab, nm), box[0], 'inside iff low <= p < high in every dimension', 'a point passes the box test iff %s; the box is half-open: low <= p < high' % sorted('%s %s %s' % r_ for r_ in inside))

    # ---------------- R2
    R = 'C13-R2'
    dn = one(m, 'delete_node')
    ctx.fn(lab + '::delete_node')
    _DN_REN.clear()
    _DN_REN.update(dn_names(dn))
    calls = [c for c in walk(body_of(dn)) if c.get('kind') in ('CallExpr', 'CXXMemberCallExpr') and call_name(c) == 'find_subtree_min_max']
    ctx.require(len(calls) >= 1, 'delete_node: replacement search not found')
    for i, c in enumerate(calls):
        a = call_args(c)
        sub, dim, mx = dnn(canon(a[0])), dnn(canon(a[1])), int_value(a[2])
        ok = sub == 'n.after_or_equal' and dim == 'n.dim' and mx == 0
        why = 'replacement is the %s of %s along %s' % ('maximum' if mx else 'minimum', sub, dim)
        if sub == 'n.before' and mx == 1:
            why += ': with ties along the split dimension the other tied entries stay under `before` although they are not strictly smaller than the new node value, and exact lookups stop finding them'
        ctx.check(ok, R, '%s|delete_node|replacement#%d' % (lab, i), c, 'minimum of after_or_equal along n->dim', why)
    rehome = [x for x in walk(body_of(dn)) if x.get('kind') == 'IfStmt' and dnn(nf(if_parts(x)[0])) == '!n.after_or_equal']
    def _rehomes(then):
        st_ = [dnn(nf(s_)) for s_ in stmts_of(then)]
        if st_ == ['(n.after_or_equal = n.before)', '(n.before = nullptr)']:
            return True
        # std::swap(n->before, n->after_or_equal) under `after_or_equal == nullptr` has the same effect
        sw_ = [c_ for c_ in walk(then) if c_.get('kind') == 'CallExpr' and call_name(c_) == 'swap' and sorted(dnn(nf(a_)) for a_ in call_args(c_)) == ['n.after_or_equal', 'n.before']]
        return len(stmts_of(then)) == 1 and len(sw_) == 1
    rehome = [x for x in walk(body_of(dn)) if x.get('kind') == 'IfStmt' and dnn(nf(if_parts(x)[0])) in ('!n.after_or_equal', '(n.after_or_equal == nullptr)', '(nullptr == n.after_or_equal)')]
    okr = len(rehome) == 1 and _rehomes(if_parts(rehome[0])[1]) and rehome[0].get('_off', 0) < calls[0].get('_off', 0)
    ctx.check(okr, R, lab + '|delete_node|rehome-before', rehome[0] if rehome else dn, 'a lone before subtree is moved to after_or_equal (and before cleared) before the search', 'the lone-`before` case is not re-homed to after_or_equal before taking the minimum')
    moves = [dnn(nf(x)) for x in walk(body_of(dn)) if x.get('kind') in ('BinaryOperator', 'CXXOperatorCallExpr') and (x.get('opcode') == '=' or call_name(x) == 'operator=') and dnn(canon(x['inner'][0] if x.get('kind') == 'BinaryOperator' else x['inner'][1])) in ('n.pt', 'n.value', 'n')]
    ctx.check(any('n.pt' in s_ and 'target.pt' in s_ for s_ in moves) and any('n.value' in s_ and 'target.value' in s_ for s_ in moves) and '(n = target)' in moves, R, lab + '|delete_node|move-up', dn, 'point and value of the replacement move up, then the replacement is deleted in turn', 'replacement copy-up changed: %s' % moves)
    fm = one(m, 'find_subtree_min_max')
    ctx.fn(lab + '::find_subtree_min_max')
    lp = [x for x in walk(body_of(fm)) if x.get('kind') == 'WhileStmt']
    ctx.require(len(lp) == 1, 'find_subtree_min_max: loop not found')
    exits = [x for x in walk(loop_body(lp[0])) if x.get('kind') in ('BreakStmt', 'ReturnStmt', 'ContinueStmt', 'GotoStmt')]
    ctx.check(not exits and nf(while_parts(lp[0])[0]) == '!pending.empty()', R, lab + '|min_max|full-scan', exits[0] if exits else lp[0], 'the search runs until the frontier is empty',
              'the min/max search leaves its loop early (%s): branches already queued by an ancestor that splits on another axis are skipped and a non-minimal replacement is installed' % (src_text(exits[0], 40) if exits else ''))
    # pruning, read as boolean functions of S = (n->dim == target_dim), M = find_max and the child pointer:
    # a child is queued only when it exists, and always when it can hold the extreme
    # (before unless S && M, after_or_equal unless S && !M); named boolean locals are expanded
    from poly import Poly as _Poly
    PM_ = _Poly(fm, u)

    class _Unk(Exception):
        pass

    def bval(e, asg, depth=0):
        e = strip(e)
        while e is not None and e.get('kind') in ('ImplicitCastExpr', 'ParenExpr', 'ExprWithCleanups') and kids(e):
            e = strip(kids(e)[0])
        k = e.get('kind')
        c = nf(e)
        if c in ('find_max',):
            return asg['M']
        if c in ('n.before', 'n.after_or_equal'):
            return asg[c]
        if c in ('(n.dim == target_dim)', '(target_dim == n.dim)'):
            return asg['S']
        if c in ('(n.dim != target_dim)', '(target_dim != n.dim)'):
            return not asg['S']
        if k == 'BinaryOperator' and e.get('opcode') in ('!=', '==') and any(strip(x_).get('kind') in ('CXXNullPtrLiteralExpr', 'GNUNullExpr') or nf(x_) == 'nullptr' for x_ in e['inner']):
            o_ = [x_ for x_ in e['inner'] if nf(x_) != 'nullptr']
            if len(o_) == 1 and nf(o_[0]) in ('n.before', 'n.after_or_equal'):
                return asg[nf(o_[0])] == (e['opcode'] == '!=')
        if k == 'UnaryOperator' and e.get('opcode') == '!':
            return not bval(e['inner'][0], asg, depth + 1)
        if k == 'BinaryOperator' and e.get('opcode') == '&&':
            return bval(e['inner'][0], asg, depth + 1) and bval(e['inner'][1], asg, depth + 1)
        if k == 'BinaryOperator' and e.get('opcode') == '||':
            return bval(e['inner'][0], asg, depth + 1) or bval(e['inner'][1], asg, depth + 1)
        if k == 'BinaryOperator' and e.get('opcode') in ('==', '!=') and 'bool' in (dtype(e['inner'][0]) or '') + (qtype(strip(e['inner'][0])) or ''):
            return (bval(e['inner'][0], asg, depth + 1) == bval(e['inner'][1], asg, depth + 1)) == (e['opcode'] == '==')
        if k == 'ConditionalOperator':
            return bval(e['inner'][1] if bval(e['inner'][0], asg, depth + 1) else e['inner'][2], asg, depth + 1)
        if k == 'CXXBoolLiteralExpr':
            return bool(e.get('value'))
        if k == 'DeclRefExpr' and depth < 6:
            init = PM_.single(ref_decl(e))
            if init is not None:
                return bval(init, asg, depth + 1)
        raise _Unk(c)
    pushes = [x for x in walk(loop_body(lp[0])) if x.get('kind') == 'IfStmt' and any(call_name(c) in ('emplace_back', 'push_back') for c in walk(if_parts(x)[1]) if c.get('kind') == 'CXXMemberCallExpr')]
    import itertools as _it
    seen_child = set()
    prune_bad, prune_und = None, None
    for x in pushes:
        cond, then, els = if_parts(x)
        pc = [c for c in walk(then) if c.get('kind') == 'CXXMemberCallExpr' and call_name(c) in ('emplace_back', 'push_back')]
        child = nf(call_args(pc[0])[0]) if len(pc) == 1 and call_args(pc[0]) else None
        outer_if = enclosing(x, ('IfStmt',))
        if child not in ('n.before', 'n.after_or_equal') or els is not None or any(y.get('kind') == 'IfStmt' for y in walk(then)) or (outer_if is not None and outer_if.get('_off', 0) > lp[0].get('_off', 0)):
            prune_und = 'the frontier is extended under nested / else conditions'
            continue
        seen_child.add(child)
        try:
            for S_, M_, C_ in _it.product((False, True), repeat=3):
                asg = {'S': S_, 'M': M_, 'n.before': C_ if child == 'n.before' else True, 'n.after_or_equal': C_ if child == 'n.after_or_equal' else True}
                v = bval(cond, asg)
                needed = C_ and not (S_ and (M_ if child == 'n.before' else not M_))
                if v and not C_:
                    prune_bad = prune_bad or '`%s` queues %s although it is null' % (nf(cond), child)
                if needed and not v:
                    prune_bad = prune_bad or '`%s` does not queue %s when %s and find_max=%s, where the %s may lie' % (nf(cond), child, 'the node splits on the target dimension' if S_ else 'the node splits on another dimension', M_, 'maximum' if M_ else 'minimum')
        except _Unk as e_:
            prune_und = 'condition atom `%s`' % e_
    if prune_bad:
        ctx.bad(R, lab + '|min_max|pruning', lp[0], 'pruning: ' + prune_bad)
    elif prune_und or seen_child != {'n.before', 'n.after_or_equal'}:
        ctx.undecided(R, lab + '|min_max|pruning', lp[0], 'the frontier extension is not two guarded pushes the rule reads (%s)' % (prune_und or sorted(seen_child)))
    else:
        ctx.ok(R, lab + '|min_max|pruning', lp[0], 'each child is queued only when it exists and whenever it can hold the extreme (before unless split-on-target && max, after_or_equal unless split-on-target && min)')
    # candidate update: `ret = n` happens under find_max && n > ret, or !find_max && n < ret (named
    # coordinates are expanded; either operand order)
    sites = [x for x in walk(loop_body(lp[0])) if x.get('kind') == 'BinaryOperator' and x.get('opcode') == '=' and nf(x) == '(ret = n)']
    upd_bad, upd_und, dirs = None, None, set()
    for x in sites:
        M_ = None
        rel_ = []
        for n_, pol in atoms(path_facts(x)):
            if _sl(nf(n_), x) == 'find_max':
                M_ = pol
                continue
            r_ = relation(n_, pol)
            if r_:
                a_, o_, b_ = _sl(nf(r_[0]), x), r_[1], _sl(nf(r_[2]), x)
                if a_ == 'ret.pt.at(target_dim)' and b_ == 'n.pt.at(target_dim)':
                    a_, o_, b_ = b_, FLIP[o_], a_
                if a_ == 'n.pt.at(target_dim)' and b_ == 'ret.pt.at(target_dim)':
                    rel_.append(o_)
        if M_ is None or len(rel_) != 1:
            upd_und = 'the update at line %s is not guarded by find_max and one comparison of the two coordinates' % x.get('_line')
            continue
        dirs.add(M_)
        if rel_[0] not in (('>', '>=') if M_ else ('<', '<=')):
            upd_bad = upd_bad or 'with find_max=%s the candidate is replaced when n %s ret along the target dimension' % (M_, rel_[0])
    if upd_bad:
        ctx.bad(R, lab + '|min_max|update', lp[0], 'candidate update: ' + upd_bad)
    elif upd_und or dirs != {True, False}:
        ctx.undecided(R, lab + '|min_max|update', lp[0], upd_und or 'candidate updates found for find_max in %s only' % sorted(dirs))
    else:
        ctx.ok(R, lab + '|min_max|update', lp[0], 'a more extreme point replaces the candidate (greater for max, smaller for min)')
    seed = [c for c in walk(body_of(fm)) if c.get('kind') == 'CXXMemberCallExpr' and call_name(c) == 'emplace_back' and enclosing(c, LOOPS) is None]
    ctx.check(len(seed) == 1 and canon(call_args(seed[0])[0]) == 'n', R, lab + '|min_max|seed', fm, 'frontier seeded with the subtree root', 'frontier seed changed')

    # ---------------- R3
    R = 'C13-R3'

    def root_nonnull_at(site):
        for n_, pol in atoms(path_facts(site)):
            c = nf(n_)
            if (c == 'this.root' and pol) or (c in ('(nullptr == this.root)', '(this.root == nullptr)') and not pol) or (c in ('(nullptr != this.root)', '(this.root != nullptr)') and pol):
                return True
        return False
    seeds = 0
    for nm, fs in m.items():
        for f in fs:
            for c in walk(body_of(f)):
                if c.get('kind') == 'CXXMemberCallExpr' and call_name(c) in ('emplace_back', 'push_back') and call_args(c) and canon(call_args(c)[0]) == 'this.root':
                    seeds += 1
                    ctx.check(root_nonnull_at(c), R, '%s|%s|queue-seeded-with-root' % (lab, nm), c, 'root is known non-null where it is enqueued', '%s enqueues this->root without a null test and then dereferences it: an empty tree crashes' % nm)
            # a work queue constructed with the root in it (`deque<Node*> q({root})`, `q{root}`, `q(1, root)`)
            for v_ in walk(body_of(f)):
                if v_.get('kind') == 'VarDecl' and kids(v_) and (dtype(v_) or '').replace('const ', '').startswith(('std::deque<', 'std::vector<', 'std::queue<', 'std::stack<', 'std::list<')) and \
                   any(y_.get('kind') == 'MemberExpr' and canon(y_) == 'this.root' for y_ in walk(kids(v_)[-1])):
                    seeds += 1
                    ctx.check(root_nonnull_at(v_), R, '%s|%s|queue-seeded-with-root' % (lab, nm), v_, 'root is known non-null where the queue is built from it', '%s builds its work queue from this->root without a null test and then dereferences every queued node: an empty tree crashes' % nm)
            # for (Node* n = root; <test>; )
            for lp_ in walk(body_of(f)):
                if lp_.get('kind') == 'ForStmt':
                    init, cv, cond, inc, body = for_parts(lp_)
                    v = next((x for x in walk(init) if x.get('kind') == 'VarDecl'), None) if init else None
                    if v is not None and kids(v) and canon(kids(v)[-1]) == 'this.root':
                        okc = cond is not None and nf(cond) in (v['name'], '(%s != nullptr)' % v['name'], '(nullptr != %s)' % v['name'])
                        ctx.check(okc, R, '%s|%s|descent-loop-null-test' % (lab, nm), lp_, 'descent loop tests the node for null', '%s walks from root without testing the node for null' % nm)
    ctx.require(seeds >= 3, '%s: traversals seeded with root not found (%d)' % (lab, seeds))
    r0 = [x for x in walk(body_of(ln)) if x.get('kind') == 'IfStmt' and nf(if_parts(x)[0]) in ('(nullptr == this.root)', '(this.root == nullptr)', '!this.root')]
    slot_descent = any(v.get('kind') == 'VarDecl' and '**' in (qtype(v) or '').replace(' ', '') and kids(v) and 'this.root' in canon(kids(v)[-1]) for v in walk(body_of(ln)))
    if slot_descent and len(r0) != 1:
        ctx.undecided(R, lab + '|link_node|empty-tree', ln, 'link_node descends through a pointer to the link slot (Node**): the empty tree is the loop\'s zero-iteration case, which this rule does not model')
    else:
      ctx.check(len(r0) == 1 and not falls_through(if_parts(r0[0])[1]), R, lab + '|link_node|empty-tree', ln, 'empty tree handled before the descent', 'link_node dereferences root without handling the empty tree')

    # ---------------- R4
    R = 'C13-R4'
    # queries keep no state between calls: a work queue with static / thread storage would carry
    # nodes of an earlier (possibly early-exited) traversal, or of another tree, into this one
    for nm, fs in sorted(m.items()):
        for i, f in enumerate(fs):
            for v in persistent_locals(f):
                ctx.check(reset_before_use(v, f), R, '%s::%s#%d|no-persistent-state|%s' % (lab, nm, i, v.get('name')), v, 'persistent local is reset before use',
                          '`%s` in %s has %s storage and is not emptied before use: nodes queued by an earlier call (an early-exiting exists(), another tree, a destroyed tree) are visited by this one' % (v.get('name'), nm, 'thread-local' if v.get('tls') else 'static'))
    wi, ex = one(m, 'within', 2), one(m, 'exists', 2)

    def skeleton(f):
        out = []
        for x in walk(body_of(f)):
            k = x.get('kind')
            if k == 'IfStmt':
                out.append('if ' + nf(if_parts(x)[0]))
            elif k in ('WhileStmt',):
                out.append('while ' + nf(while_parts(x)[0]))
            elif k == 'ForStmt':
                p = for_parts(x)
                out.append('for %s; %s' % (nf(p[2]) if p[2] else '', nf(p[3]) if p[3] else ''))
            elif k == 'CXXMemberCallExpr' and canon(member_call_object(x)) == 'level_nodes':
                out.append(nf(x))
            elif k == 'VarDecl' and kids(x) and x.get('name') not in ('ret',):
                out.append('%s = %s' % (x.get('name'), nf(kids(x)[-1])))
            elif k == 'BreakStmt':
                out.append('break')
        return out
    def _visitor(f_):
        for c_ in walk(body_of(f_)):
            if c_.get('kind') in ('CallExpr', 'CXXMemberCallExpr'):
                d_ = callee_decl(c_, u)
                if d_ is not None and body_of(d_) is not None and any(v.get('kind') == 'VarDecl' and v.get('name') in ('low_less', 'high_greater') for v in walk(body_of(d_))):
                    return d_
        return None
    vw, ve = _visitor(wi), _visitor(ex)
    if vw is not None and ve is not None and u.qualname(vw) == u.qualname(ve):
        # one shared traversal drives both: they agree by construction (its pruning is judged by R1, its root test by R3)
        ctx.ok(R, lab + '|within==exists(range)', ex, 'within and exists(low, high) run the same visitor %s' % vw.get('name'))
        thr_ = [t for f_ in (wi, ex, vw) for t in walk(body_of(f_)) if t.get('kind') == 'CXXThrowExpr']
        ctx.check(not thr_, R, lab + '|empty-tree-result', thr_[0] if thr_ else wi, 'neither range query throws', 'a range query throws (%s): the empty tree must give the empty result / false' % (src_text(thr_[0], 60) if thr_ else ''))
        ctx.ok(R, lab + '|hit-action', wi, 'hits are reported by the shared visitor to both callers')
        ctx.ok(R, lab + '|shared-visitor', vw, 'shared traversal', nontrivial=False)
        return _check_r5(ctx, u, lab, m, ln, dn, calls)
    a, b = skeleton(wi), skeleton(ex)
    if a != b:
        # written differently: they still agree when each of them meets the range-search rules of R1 on
        # its own (visit-before, visit-after, children, half-open box all discharged, none undecided)
        need_ = ['%s|%s|%s' % (lab, fn_, k_) for fn_ in ('within', 'exists') for k_ in ('visit-before', 'visit-after', 'children', 'half-open-box')]
        have_ = {o.key for o in ctx.obs if o.rule == 'C13-R1' and o.ok}
        if all(k_ in have_ for k_ in need_):
            ctx.ok(R, lab + '|within==exists(range)', ex, 'the two traversals are written differently; each meets the pruning and box rules of C13-R1 on its own, hence they visit and accept the same nodes')
        elif any(o.rule == 'C13-R1' and not o.ok and o.key in need_ for o in ctx.obs):
            ctx.bad(R, lab + '|within==exists(range)', ex, 'within and exists(low, high) differ and one of them breaks a range-search rule of C13-R1: %s' % [p for p in zip(a, b) if p[0] != p[1]][:2])
        else:
            ctx.undecided(R, lab + '|within==exists(range)', ex, 'within and exists(low, high) are written differently and C13-R1 could not decide both on their own')
    else:
        ctx.ok(R, lab + '|within==exists(range)', ex, 'identical traversal')
    hit_w = [x for x in walk(body_of(wi)) if x.get('kind') == 'CXXMemberCallExpr' and call_name(x) == 'emplace_back' and canon(member_call_object(x)) == 'ret']
    hit_e = [x for x in walk(body_of(ex)) if x.get('kind') == 'ReturnStmt' and kids(x) and int_value(kids(x)[0]) == 1]
    okh = len(hit_w) == 1 and len(hit_e) == 1 and [nf(f_.cond) for f_ in path_facts(hit_w[0])] == [nf(f_.cond) for f_ in path_facts(hit_e[0])]
    if not hit_w or not hit_e:
        ctx.undecided(R, lab + '|hit-action', wi, 'within / exists(range) do not contain their own hit sites (shared visitor): agreement not decided by this rule')
    else:
      if not okh and all(any(o.rule == 'C13-R1' and o.ok and o.key == '%s|%s|half-open-box' % (lab, fn_) for o in ctx.obs) for fn_ in ('within', 'exists')):
          ctx.ok(R, lab + '|hit-action', hit_w[0], 'the hit conditions are written differently; each is the half-open box test of C13-R1')
      elif not okh and not any(o.rule == 'C13-R1' and not o.ok and o.key in ('%s|within|half-open-box' % lab, '%s|exists|half-open-box' % lab) for o in ctx.obs):
          # the two hit conditions are spelled differently and the box rule could not read one of them (a helper / lambda): not decided here
          ctx.undecided(R, lab + '|hit-action', hit_w[0], 'the hit conditions of within and exists(range) are written differently and the box test of one of them is outside what C13-R1 reads')
      else:
          ctx.check(okh, R, lab + '|hit-action', hit_w[0] if hit_w else wi, 'collect vs return true under the same condition', 'the hit conditions of within and exists(range) differ')
    rw = [x for x in walk(body_of(wi)) if x.get('kind') == 'ReturnStmt']
    re_ = [x for x in walk(body_of(ex)) if x.get('kind') == 'ReturnStmt' and int_value(kids(x)[0]) == 0]
    no_throw = not any(t.get('kind') == 'CXXThrowExpr' for f_ in (wi, ex) for t in walk(body_of(f_)))
    okr = len(rw) == 2 and len(re_) == 2 and any(f_.origin is not None and 'this.root' in nf(f_.cond) for f_ in path_facts(rw[0])) and no_throw
    if not okr and no_throw:
        # another way of handling the empty tree (e.g. the queue is only seeded when root is non-null):
        # it is right iff the root is never enqueued / dereferenced while null, which is C13-R3's obligation
        okr = all(any(o.rule == 'C13-R3' and o.ok and o.key == '%s|%s|queue-seeded-with-root' % (lab, fn_) for o in ctx.obs) for fn_ in ('within', 'exists'))
    ctx.check(okr, R, lab + '|empty-tree-result', wi, 'empty tree: within returns the empty vector, exists false (neither throws)', 'within/exists(range) disagree on the empty tree (one of them throws or dereferences root)')

    return _check_r5(ctx, u, lab, m, ln, dn, calls)


def _check_r5(ctx, u, lab, m, ln, dn, calls):
    # ---------------- R5
    R = 'C13-R5'
    # link sites: an assignment of the node being linked to the root, to a child slot of the current
    # node, or through a pointer / reference that designates such a slot; each one is counted once
    newp = params_of(ln)[0]
    lbody_ = body_of(ln)
    slot_vars = {}
    for v in walk(lbody_):
        if v.get('kind') == 'VarDecl' and kids(v):
            qt_ = (qtype(v) or '').replace(' ', '')
            if ('**' in qt_ or qt_.endswith('*&')) and any(y.get('kind') == 'MemberExpr' and y.get('name') in ('before', 'after_or_equal', 'root') for y in walk(kids(v)[-1])):
                slot_vars[v['id']] = v
    slot_descent = bool(slot_vars)

    def is_slot(lhs):
        l0 = strip(lhs)
        if l0.get('kind') == 'MemberExpr' and l0.get('name') in ('before', 'after_or_equal', 'root'):
            return True
        if l0.get('kind') == 'UnaryOperator' and l0.get('opcode') == '*' and (ref_decl(l0['inner'][0]) or {}).get('id') in slot_vars:
            return True
        return l0.get('kind') == 'DeclRefExpr' and (ref_decl(l0) or {}).get('id') in slot_vars
    incs = [x for x in walk(lbody_) if (x.get('kind') == 'UnaryOperator' and x.get('opcode') == '++' and canon(x['inner'][0]) == 'this.node_count') or
            (x.get('kind') == 'CompoundAssignOperator' and x.get('opcode') == '+=' and canon(x['inner'][0]) == 'this.node_count' and int_value(x['inner'][1]) == 1)]
    links = [x for x in walk(lbody_) if x.get('kind') == 'BinaryOperator' and x.get('opcode') == '=' and (ref_decl(x['inner'][1]) or {}).get('id') == newp['id'] and is_slot(x['inner'][0])]
    okc = len(links) >= 1 and len(incs) == len(links) and all(enclosing(i_, ('CompoundStmt',)) is enclosing(l_, ('CompoundStmt',)) for i_, l_ in zip(sorted(incs, key=lambda z: z['_off']), sorted(links, key=lambda z: z['_off'])))
    ctx.check(okc, R, lab + '|link_node|count', ln, 'node_count++ next to each of the %d link site(s)' % len(links), 'node_count++ is not paired with every link site (%d increments, %d links)' % (len(incs), len(links)))
    pname = newp.get('name')
    par = [x for x in walk(lbody_) if x.get('kind') == 'BinaryOperator' and x.get('opcode') == '=' and canon(x['inner'][0]) == '%s.parent' % pname]
    dims = [nf(x['inner'][1]) for x in walk(lbody_) if x.get('kind') == 'BinaryOperator' and x.get('opcode') == '=' and canon(x['inner'][0]) == '%s.dim' % pname]
    import re as _re2
    pv = {canon(p_['inner'][1]) for p_ in par}
    okpd = len(par) >= 1 and len(pv) == 1 and len(dims) == len(par) and all(_re2.match(r'^\(\(1 \+ %s\.dim\) %% ' % _re2.escape(next(iter(pv))), d) or _re2.match(r'^\(\(%s\.dim \+ 1\) %% ' % _re2.escape(next(iter(pv))), d) for d in dims)
    # every non-root link site has a parent/dim initialisation in its block
    def may_be_root(lhs):
        l0 = strip(lhs)
        if l0.get('kind') == 'MemberExpr':
            return l0.get('name') == 'root'
        rd_ = ref_decl(l0['inner'][0]) if l0.get('kind') == 'UnaryOperator' else ref_decl(l0)
        v_ = slot_vars.get((rd_ or {}).get('id'))
        return v_ is not None and any(y.get('kind') == 'MemberExpr' and y.get('name') == 'root' for y in walk(v_))
    nonroot = [l_ for l_ in links if not may_be_root(l_['inner'][0])]
    okpd = okpd and all(any(enclosing(p_, ('CompoundStmt',)) is enclosing(l_, ('CompoundStmt',)) for p_ in par) for l_ in nonroot)
    ctx.check(okpd, R, lab + '|link_node|parent-dim', ln, 'child gets parent = n and dim = (n.dim + 1) mod dimensions', 'parent/dim initialisation changed: %s' % dims)
    decs = [x for x in walk(body_of(dn)) if x.get('kind') == 'UnaryOperator' and x.get('opcode') == '--' and canon(x['inner'][0]) == 'this.node_count']
    dels = [x for x in walk(body_of(dn)) if x.get('kind') == 'CXXDeleteExpr']
    ctx.check(len(decs) == 1 and len(dels) == 1 and enclosing(decs[0], LOOPS) is None and enclosing(dels[0], LOOPS) is None and dnn(canon(kids(dels[0])[0])) == 'n', R, lab + '|delete_node|count-delete', dn, 'exactly one node_count-- and one delete per deletion', 'delete_node decrements %d time(s) and deletes %d time(s)' % (len(decs), len(dels)))
    un = [nf(x) for x in walk(body_of(dn)) if x.get('kind') == 'IfStmt' and x.get('_off', 0) > (calls[0].get('_off', 0))]
    want_un = {'(n == n.parent.before)', '(n == n.parent.after_or_equal)'}
    from guard import subst_locals
    # (a local alias `Node* parent = n->parent` is substituted away)
    palias = {v.get('name') for v in walk(body_of(dn)) if v.get('kind') == 'VarDecl' and kids(v) and dnn(nf(kids(v)[-1])) == 'n.parent'}

    def _pn(t):
        import re as _re3
        t = dnn(t)
        for a_ in palias:
            t = _re3.sub(r'(?<![\w.])%s(?![\w(])' % _re3.escape(a_), 'n.parent', t)
        return t.replace('(nullptr == n.parent)', '(n.parent == nullptr)')
    # each of the three "forget the node" assignments is reached exactly under the fact that the slot
    # holds the node (operand order, nesting and a local alias for the parent do not matter)
    want_slots = {'n.parent.before': ('n', 'n.parent.before'), 'n.parent.after_or_equal': ('n', 'n.parent.after_or_equal'), 'this.root': ('n.parent', 'nullptr')}
    seen_slots = {}
    for x in walk(body_of(dn)):
        if x.get('kind') == 'BinaryOperator' and x.get('opcode') == '=' and strip(x['inner'][1]).get('kind') in ('CXXNullPtrLiteralExpr', 'GNUNullExpr', 'ImplicitCastExpr') and _pn(nf(x['inner'][0])) in want_slots and _pn(nf(x['inner'][1])) in ('nullptr', '0'):
            slot = _pn(nf(x['inner'][0]))
            if enclosing(x, LOOPS) is not None:
                continue      # the re-homing inside the replacement loop, judged by R2
            eqs, neqs = set(), set()
            for n_, pol_ in atoms(path_facts(x)):
                r_ = relation(n_, pol_)
                if r_ and r_[1] == '==':
                    eqs.add(tuple(sorted((_pn(nf(r_[0])), _pn(nf(r_[2]))))))
                elif r_ and r_[1] == '!=':
                    neqs.add(tuple(sorted((_pn(nf(r_[0])), _pn(nf(r_[2]))))))
                elif r_ is None and not pol_:
                    eqs.add(tuple(sorted((_pn(nf(n_)), 'nullptr'))))       # `!p`  ==  p == nullptr
                elif r_ is None and pol_:
                    neqs.add(tuple(sorted((_pn(nf(n_)), 'nullptr'))))
            okslot = tuple(sorted(want_slots[slot])) in eqs
            # a node that has a parent is one of its two children (link_node is the only place that sets
            # `parent`): "has a parent and is not the other child" identifies the slot as well
            other_ = {'n.parent.before': 'n.parent.after_or_equal', 'n.parent.after_or_equal': 'n.parent.before'}.get(slot)
            if not okslot and other_ is not None and tuple(sorted(('n', other_))) in neqs and tuple(sorted(('n.parent', 'nullptr'))) in neqs:
                okslot = True
            seen_slots[slot] = okslot
    oku = set(seen_slots) == set(want_slots) and all(seen_slots.values())
    ctx.check(oku, R, lab + '|delete_node|unlink-from-parent', dn, 'the parent slot that holds the node is cleared (root if there is no parent)',
              'unlink-from-parent changed: %s' % {k_: ('cleared under the right test' if v_ else 'cleared without the test that the slot holds the node') for k_, v_ in seen_slots.items()} + (' / never cleared: %s' % sorted(set(want_slots) - set(seen_slots)) if set(want_slots) - set(seen_slots) else ''))
    ds = one(m, '~KDTree')
    ctx.fn(lab + '::~KDTree')
    lp_ = [x for x in walk(body_of(ds)) if x.get('kind') == 'WhileStmt']
    okd = len(lp_) == 1
    if okd:
        lb = loop_body(lp_[0])
        ch = sorted((nf(if_parts(x)[0]), nf(stmts_of(if_parts(x)[1])[0])) for x in walk(lb) if x.get('kind') == 'IfStmt')
        dl = [x for x in walk(lb) if x.get('kind') == 'CXXDeleteExpr']
        okd = ch == [('n.after_or_equal', 'to_delete.emplace_back(n.after_or_equal)'), ('n.before', 'to_delete.emplace_back(n.before)')] and len(dl) == 1 and canon(kids(dl[0])[0]) == 'n' and \
            all(dl[0]['_off'] > x['_off'] for x in walk(lb) if x.get('kind') == 'IfStmt') and any(call_name(c) == 'pop_front' for c in walk(lb) if c.get('kind') == 'CXXMemberCallExpr')
    ctx.check(okd, R, lab + '|destructor', ds, 'each dequeued node: enqueue both children, then delete it', 'destructor traversal changed (a child is not enqueued, or the node is deleted before its children are read)')
    er = one(m, 'erase', 2)
    rf = [x for x in walk(body_of(er)) if x.get('kind') == 'ReturnStmt' and kids(x) and int_value(kids(x)[0]) == 0]
    inside = [x for x in rf if enclosing(x, LOOPS) is not None]
    mt = [x for x in walk(body_of(er)) if x.get('kind') == 'IfStmt' and any(c.get('kind') == 'CXXMemberCallExpr' and call_name(c) == 'delete_node' for c in walk(if_parts(x)[1]))]
    okm = len(mt) == 1 and nf(if_parts(mt[0])[0]) in ('((n.pt == pt) && (n.value == v))', '((n.value == v) && (n.pt == pt))') and not falls_through(if_parts(mt[0])[1])
    dcalls = [c for c in walk(body_of(er)) if c.get('kind') == 'CXXMemberCallExpr' and call_name(c) == 'delete_node']
    # (the descent may only stop at a node whose point AND value match: a loop condition that looks at the
    # point alone stops at the first duplicate point, which is the defect this rule reports)
    match_in_loop_cond = any(lp2.get('kind') in ('WhileStmt', 'ForStmt') and {'pt', 'value'} <= {y.get('name') for y in walk((while_parts(lp2)[0] if lp2.get('kind') == 'WhileStmt' else for_parts(lp2)[2]) or {}) if y.get('kind') == 'MemberExpr'} for lp2 in walk(body_of(er)))
    if not inside and not mt and dcalls and match_in_loop_cond:
        ctx.undecided(R, lab + '|erase|whole-descent', er, 'the match test is part of the descent loop\'s condition and delete_node follows the loop: the exit-condition reasoning this needs is not modelled')
    else:
      ctx.check(not inside and okm, R, lab + '|erase|whole-descent', inside[0] if inside else er, 'erase reports failure only after the descent reached a null child; a node matches iff point and value both match',
                'erase gives up inside the descent (%s): with duplicate points and different values the matching entry further down is never reached, erase returns false and removes nothing' % (src_text(inside[0].get('_p') or inside[0], 60) if inside else 'match test changed'))
    ea = one(m, 'erase_advance')
    def _freed_fact(c):
        for n_, pol in atoms(path_facts(c)):
            if not pol:
                continue
            if (ref_decl(n_) or {}).get('name') == 'deleted':
                return True
            if any(y.get('kind') == 'CXXMemberCallExpr' and call_name(y) == 'delete_node' for y in walk(n_)):
                return True
        return False
    okea = any(call_name(c) == 'delete_node' for c in walk(body_of(ea)) if c.get('kind') == 'CXXMemberCallExpr') and any(call_name(c) == 'pop_front' and _freed_fact(c) for c in walk(body_of(ea)) if c.get('kind') == 'CXXMemberCallExpr')
    ctx.check(okea, R, lab + '|erase_advance|queue', ea, 'the front of the iterator queue is dropped only when the node object itself was freed', 'erase_advance pops the queue regardless of whether the node object was freed')
