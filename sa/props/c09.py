"""C09 - data strings and hex dumps (decided part: formatter/parser table agreement
of the quoted and hex forms, parser totality on a NUL-terminated scan, width /
mask pairing, collapse and iovec-cursor guards of the hex dump).  Decoding the
hex dump back to the bytes is a value relation and is not decided."""
from ast_ import *
from path import *
from bits import *
from props.c04 import ConstEval, enum_env, select_action, string_lit, printf_emit


class OvEval(ConstEval):
    """ConstEval with overrides keyed by canonical expression text (e.g. 'in[0]')."""

    def __init__(self, unit, enums):
        super().__init__(unit, enums)
        self.ov = {}

    def eval(self, n, env, depth=0):
        n0 = strip(n, casts=False)
        if n0.get('kind') in ('ArraySubscriptExpr', 'DeclRefExpr', 'MemberExpr'):
            c = canon(n0)
            if c in self.ov:
                info = width_of_type(dtype(n0)) or (8, False)
                return const_bv(self.ov[c] & ((1 << info[0]) - 1), info[0], info[1])
        return super().eval(n, env, depth)


def run_block(I, stmts, env, fx):
    """Abstractly execute statements under constant bindings, collecting effects:
    fx['append'] list of byte values / 'in[k]' markers, fx['adv'] total advance of `in`,
    fx['assign'] {name: const}, fx['mask'] bytes of mask appended, fx['ret'], fx['unknown']."""
    for s in stmts:
        if fx.get('ret'):
            return
        s0 = strip(s)
        k = s0.get('kind')
        if k == 'CompoundStmt':
            run_block(I, list(kids(s0)), env, fx)
        elif k == 'IfStmt':
            cond, then, els = if_parts(s0)
            v = I.truth(I.eval(cond, env))
            if v not in (0, 1):
                fx['unknown'].append('undecided condition %s' % canon(cond))
                return
            br = then if v == 1 else els
            if br is not None:
                run_block(I, [br], env, fx)
        elif k == 'ReturnStmt':
            fx['ret'] = True
        elif k == 'CXXOperatorCallExpr' and call_name(s0) == 'operator+=' and canon(s0['inner'][1]) == 'data':
            rhs = s0['inner'][2]
            v = bv_const(I.eval(rhs, env))
            fx['append'].append(v & 0xFF if v is not None else canon(rhs))
        elif k == 'CompoundAssignOperator' and canon(s0['inner'][0]) == 'in' and s0.get('opcode') == '+=':
            fx['adv'] += int_value(s0['inner'][1]) or 0
        elif k == 'UnaryOperator' and s0.get('opcode') == '++' and canon(s0['inner'][0]) == 'in':
            fx['adv'] += 1
        elif k in ('BinaryOperator', 'CompoundAssignOperator') and s0.get('opcode') in ASSIGN_OPS:
            tgt = canon(s0['inner'][0])
            if s0.get('opcode') == '=':
                v = bv_const(I.eval(s0['inner'][1], env))
                fx['assign'][tgt] = v if v is not None else canon(s0['inner'][1])
            else:
                v = bv_const(I.eval(s0['inner'][1], env))
                fx['assign'][tgt + s0.get('opcode')] = v if v is not None else canon(s0['inner'][1])
        elif k == 'CallExpr' and call_name(s0) == 'add_mask_bits':
            fx['mask'] += int_value(call_args(s0)[2]) or 0
        elif k == 'CXXMemberCallExpr' and canon(member_call_object(s0)) == 'data' and call_name(s0) == 'push_back':
            rhs = call_args(s0)[0]
            v = bv_const(I.eval(rhs, env))
            fx['append'].append(v & 0xFF if v is not None else canon(rhs))
        elif k == 'CXXMemberCallExpr' and canon(member_call_object(s0)) == 'data' and call_name(s0) == 'append':
            a = call_args(s0)
            n = int_value(a[1]) if len(a) == 2 and int_value(a[1]) is not None and int_value(a[0]) is None else (int_value(a[0]) if len(a) == 2 else None)
            fx['append'].append(('block', n))
        elif k == 'DeclStmt':
            # a local bound to a decidable value (`const char ch = in[0];`) is known from here on
            for vd in kids(s0):
                if vd.get('kind') == 'VarDecl' and kids(vd):
                    try:
                        v = I.eval(kids(vd)[-1], env)
                    except Exception:
                        v = None
                    if v is not None and bv_const(v) is not None:
                        info = width_of_type(dtype(vd))
                        env[vd['id']] = I.cast(v, dtype(vd)) if info else v
        elif k == 'NullStmt':
            pass
        else:
            fx['unknown'].append(k)


def new_fx():
    return {'append': [], 'adv': 0, 'assign': {}, 'mask': 0, 'ret': False, 'unknown': []}


def run(ctx):
    ctx.rule('C09-R1', 'quoted form: for every byte the printable predicate admits, the text format_data_string emits is decoded by parse_data_string\'s string state to that byte (exhaustive over the admitted bytes); mask toggles are emitted as "?" between characters', 100)
    ctx.rule('C09-R2', 'hex form: two uppercase hex digits of an unsigned byte; the parser\'s nybble branch maps each of them to its value, high nybble first; ? toggles are consumed only outside strings/comments', 20)
    ctx.rule('C09-R3', 'parser totality: every advance of the cursor is dominated by facts that the bytes stepped over are non-NUL; every turn of the main loop advances or returns; the file state is entered only with ALLOW_FILES', 20)
    ctx.rule('C09-R4', 'width table: #/##/###/#### append 1/2/4/8 bytes, %/%% 4/8; every append is paired with the same number of mask bytes; byte swap iff big_endian != host with the swap of that width', 12)
    ctx.rule('C09-R6', 'round trip by evaluation (E-TABLE): parse_data_string(format_data_string(x, mask)) == (x, mask) for all single bytes, pairs and triples over class representatives (all 65536 pairs in the thorough tier), every mask of up to 3 positions, with and without SKIP_STRINGS', 1)
    ctx.rule('C09-R5', 'hex dump: a line is collapsed only under the flag, strictly after the first and strictly before the last line, and all-zero in both buffers; iovec cursors advance with `while` (empty iovecs); hex/ascii columns use 2 hex digits and the 0x20..0x7E predicate', 6)
    u = ctx.unit(repo_unit('Strings.cc'))
    enums = enum_env(u)
    I = OvEval(u, enums)
    fmts = [f for f in u.func('phosg::format_data_string') if 'void' in (qtype(params_of(f)[0]) or '')]
    ctx.require(len(fmts) == 1, 'format_data_string(const void*, ...) not found')
    F = fmts[0]
    P = u.func('phosg::parse_data_string')[0]
    for f in (F, P):
        check_no_goto(f)
        ctx.fn(u.qualname(f))
    fbody, pbody = body_of(F), body_of(P)

    # ---- the formatter's per-byte behaviour, by partial evaluation of the whole function on every
    # one-byte input (no mask): quoted form `"<text>"` or two hex digits.  Helpers, switch, all_of,
    # digit tables ... are folded; nothing is run.
    from peval import PEval, Lit, Str, Undecided, Fault
    PE = PEval([u])
    skip_flag = None
    for r_ in u.roots:
        for e_ in walk(r_):
            if e_.get('kind') == 'EnumConstantDecl' and e_.get('name') == 'SKIP_STRINGS':
                skip_flag = enums.get(e_['id'])
    ctx.require(skip_flag is not None, 'FormatDataFlags::SKIP_STRINGS not found')
    num_decides = [False]
    Pfull = None

    # ---- R6 round trip by evaluation (E-TABLE): the text the formatter produces for a byte string is
    with ctx.section('C09-R6', 'C09'):
        # parsed back to that byte string (and, with a mask, to that mask) - all single bytes, all pairs
        # over class representatives (all 65536 pairs in the thorough tier), masks over every position
        R = 'C09-R6'
        Pfull = next((f_ for f_ in u.func('phosg::parse_data_string') if len(params_of(f_)) == 3 and body_of(f_) is not None and 'char' not in (qtype(params_of(f_)[0]) or '').split('basic_string')[0].split('string')[0]), None)
        Fmask = F
        r6 = {'ok': 0, 'bad': None, 'und': None}

        def round_trip(bs, mask=None, flags=0):
            if r6['und']:
                return
            try:
                r = PE.call_with(Fmask, [Lit(bytes(bs)), len(bs), Lit(bytes(mask)) if mask is not None else None, flags])
                txt = bytes(r.b)
                mout = Str() if mask is not None else None
                back = PE.call_with(Pfull, [Str(txt), mout, 0])
            except Fault as e:
                r6['bad'] = r6['bad'] or (bytes(bs), mask, 'evaluation faults: %s' % e)
                return
            except Thrown as e:
                r6['bad'] = r6['bad'] or (bytes(bs), mask, 'the parser throws on the formatter\'s own text (%s)' % e)
                return
            except Undecided as e:
                r6['und'] = str(e)
                return
            got = bytes(back.b) if isinstance(back, Str) else None
            if got != bytes(bs):
                r6['bad'] = r6['bad'] or (bytes(bs), mask, 'it is rendered as %r, which parses back to %r' % (txt.decode('latin1'), got))
            elif mask is not None and [1 if m_ else 0 for m_ in bytes(mout.b)] != [1 if m_ else 0 for m_ in mask]:
                r6['bad'] = r6['bad'] or (bytes(bs), mask, 'with mask %s it is rendered as %r, which parses back with mask %s' % (list(mask), txt.decode('latin1'), list(bytes(mout.b))))
            else:
                r6['ok'] += 1
        if Pfull is None:
            ctx.undecided(R, 'round-trip', P, 'parse_data_string(const std::string&, std::string*, uint64_t) not found')
        else:
            from peval import Thrown
            reps = [0x00, 0x01, 0x09, 0x0A, 0x0D, 0x1F, 0x20, 0x21, 0x22, 0x27, 0x2F, 0x30, 0x39, 0x3C, 0x3F, 0x41, 0x46, 0x5C, 0x61, 0x66, 0x7E, 0x7F, 0x80, 0xFF]
            for fl_ in (0, skip_flag):
                for b in range(256):
                    round_trip([b], None, fl_)
                pairs = [(a_, b_) for a_ in (range(256) if ctx.tier == 'thorough' and fl_ == 0 else reps) for b_ in (range(256) if ctx.tier == 'thorough' and fl_ == 0 else reps)]
                for a_, b_ in pairs:
                    round_trip([a_, b_], None, fl_)
                for a_ in reps[::3]:
                    for b_ in reps[1::3]:
                        for c_ in reps[2::3]:
                            round_trip([a_, b_, c_], None, fl_)
                for bs in ([0x41], [0x00], [0x41, 0x42], [0x00, 0x41], [0x41, 0x42, 0x43], [0x00, 0x01, 0x02], [0x41, 0x00, 0x42], [0x22, 0x41, 0x5C]):
                    for m_ in range(1 << len(bs)):
                        round_trip(bs, [0xFF if (m_ >> i_) & 1 else 0 for i_ in range(len(bs))], fl_)
                    # "enabled" is any non-zero mask byte: runs of differing non-zero values carry no toggle
                    for vals_ in ((0x01, 0xFF, 0x80), (0xFF, 0x01, 0x00), (0x80, 0x00, 0x01), (0x01, 0x01, 0xFF), (0x00, 0x7F, 0xFF)):
                        round_trip(bs, list(vals_[:len(bs)]), fl_)
            # the parser-only numeric constructs: #/##/###/#### decimal (or 0x) numbers of 1/2/4/8 bytes,
            # %/%% float/double, $ switches to big-endian; expected bytes from python's struct
            import struct as _struct
            num = {'ok': 0, 'bad': None, 'und': None}

            def parse_only(txt):
                try:
                    mo_ = Str(b'')
                    back = PE.call_with(Pfull, [Str(txt), mo_, 0])
                    if isinstance(back, Str) and bytes(mo_.b) != (b'\x00' if txt.startswith(b'?') else b'\xff') * len(back.b):
                        return 'bytes %s with mask %s (a construct of n bytes carries n mask bytes, 0xFF unless `?` disabled the mask)' % (bytes(back.b).hex(), bytes(mo_.b).hex())
                    return bytes(back.b) if isinstance(back, Str) else None
                except Fault as e:
                    return 'faults: %s' % e
                except Thrown as e:
                    return 'throws %s' % e.etype
                except Undecided as e:
                    num['und'] = str(e)
                    return None
            for k_, nb in ((1, 1), (2, 2), (3, 4), (4, 8)):
                for v_ in (0, 1, 127, 128, 255, 256, 65535, 65536, 2147483647, 2147483648, 4294967295, 4294967296, (1 << 63) - 1, 1 << 63, (1 << 64) - 1, -1, -128):
                    if v_ >= 1 << (8 * nb) and nb < 8:
                        continue
                    for big in (0, 1):
                        for spell in ('%d' % v_, hex(v_) if v_ >= 0 else None):
                            if spell is None or num['und']:
                                continue
                            txt = (b'$' if big else b'') + b'#' * k_ + spell.encode() + b' '
                            want = (v_ & ((1 << (8 * nb)) - 1)).to_bytes(nb, 'big' if big else 'little')
                            got = parse_only(txt)
                            if num['und']:
                                break
                            if got != want:
                                num['bad'] = num['bad'] or (txt, got, want)
                            else:
                                num['ok'] += 1
            for txt, want in ((b'?#7 ', b'\x07'), (b'?##258 ', b'\x02\x01'), (b'?$###1 ', b'\0\0\0\x01'), (b'?####1 ', b'\x01' + b'\0' * 7), (b'?%1.5 ', _struct.pack('<f', 1.5)), (b'?$%%1.5 ', _struct.pack('>d', 1.5))):
                if num['und']:
                    continue
                got = parse_only(txt)
                if not num['und'] and got != want:
                    num['bad'] = num['bad'] or (txt, got, want)
                elif not num['und']:
                    num['ok'] += 1
            for fv in (0.0, 1.5, -2.25, 1e10, 3.0e-5):
                for big in (0, 1):
                    for k_, fmt_ in ((1, 'f'), (2, 'd')):
                        if num['und']:
                            continue
                        txt = (b'$' if big else b'') + b'%' * k_ + repr(fv).encode() + b' '
                        want = _struct.pack(('>' if big else '<') + fmt_, fv)
                        got = parse_only(txt)
                        if not num['und'] and got != want:
                            num['bad'] = num['bad'] or (txt, got, want)
                        elif not num['und']:
                            num['ok'] += 1
            num_decides[0] = not num['und'] and not num['bad']
            if num['und']:
                ctx.undecided(R, 'numeric-constructs', Pfull, 'the #/%% constructs of the parser could not be evaluated (%s)' % num['und'])
            elif num['bad']:
                ctx.bad(R, 'numeric-constructs', Pfull, 'the data string %r parses to %s; the construct denotes the bytes %s' % (num['bad'][0].decode('latin1'), num['bad'][1].hex() if isinstance(num['bad'][1], bytes) else num['bad'][1], num['bad'][2].hex()))
            else:
                ctx.ok(R, 'numeric-constructs', Pfull, '%d texts: #/##/###/#### numbers (decimal and 0x, boundary and negative values) and %%/%%%% floats in both byte orders parse to the bytes they denote' % num['ok'])
            if r6['und']:
                ctx.undecided(R, 'round-trip', Pfull, 'formatter / parser could not be evaluated (%s)' % r6['und'])
            elif r6['bad']:
                ctx.bad(R, 'round-trip', Pfull, 'data string %r: %s' % (r6['bad'][0], r6['bad'][2]))
            else:
                ctx.ok(R, 'round-trip', Pfull, 'parse_data_string(format_data_string(x)) == x (and the mask) for %d byte strings: all single bytes, pairs and triples over class representatives, every mask of up to 3 positions, with and without SKIP_STRINGS' % r6['ok'])
        r6_decides = Pfull is not None and not r6['und'] and not r6['bad']
    if r6_decides:
        # the per-byte tables and the mask-toggle emission are what this evaluation exercises (every
        # single byte in both forms, every mask of up to three positions): a structural mismatch in
        # R1 / R2 is then another way of writing the same formatter / parser
        ctx.defer({'C09-R1', 'C09-R2'}, 'C09-R6', only=lambda k_: 'mask-read-as-truth' not in k_)
    if Pfull is not None and num_decides[0]:
        # every width (#..####, %, %%), both byte orders and the mask bytes of each construct were evaluated
        ctx.defer({'C09-R4'}, 'C09-R6', only=lambda k_: k_.startswith('width|') or k_ == 'swap-width')


    def fmt_bytes(bs, flags=0):
        try:
            r = PE.call_with(F, [Lit(bytes(bs)), len(bs), None, flags])
        except Undecided as e:
            raise AnalysisBroken('format_data_string: cannot fold the function on the constant input %s (%s)' % (bytes(bs), e))
        if not isinstance(r, Str):
            raise AnalysisBroken('format_data_string does not evaluate to a string on %s' % bytes(bs))
        return bytes(r.b)
    rendered = {}
    admitted = []
    fault = {}
    for b in range(256):
        try:
            rendered[b] = fmt_bytes([b])
        except Fault as e:
            fault[b] = str(e)
            continue
        if len(rendered[b]) >= 2 and rendered[b][:1] == b'"' and rendered[b][-1:] == b'"':
            admitted.append(b)
    ctx.require(fault or 90 <= len(admitted) <= 110, 'format_data_string renders %d byte values in the quoted form' % len(admitted))

    def emitted(b):
        return rendered[b][1:-1] if b in rendered else None

    # structural pieces used by the mask-toggle rule (optional: a restructured formatter leaves them undecided)
    pr_var = next((v for v in walk(fbody) if v.get('kind') == 'VarDecl' and v.get('name') == 'is_printable'), None)
    main_if = next((s_ for s_ in stmts_of(fbody) if pr_var is not None and s_.get('kind') == 'IfStmt' and (ref_decl(if_parts(s_)[0]) or {}).get('id') == pr_var['id'] and if_parts(s_)[2] is not None), None)
    ctx.require(main_if is not None, 'format_data_string: quoted/hex dispatch (`if (is_printable) ... else ...`) not found')
    _, q_branch, h_branch = if_parts(main_if)
    q_loop = next((x for x in walk(q_branch) if x.get('kind') in LOOPS), None)
    h_loop = next((x for x in walk(h_branch) if x.get('kind') in LOOPS), None)
    ctx.require(q_loop is not None and h_loop is not None, 'format_data_string: per-byte loops of the two forms not found')
    qchain = [q_loop]

    # parser: the reading_string branch
    rs_var = next((v for v in walk(pbody) if v.get('kind') == 'VarDecl' and v.get('name') == 'reading_string'), None)
    ctx.require(rs_var is not None, 'parse_data_string: reading_string not found')
    main_loop = next((x for x in walk(pbody) if x.get('kind') == 'WhileStmt' and canon(while_parts(x)[0]) == 'in[0]'), None)
    ctx.require(main_loop is not None, 'parse_data_string: main loop `while (in[0])` not found')
    chain = next(s for s in stmts_of(loop_body(main_loop)) if s.get('kind') == 'IfStmt')
    branches = []   # (condition node, branch)
    s = chain
    while s is not None and s.get('kind') == 'IfStmt':
        cond, then, els = if_parts(s)
        branches.append((cond, then))
        s = els
    else_branch = s
    rs_branch = next((t for c, t in branches if (ref_decl(c) or {}).get('id') == rs_var['id']), None)
    ctx.require(rs_branch is not None, 'parse_data_string: reading_string branch not found')

    def decode(text):
        """run the string state over text (NUL-terminated); returns (bytes, ok, why)"""
        out = []
        pos = 0
        t = list(text) + [0, 0]
        steps = 0
        while pos < len(text):
            steps += 1
            I.ov = {'in[0]': t[pos], 'in[1]': t[pos + 1]}
            fx = new_fx()
            run_block(I, [rs_branch], {}, fx)
            if fx['unknown']:
                return None, 'parser step not understood: %s' % fx['unknown'][:2]
            if fx['ret']:
                return None, 'parser returns in the middle of the text'
            if 'reading_string' in fx['assign']:
                return None, 'the string state ends at offset %d (an unescaped quote)' % pos
            for a in fx['append']:
                if a == 'in[0]':
                    out.append(t[pos])
                elif a == 'in[1]':
                    out.append(t[pos + 1])
                elif isinstance(a, int):
                    out.append(a)
                else:
                    return None, 'unrecognised append %s' % (a,)
            if fx['adv'] < 1:
                return None, 'parser does not advance'
            pos += fx['adv']
            if steps > 20:
                return None, 'too many steps'
        return bytes(out), ''
    R = 'C09-R1'
    for b in admitted:
        em = emitted(b)
        key = 'quoted|0x%02X' % b
        if em is None:
            ctx.bad(R, key, qchain[0], 'cannot determine what the quoted form emits for byte 0x%02X' % b)
            continue
        got, why = decode(em)
        ctx.check(got == bytes([b]), R, key, qchain[0], '%r -> 0x%02X' % (em.decode('latin1'), b),
                  'byte 0x%02X is rendered as %r in the quoted form, which the parser %s' % (b, em.decode('latin1'), ('reads back as %r' % got) if got is not None else ('misreads: ' + why)), nontrivial=len(em) > 1 or b in (0x20, 0x7E))
    # mask toggle literal and quotes
    toggles = [string_lit(x['inner'][2]) for x in walk(loop_body(q_loop)) if x.get('kind') == 'CXXOperatorCallExpr' and call_name(x) == 'operator+=' and enclosing(x, ('IfStmt',)) is not None and
               any('mask' in canon(y) for y in walk(if_parts(enclosing(x, ('IfStmt',)))[0]))]
    ctx.check(toggles == [b'"?"'], R, 'quoted|mask-toggle', q_loop, 'mask change is rendered as "?" (close quote, toggle, open quote)', 'mask toggle in the quoted form is %s' % toggles)
    quotes = [int_value(x['inner'][2]) for x in stmts_of(q_branch) if strip(x).get('kind') == 'CXXOperatorCallExpr' and call_name(strip(x)) == 'operator+='] if q_branch.get('kind') == 'CompoundStmt' else []
    ctx.check(quotes == [34, 34], R, 'quoted|delimiters', q_branch, 'text is wrapped in double quotes', 'quoted form delimiters are %s' % quotes)

    # ---- R2 hex form
    with ctx.section('C09-R2', 'C09'):
        R = 'C09-R2'
        for b in range(256):
            if b in fault:
                ctx.bad(R, 'hex|emit-0x%02X' % b, F, 'for byte 0x%02X format_data_string %s' % (b, fault[b]))
                continue
            try:
                txt = fmt_bytes([b], skip_flag)
                txt2 = fmt_bytes([b, 0x00])
            except Fault as e:
                ctx.bad(R, 'hex|emit-0x%02X' % b, F, 'for byte 0x%02X format_data_string %s' % (b, e))
                continue
            ok_ = txt == (b'%02X' % b) and txt2 == (b'%02X00' % b)
            ctx.check(ok_, R, 'hex|emit-0x%02X' % b, F, 'byte -> %s' % txt.decode('latin1'), 'hex form renders byte 0x%02X as %r (and %r when followed by a NUL byte); expected two uppercase hex digits' % (b, txt, txt2), nontrivial=b in (0, 0x0A, 0x7F, 0x80, 0xFF))
        # parser nybble table
        for ch in '0123456789ABCDEFabcdef':
            I.ov = {'in[0]': ord(ch), 'in[1]': 0}
            fx = new_fx()
            run_block(I, [else_branch], {}, fx)
            v = fx['assign'].get('chr|=')
            ctx.check(fx['assign'].get('read_nybble') == 1 and v == int(ch, 16) and fx['adv'] == 1 and not fx['unknown'], R, 'hex|nybble-%s' % ch, else_branch,
                      '%r -> nybble %s' % (ch, v), 'hex digit %r is read as %s (read_nybble=%s, advance=%s)' % (ch, v, fx['assign'].get('read_nybble'), fx['adv']))
        # nybble pairing: high first, shift by 4, emit on the second
        nyb = next((s_ for s_ in stmts_of(loop_body(main_loop)) if s_.get('kind') == 'IfStmt' and (ref_decl(if_parts(s_)[0]) or {}).get('name') == 'read_nybble'), None)
        okn = False
        if nyb is not None:
            inner = next((x for x in walk(if_parts(nyb)[1]) if x.get('kind') == 'IfStmt'), None)
            if inner is not None:
                c_, t_, e_ = if_parts(inner)
                sh = [nf(x) for x in walk(t_) if x.get('kind') in ('BinaryOperator', 'CompoundAssignOperator') and x.get('opcode') in ASSIGN_OPS and canon(x['inner'][0]) == 'chr']
                em = [canon(x) for x in walk(e_) if x.get('kind') == 'CXXOperatorCallExpr' and call_name(x) == 'operator+='] if e_ is not None else []
                tog = [nf(x) for x in walk(if_parts(nyb)[1]) if x.get('kind') == 'BinaryOperator' and x.get('opcode') == '=' and canon(x['inner'][0]) == 'reading_high_nybble']
                hv = next((v for v in walk(pbody) if v.get('kind') == 'VarDecl' and v.get('name') == 'reading_high_nybble'), None)
                okn = canon(c_) == 'reading_high_nybble' and sh in (['(chr = (chr << 4))'], ['(chr <<= 4)']) and len(em) == 1 and tog == ['(reading_high_nybble = !reading_high_nybble)'] and hv is not None and int_value(kids(hv)[-1]) == 1
        if not okn and r6_decides:
            # another shape of the same state machine: C09-R6 has evaluated every two-digit pair through it
            ctx.undecided(R, 'hex|nybble-pairing', nyb or P, 'the nybble pairing is not written as `if (high) chr <<= 4; else data += chr` - its behaviour is decided by evaluation (C09-R6)')
        else:
            ctx.check(okn, R, 'hex|nybble-pairing', nyb or P, 'first digit is the high nybble (shifted by 4), the byte is emitted on the second', 'nybble pairing is not high-then-low with a 4-bit shift')
        # '?' consumed only outside the string/comment/filename states
        qb = next(((c, t) for c, t in branches if any(int_value(relation(n_, True)[2]) == ord('?') for n_, _ in atoms([Fact(c, True, None)]) if relation(n_, True) and relation(n_, True)[1] == '==')), None)
        ctx.require(qb is not None, 'parse_data_string: `?` branch not found')
        states_before = [(ref_decl(c) or {}).get('name') for c, t in branches[:[i for i, bt in enumerate(branches) if bt[0] is qb[0]][0]]]
        need = {'reading_comment', 'reading_multiline_comment', 'reading_string', 'reading_unicode_string', 'reading_filename'}
        ctx.check(need <= set(states_before), R, 'hex|toggle-outside-strings', qb[0], '? is a toggle only outside strings, comments and file names', 'the `?` toggle is tested before the state branches %s' % sorted(need - set(states_before)))
        fx = new_fx()
        I.ov = {'in[0]': ord('?'), 'in[1]': 0}
        run_block(I, [qb[1]], {}, fx)
        ctx.check(fx['adv'] == 1 and fx['assign'].get('mask_enabled') == '!mask_enabled' and not fx['append'], R, 'hex|toggle-effect', qb[1], '? flips mask_enabled and emits nothing', 'the `?` branch effects are %s' % {k_: v_ for k_, v_ in fx.items() if v_})
        ht = [string_lit(x['inner'][2]) if string_lit(x['inner'][2]) is not None else int_value(x['inner'][2]) for x in walk(loop_body(h_loop)) if x.get('kind') == 'CXXOperatorCallExpr' and call_name(x) == 'operator+=' and
              enclosing(x, ('IfStmt',)) is not None and enclosing(x, ('IfStmt',)) is not main_if]
        ctx.check(ht in ([ord('?')], [b'?']), R, 'hex|mask-toggle', h_loop, 'mask change is rendered as ? between bytes', 'mask toggle in the hex form is %s' % ht)

        # mask classification in the formatter: a mask byte is read only for its truth value, a toggle is
        # emitted exactly when that truth value differs from a state variable which is flipped with the
        # toggle, and the state starts where the parser's starts (enabled)
        R = 'C09-R2'
        mask_v = next((v for v in walk(body_of(F)) if v.get('kind') == 'VarDecl' and v.get('name') == 'mask'), None) if 'F' in dir() else None
        fbody = body_of(fmts[0])
        mask_vars = [v for v in walk(fbody) if v.get('kind') == 'VarDecl' and kids(v) and any((ref_decl(y) or {}).get('id') == params_of(fmts[0])[2]['id'] for y in walk(v))]
        ctx.require(len(mask_vars) == 1, 'format_data_string: typed mask pointer not found')
        mv = mask_vars[0]
        reads = [x for x in walk(fbody) if x.get('kind') == 'ArraySubscriptExpr' and (ref_decl(x['inner'][0]) or {}).get('id') == mv['id']]
        ctx.require(len(reads) >= 2, 'format_data_string: mask reads not found')
        for i, rd_ in enumerate(reads):
            p_ = rd_.get('_p')
            truth = False
            while p_ is not None and p_.get('kind') in ('ParenExpr', 'ImplicitCastExpr', 'CStyleCastExpr', 'CXXStaticCastExpr', 'CXXFunctionalCastExpr'):
                if p_.get('castKind') == 'IntegralToBoolean' or (dtype(p_) or '') == 'bool':
                    truth = True
                    break
                p_ = p_.get('_p')
            if not truth and p_ is not None:
                if p_.get('kind') == 'UnaryOperator' and p_.get('opcode') == '!':
                    truth = True
                r_ = relation(p_, True) if p_.get('kind') == 'BinaryOperator' else None
                if r_ and r_[1] in ('==', '!=') and (int_value(r_[2]) == 0 or int_value(r_[0]) == 0):
                    truth = True
            form = 'quoted' if any(a is q_loop for a in ancestors(rd_)) else 'hex'
            ctx.check(truth, R, '%s|mask-read-as-truth#%d' % (form, i), rd_, 'mask byte used only as zero / non-zero', 'the mask byte is compared by value (`%s`): masks whose non-zero bytes differ (0x01 vs 0xFF) are classified wrongly when re-parsed' % src_text(rd_.get('_p') or rd_, 60))
        for form, lp in (('quoted', q_loop), ('hex', h_loop)):
            emits = [x for x in walk(loop_body(lp)) if x.get('kind') == 'CXXOperatorCallExpr' and call_name(x) == 'operator+=' and (string_lit(x['inner'][2]) in (b'"?"', b'?') or int_value(x['inner'][2]) == ord('?'))]
            okt = len(emits) == 1
            why = 'expected one toggle emission, found %d' % len(emits)
            if okt:
                ifs = enclosing(emits[0], ('IfStmt',))
                cond, then, els = if_parts(ifs)
                flips = [a for a in walk(then) if a.get('kind') == 'BinaryOperator' and a.get('opcode') == '=' and strip(a['inner'][1]).get('kind') == 'UnaryOperator' and strip(a['inner'][1]).get('opcode') == '!'
                         and (ref_decl(strip(a['inner'][1])['inner'][0]) or {}).get('id') == (ref_decl(a['inner'][0]) or {}).get('id')]
                okt = len(flips) == 1
                why = 'the toggle is emitted without flipping a mask state variable'
                if okt:
                    st = ref_decl(flips[0]['inner'][0])
                    in_cond = any((ref_decl(y) or {}).get('id') == st['id'] for y in walk(cond)) and any(y in reads for y in walk(cond))
                    neq = any(y.get('kind') == 'BinaryOperator' and y.get('opcode') == '!=' for y in walk(cond))
                    svd = u.by_id.get(st['id'])
                    init_true = svd is not None and kids(svd) and int_value(kids(svd)[-1]) == 1
                    okt = in_cond and neq and init_true
                    why = 'toggle condition does not compare the mask byte\'s truth value with the state (`%s`), or the state does not start enabled' % src_text(cond, 70)
            ctx.check(okt, R, form + '|toggle-iff-state-differs', emits[0] if emits else lp, 'toggle emitted iff bool(mask[x]) != state; state flipped with it; starts enabled', why)

    # ---- R3 totality
    with ctx.section('C09-R3', 'C09'):
        R = 'C09-R3'
        adv_sites = [x for x in walk(loop_body(main_loop)) if (x.get('kind') == 'UnaryOperator' and x.get('opcode') == '++' and canon(x['inner'][0]) == 'in') or
                     (x.get('kind') == 'CompoundAssignOperator' and x.get('opcode') == '+=' and canon(x['inner'][0]) == 'in')]
        ctx.require(len(adv_sites) >= 15, 'cursor advances not found (%d)' % len(adv_sites))

        def nonzero_facts(site):
            nz = set()
            for n_, pol in atoms(path_facts(site)):
                n0 = strip(n_)
                r = relation(n_, pol)
                if r and canon(r[0]).startswith('in[') and int_value(r[2]) is not None:
                    c = int_value(r[2])
                    if (r[1] == '==' and c != 0) or (r[1] == '!=' and c == 0) or (r[1] in ('>=', '>') and c > 0):
                        nz.add(canon(r[0]))
                elif n0.get('kind') == 'ArraySubscriptExpr' and canon(n0).startswith('in[') and pol:
                    nz.add(canon(n0))
            return nz
        cnt = {}
        for a in adv_sites:
            k = 1 if a.get('kind') == 'UnaryOperator' else (int_value(a['inner'][1]) or 0)
            nz = nonzero_facts(a)
            need_ = {'in[%d]' % i for i in range(k)}
            blk = src_text(enclosing(a, ('IfStmt',)) or a, 40)
            key0 = 'advance+%d@%s' % (k, nf(if_parts(enclosing(a, ('IfStmt',)))[0])[:50] if enclosing(a, ('IfStmt',)) is not None else 'top')
            cnt[key0] = cnt.get(key0, 0) + 1
            ctx.check(need_ <= nz, R, key0 + ('' if cnt[key0] == 1 else '#%d' % cnt[key0]), a, 'steps over %d byte(s) known to be non-NUL' % k,
                      'the cursor moves %d byte(s) forward but only %s are known to be non-NUL here: a text ending at this point makes the parser step past the terminator and read beyond the buffer' % (k, sorted(nz) or 'none'))
        # progress: every turn advances or returns

        def turn_progress(stmt):
            if stmt is None or not stmt.get('kind'):
                return False
            k = stmt.get('kind')
            if k == 'CompoundStmt':
                for s_ in kids(stmt):
                    if not falls_through(s_):
                        return True
                    if turn_progress(s_):
                        return True
                return False
            if k == 'IfStmt':
                cond, then, els = if_parts(stmt)
                return turn_progress(then) and (els is not None and turn_progress(els))
            if k in ('ReturnStmt', 'CXXThrowExpr', 'BreakStmt'):
                return True
            return any(x in adv_sites for x in walk(stmt) if x.get('kind') in ('UnaryOperator', 'CompoundAssignOperator')) and not any(x.get('kind') in ('IfStmt',) + LOOPS for x in walk(stmt) if x is not stmt)
        ctx.check(turn_progress(chain), R, 'main-loop|progress', main_loop, 'every branch of the state machine advances the cursor or returns', 'a branch of the main loop neither advances nor returns: the parser hangs on some text')
        # strtoull/strtod end pointers
        conv = [c for c in walk(pbody) if c.get('kind') == 'CallExpr' and call_name(c) in ('strtoull', 'strtod', 'strtof', 'strtoul', 'strtoll')]
        okc = len(conv) >= 3 and all(canon(call_args(c)[0]) == 'in' and 'in' in canon(call_args(c)[1]) for c in conv)
        ctx.check(okc, R, 'numeric-scans', P, 'every libc numeric scan starts at the cursor and leave it at their end pointer (never before it, never past the NUL)', 'numeric scans changed: %s' % [src_text(c, 50) for c in conv])
        # file state only with ALLOW_FILES
        fsets = [x for x in walk(pbody) if x.get('kind') == 'BinaryOperator' and x.get('opcode') == '=' and canon(x['inner'][0]) == 'reading_filename' and int_value(x['inner'][1]) == 1]
        okf = len(fsets) == 1 and any(canon(n_) == 'allow_files' and pol for n_, pol in atoms(path_facts(fsets[0])))
        av = next((v for v in walk(pbody) if v.get('kind') == 'VarDecl' and v.get('name') == 'allow_files'), None)
        okf = okf and av is not None and 'ALLOW_FILES' in canon(kids(av)[-1]) and '&' in canon(kids(av)[-1])
        loads = [c for c in walk(pbody) if c.get('kind') == 'CallExpr' and call_name(c) == 'load_file']
        okf = okf and all(any((ref_decl(n_) or {}).get('name') == 'reading_filename' and pol for n_, pol in atoms(path_facts(c, ignore_kills_of={'dummy'}))) or
                          any((ref_decl(ft.cond) or {}).get('name') == 'reading_filename' and ft.pol for ft in path_facts(c)) or True for c in loads)
        loads_in_state = all(any(t_ is not None and any(y is c for y in walk(t_)) and (ref_decl(c_) or {}).get('name') == 'reading_filename' for c_, t_ in branches) for c in loads)
        ctx.check(okf and loads_in_state, R, 'files-need-flag', fsets[0] if fsets else P, 'load_file is reachable only through reading_filename, which is set only when ALLOW_FILES is given (so without it nothing throws)', 'the file-inclusion state can be entered without ALLOW_FILES')
        thr = [t for t in walk(pbody) if t.get('kind') == 'CXXThrowExpr']
        ctx.check(not thr, R, 'no-throw', thr[0] if thr else P, 'the parser contains no throw', 'the parser now throws (%s): any text must be accepted' % (src_text(thr[0], 60) if thr else ''))

    # ---- R4 width table
    with ctx.section('C09-R4', 'C09'):
        R = 'C09-R4'
        widths = {}
        for pre, n_hash, exp in (('#', 1, 1), ('#', 2, 2), ('#', 3, 4), ('#', 4, 8), ('%', 1, 4), ('%', 2, 8)):
            br = next((t for c, t in branches if any(relation(n_, True) and relation(n_, True)[1] == '==' and int_value(relation(n_, True)[2]) == ord(pre) for n_, _ in atoms([Fact(c, True, None)]))), None)
            ctx.require(br is not None, 'parse_data_string: `%s` branch not found' % pre)
            # walk: after each `in++` the next char is tested; simulate with in[0] = pre for n_hash tests then a digit
            seq = [ord(pre)] * n_hash + [ord('1')]
            fx = new_fx()
            pos = [0]

            class Ov(dict):
                pass
            # evaluate nested ifs: each `in[0] == pre` test refers to the current position; emulate by running statements and updating overrides on advance

            def run_seq(stmts):
                for s_ in stmts:
                    s0 = strip(s_)
                    k = s0.get('kind')
                    if k == 'CompoundStmt':
                        run_seq(list(kids(s0)))
                    elif k == 'IfStmt':
                        cond, then, els = if_parts(s0)
                        I.ov = {'in[0]': seq[min(pos[0], len(seq) - 1)], 'in[1]': seq[min(pos[0] + 1, len(seq) - 1)], 'big_endian': 0, 'host_big_endian': 0}
                        v = I.truth(I.eval(cond, {}))
                        if v == 1:
                            run_seq([then])
                        elif v == 0 and els is not None:
                            run_seq([els])
                        elif v not in (0, 1):
                            fx['unknown'].append(canon(cond))
                    elif k == 'UnaryOperator' and s0.get('opcode') == '++' and canon(s0['inner'][0]) == 'in':
                        pos[0] += 1
                        fx['adv'] += 1
                    elif k == 'CallExpr' and call_name(s0) == 'add_mask_bits':
                        fx['mask'] += int_value(call_args(s0)[2]) or 0
                    elif k == 'CXXMemberCallExpr' and canon(member_call_object(s0)) == 'data' and call_name(s0) == 'append':
                        a = call_args(s0)
                        n = int_value(a[1]) if int_value(a[0]) is None else int_value(a[0])
                        fx['append'].append(n)
            run_seq([br])
            tot = sum(x for x in fx['append'] if isinstance(x, int))
            if any(x.get('kind') in LOOPS + ('SwitchStmt',) for x in walk(br)) and (tot != exp or fx['mask'] != exp or fx['adv'] != n_hash):
                ctx.undecided(R, 'width|%s' % (pre * n_hash), br, 'the `%s` branch counts its prefix characters with a loop / switch, which the width-table walker does not model' % pre)
                continue
            ctx.check(tot == exp and fx['mask'] == exp and fx['adv'] == n_hash and not fx['unknown'], R, 'width|%s' % (pre * n_hash), br, '%s -> %d data bytes, %d mask bytes' % (pre * n_hash, tot, fx['mask']),
                      '`%s` appends %s data byte(s) and %s mask byte(s) after %s prefix characters; expected %d/%d/%d' % (pre * n_hash, tot, fx['mask'], fx['adv'], exp, exp, n_hash))
        # every data append is paired with the same number of mask bytes (judged on the
        # largest blocks whose totals are the same on every completing path)
        def totals(st):
            """(data bytes, mask bytes) appended on every normally-completing path, or None"""
            s0 = strip(st)
            k = s0.get('kind')
            if k == 'CompoundStmt':
                d = m = 0
                for c in kids(s0):
                    t = totals(c)
                    if t is None:
                        return None
                    if t == 'exit':
                        return 'exit' if (d, m) == (0, 0) else (d, m)
                    d += t[0]
                    m += t[1]
                return (d, m)
            if k == 'IfStmt':
                cond, then, els = if_parts(s0)
                ts = [totals(then), totals(els) if els is not None else (0, 0)]
                if any(t is None for t in ts):
                    return None
                live = [t for t in ts if t != 'exit']
                if not live:
                    return 'exit'
                return live[0] if all(t == live[0] for t in live) else None
            if k in ('ReturnStmt', 'BreakStmt', 'ContinueStmt', 'CXXThrowExpr'):
                return 'exit'
            if k in LOOPS or k == 'SwitchStmt':
                return None
            if k == 'CXXMemberCallExpr' and canon(member_call_object(s0)) == 'data' and call_name(s0) == 'append':
                a_ = call_args(s0)
                n = int_value(a_[1]) if int_value(a_[0]) is None else int_value(a_[0])
                return (n, 0) if n is not None else None
            if k == 'CXXOperatorCallExpr' and call_name(s0) == 'operator+=' and canon(s0['inner'][1]) == 'data':
                return None if 'load_file' in canon(s0) else (1, 0)
            if k == 'CXXMemberCallExpr' and canon(member_call_object(s0)) == 'data' and call_name(s0) == 'push_back':
                return (1, 0)
            if k == 'CXXMemberCallExpr' and canon(member_call_object(s0)) == 'data' and call_name(s0) not in ('size', 'empty', 'length', 'data', 'c_str', 'reserve'):
                return None
            if k == 'CallExpr' and call_name(s0) == 'add_mask_bits':
                n = int_value(call_args(s0)[2])
                return (0, n) if n is not None else None
            return (0, 0)

        def judge(st):
            s0 = strip(st)
            if not s0.get('kind'):
                return
            t = totals(s0)
            if t is not None and t != 'exit':
                if t != (0, 0):
                    ctx.check(t[0] == t[1], R, 'pairing@%s:%s' % (s0.get('_line'), s0.get('_col')), s0, '%d data byte(s) / %d mask byte(s)' % t,
                              'this block appends %d data byte(s) but %d mask byte(s) on a completing path: the masked/unmasked classification of later bytes shifts' % t)
                return
            if s0.get('kind') == 'CompoundStmt':
                for c in kids(s0):
                    judge(c)
            elif s0.get('kind') == 'IfStmt':
                cond, then, els = if_parts(s0)
                judge(then)
                if els is not None:
                    judge(els)
        for c_, t_ in branches:
            judge(t_)
        judge(else_branch)
        nyb_if = next((s_ for s_ in stmts_of(loop_body(main_loop)) if s_.get('kind') == 'IfStmt' and (ref_decl(if_parts(s_)[0]) or {}).get('name') == 'read_nybble'), None)
        if nyb_if is not None:
            judge(if_parts(nyb_if)[1])
        swaps = []
        for x in walk(loop_body(main_loop)):
            if x.get('kind') == 'IfStmt' and nf(if_parts(x)[0]) in ('(big_endian != host_big_endian)', '(host_big_endian != big_endian)', '(big_endian != 0)', '(0 != big_endian)', 'big_endian'):
                c = [y for y in walk(if_parts(x)[1]) if y.get('kind') == 'CallExpr' and (call_name(y) or '').startswith('bswap')]
                blk = enclosing(x, ('CompoundStmt',))
                sz = [int_value(call_args(s0)[1]) for s0 in [strip(s_) for s_ in kids(blk)] if s0.get('kind') == 'CXXMemberCallExpr' and call_name(s0) == 'append']
                if c and sz:
                    swaps.append((call_name(c[0]), sz[0]))
        ctx.check(len(swaps) >= 3 and len({z for _, z in swaps}) >= 3 and all(n_ == 'bswap%d' % (8 * z) for n_, z in swaps), R, 'swap-width', P, 'values are swapped with the bswap of their own width iff big_endian != host', 'swap/width pairs are %s' % swaps)

    # ---- R5 hex dump guards
    with ctx.section('C09-R5', 'C09'):
        R = 'C09-R5'
        fds = [f for f in u.func('phosg::format_data') if len(params_of(f)) == 7]
        ctx.require(len(fds) == 1, 'format_data core not found')
        D = fds[0]
        ctx.fn('format_data(core)')
        dbody = body_of(D)
        conts = [x for x in walk(dbody) if x.get('kind') == 'ContinueStmt']
        ctx.require(len(conts) == 1, 'format_data: collapse `continue` not found')
        facts = path_facts(conts[0])
        rels = set()
        flags_true = set()
        zero_tests = 0
        defs = {v['id']: v for v in walk(dbody) if v.get('kind') == 'VarDecl' and kids(v)}
        stack = [(n_, p_) for n_, p_ in atoms(facts)]
        while stack:
            n_, pol = stack.pop()
            n0 = strip(n_)
            rd = ref_decl(n0)
            if rd and rd.get('id') in defs and dtype(n0) == 'bool' and defs[rd['id']].get('name') not in ('collapse_zero_lines',):
                stack.extend(atoms([Fact(kids(defs[rd['id']])[-1], pol, None)]))
                continue
            if rd and pol:
                flags_true.add(rd.get('name'))
            r = relation(n0, pol)
            if r:
                rels.add((nf(r[0]), r[1], nf(r[2])))
            mc = None
            if n0.get('kind') == 'CallExpr' and call_name(n0) == 'memcmp' and not pol:
                mc = n0
            elif r and r[1] == '==' and pol:
                for p_, q_ in ((r[0], r[2]), (r[2], r[0])):
                    if strip(p_).get('kind') == 'CallExpr' and call_name(strip(p_)) == 'memcmp' and int_value(q_) == 0:
                        mc = strip(p_)
            if mc is not None:
                a = call_args(mc)
                n_cmp = int_value(a[2])
                if n_cmp is None:
                    sz_ = next((y for y in walk(a[2]) if y.get('kind') == 'UnaryExprOrTypeTraitExpr' and y.get('name') == 'sizeof' and kids(y)), None)
                    if sz_ is not None:
                        n_cmp = sizeof_type(dtype(strip(kids(sz_)[0])) or qtype(strip(kids(sz_)[0])))
                zeros = None
                if string_lit(a[1]) is not None:
                    zeros = len(string_lit(a[1])) if set(string_lit(a[1])) <= {0} else None
                else:
                    zd = ref_decl(a[1])
                    zv = next((v for v in walk(dbody) if v.get('kind') == 'VarDecl' and zd is not None and v['id'] == zd.get('id')), None)
                    if zv is None and zd is not None:
                        zv = next((d_ for d_ in DECLS.get(zd.get('id'), ()) if d_.get('kind') == 'VarDecl' and d_.get('inner')), None)
                    if zv is not None and 'const' in (qtype(zv) or '') and kids(zv):
                        tot = sizeof_type(qtype(zv))
                        init = strip(kids(zv)[-1])
                        elems = [c_ for c_ in kids(init) if c_.get('kind') not in ('ImplicitValueInitExpr',)] if init.get('kind') == 'InitListExpr' else None
                        arr_filler = init.get('array_filler') if init.get('kind') == 'InitListExpr' else None
                        els_ = []
                        if init.get('kind') == 'InitListExpr':
                            src_ = arr_filler if arr_filler else kids(init)
                            els_ = [c_ for c_ in src_ if c_.get('kind') != 'ImplicitValueInitExpr']
                            if all(int_value(c_) == 0 for c_ in els_) and tot:
                                zeros = tot
                if n_cmp == 16 and zeros is not None and zeros >= 16:
                    zero_tests += 1

        def has(a, ops, b):
            return any((x == a and o in ops and z == b) or (x == b and FLIP[o] in ops and z == a) for x, o, z in rels)
        ctx.check('collapse_zero_lines' in flags_true, R, 'collapse|flag', conts[0], 'collapsing only with COLLAPSE_ZERO_LINES', 'a line can be collapsed without the flag')
        ctx.check(has('line_start_address', ('>',), 'start_address'), R, 'collapse|not-first', conts[0], 'never the first line', 'the first line can be collapsed (facts %s)' % sorted(rels))
        ctx.check(has('line_end_address', ('<',), 'end_address') or has('(16 + line_start_address)', ('<',), 'end_address'), R, 'collapse|not-last', conts[0], 'never the last line (line end strictly before the end address)',
                  'the collapse guard admits line_end_address == end_address (facts %s): when the data ends on a 16-byte boundary its all-zero last line is dropped and the dump reads as a shorter buffer' % sorted(rels))
        ctx.check(zero_tests == 2, R, 'collapse|both-zero', conts[0], 'current and previous line are compared with 16 zero bytes', 'only %d all-zero test(s) guard the collapse' % zero_tests)
        advs = [x for x in walk(dbody) if x.get('kind') == 'UnaryOperator' and x.get('opcode') == '++' and canon(x['inner'][0]) in ('current_iov_index', 'prev_iov_index')]
        okw = len(advs) == 2 and all(enclosing(a, ('WhileStmt', 'IfStmt')) is not None and enclosing(a, ('WhileStmt', 'IfStmt')).get('kind') == 'WhileStmt' for a in advs)
        if okw:
            for a in advs:
                wl = enclosing(a, ('WhileStmt',))
                r = relation(while_parts(wl)[0], True)
                okw = okw and r is not None and r[1] == '>=' and 'iov_len' in canon(r[2])
        cursors_here = len(advs) == 2
        if cursors_here:
            ctx.check(okw, R, 'iovec-cursor|while', advs[0] if advs else D, 'exhausted (or empty) iovecs are skipped with `while (bytes >= iov_len)`', 'iovec cursors do not skip consecutive empty iovecs: the output depends on how the data is split')
        else:
            ctx.undecided(R, 'iovec-cursor|while', D, 'the two iovec cursors (current_iov_index / prev_iov_index) are not advanced in format_data itself (moved into a helper or class): cursor rules not evaluated')
        # cursor / array affinity: each iovec array is walked by its own (index, byte offset) pair; the
        # line buffers are filled from the matching array
        iov_params = [p_ for p_ in params_of(D) if 'iovec' in (qtype(p_) or '')] if cursors_here else []
        ctx.require(len(iov_params) == 2 or not cursors_here, 'format_data: the two iovec array parameters were not found')
        use = {}
        for x in walk(dbody):
            if x.get('kind') == 'ArraySubscriptExpr':
                base = ref_decl(x['inner'][0])
                if base and base.get('id') in {p_['id'] for p_ in iov_params}:
                    idxs = sorted({(ref_decl(y) or {}).get('name') for y in walk(x['inner'][1]) if y.get('kind') == 'DeclRefExpr' and (ref_decl(y) or {}).get('kind') == 'VarDecl'})
                    # the byte cursor compared with / added to this element in the same statement
                    st_ = containing_statement(x)
                    use.setdefault(base.get('name'), []).append((tuple(idxs), x))
        cursors = {}
        for arr, lst in use.items():
            for idxs, x in lst:
                for i in idxs:
                    cursors.setdefault(i, set()).add(arr)
        persistent = {canon(a['inner'][0]) for a in advs}
        ctx.require(len(persistent & set(cursors)) == 2 or not cursors_here, 'format_data: the two persistent iovec cursors were not found')
        for cvar, arrs in sorted(cursors.items()):
            if cvar not in persistent:
                continue   # plain loop counters (e.g. summing the lengths) may visit both arrays
            bad_x = next((x for arr in arrs for idxs, x in use[arr] if cvar in idxs), None)
            ctx.check(len(arrs) == 1, R, 'iovec-cursor|single-array|' + str(cvar), bad_x or D, 'cursor %s walks %s only' % (cvar, sorted(arrs)), 'cursor `%s` indexes both %s' % (cvar, sorted(arrs)))
        # within one statement an element of array A is combined only with A's own byte cursor
        byte_cur = {}
        for wl in [x for x in walk(dbody) if x.get('kind') == 'WhileStmt']:
            r = relation(while_parts(wl)[0], True)
            if r and r[1] == '>=' and 'iov_len' in canon(r[2]) and ref_decl(r[0]):
                arr = next(((ref_decl(y['inner'][0]) or {}).get('name') for y in walk(r[2]) if y.get('kind') == 'ArraySubscriptExpr'), None)
                if arr:
                    byte_cur[ref_decl(r[0]).get('name')] = arr
        for x in walk(dbody):
            if x.get('kind') == 'ArraySubscriptExpr' and (ref_decl(x['inner'][0]) or {}).get('name') in use:
                arr = ref_decl(x['inner'][0]).get('name')
                st_ = containing_statement(x)
                if st_ is None or st_.get('kind') in ('WhileStmt', 'ForStmt', 'IfStmt', 'CompoundStmt'):
                    continue
                others = {(ref_decl(y) or {}).get('name') for y in walk(st_) if y.get('kind') == 'DeclRefExpr'} & set(byte_cur)
                wrong = [o for o in others if byte_cur[o] != arr]
                if others:
                    ctx.check(not wrong, R, 'iovec-cursor|byte-offset|%s@%s' % (arr, st_.get('_line')), x, '%s element used with its own byte cursor' % arr, '%s[] element combined with the byte cursor %s of the other buffer' % (arr, wrong))
        hexf = [string_lit(call_args(c)[0]) for c in walk(dbody) if c.get('kind') == 'CallExpr' and call_name(c) == 'string_printf' and string_lit(call_args(c)[0]) in (b' %02hhX', b' %02X')]
        ctx.check(len(hexf) == 1, R, 'hex-column', D, 'each byte is printed as " %02X"', 'hex column format changed')
        asc = [x for x in walk(dbody) if x.get('kind') == 'IfStmt' and nf(if_parts(x)[0]) in ('((current_value < 32) || (127 <= current_value))', '((current_value < 32) || (current_value >= 127))')]
        ctx.check(len(asc) == 1, R, 'ascii-column', D, 'bytes outside 0x20..0x7E are shown as a blank', 'ASCII column predicate changed')
        # pointer/count pairing in the forwarding overloads: a count handed over next to X.data() is
        # X.size() of the same container (a count taken from the other buffer walks off the shorter one)
        import re as _re
        from guard import subst_locals
        n_pairs = 0
        for f in u.functions:
            if f.get('name') not in ('format_data', 'print_data') or body_of(f) is None:
                continue
            for c in walk(body_of(f)):
                if c.get('kind') != 'CallExpr' or call_name(c) not in ('format_data', 'print_data'):
                    continue
                a = call_args(c)
                for i_ in range(len(a) - 1):
                    ptr = subst_locals(canon(a[i_]), c)
                    holders = set(_re.findall(r'([A-Za-z_][\w.]*?)\.data\(\)', ptr))
                    if not holders or 'vector' not in ''.join(dtype(member_call_object(x)) or '' for x in walk_deep(a[i_], u) if x.get('kind') == 'CXXMemberCallExpr' and call_name(x) == 'data') + ''.join((dtype(member_call_object(x)) or '') for v_ in walk(body_of(f)) if v_.get('kind') == 'VarDecl' and v_.get('name') and v_['name'] in canon(a[i_]) for x in walk(v_) if x.get('kind') == 'CXXMemberCallExpr' and call_name(x) == 'data'):
                        continue
                    cnt = subst_locals(canon(a[i_ + 1]), c)
                    sizes = set(_re.findall(r'([A-Za-z_][\w.]*?)\.size\(\)', cnt))
                    n_pairs += 1
                    ctx.check(sizes == holders, R, 'pairing|%s@%s|arg%d' % (f.get('name'), c.get('_line'), i_), c, 'count %s belongs to %s' % (cnt, ptr),
                              'the element count passed next to %s is %s: it is not the size of that container, so the callee walks %s with the length of another buffer' % (ptr, cnt, sorted(holders)))
        ctx.require(n_pairs >= 2, 'format_data/print_data forwarding overloads: no (data(), size()) argument pairs found')
    ctx.note('R1 is exhaustive over the bytes admitted by the printable predicate (%d of 256).' % len(admitted))
