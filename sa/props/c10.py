"""C10 - hash functions (decided part: published constants, round functions by truth
table, message schedules and rotations, Merkle-Damgard padding relations, renderings,
chaining shape).  Digest equality for all inputs is not decided."""
import math

from ast_ import *
from path import *
from bits import *
from props.c04 import ConstEval, enum_env, string_lit
from props.c09 import OvEval


def table_values(vd):
    il = [x for x in walk(vd) if x.get('kind') == 'InitListExpr']
    if not il:
        return None
    out = []
    for e in kids(il[0]):
        v = int_value(e)
        if v is None:
            return None
        out.append(v & 0xFFFFFFFF)
    return out


def primes(n):
    ps = []
    c = 2
    while len(ps) < n:
        if all(c % p for p in ps):
            ps.append(c)
        c += 1
    return ps


def iroot(n, k):
    lo, hi = 0, 1
    while hi ** k <= n:
        hi *= 2
    while lo < hi:
        mid = (lo + hi + 1) // 2
        if mid ** k <= n:
            lo = mid
        else:
            hi = mid - 1
    return lo


def frac_root_bits(p, k, bits=32):
    """first `bits` bits of the fractional part of p**(1/k)"""
    r = iroot(p << (k * bits), k)
    return r & ((1 << bits) - 1)


def crc_table():
    t = []
    for i in range(256):
        c = i
        for _ in range(8):
            c = (c >> 1) ^ 0xEDB88320 if c & 1 else c >> 1
        t.append(c)
    return t


def truth_table(I, expr, var_nodes_canon, width=32):
    """truth table of a bitwise expression over the given leaf expressions (canon strings)"""
    names = sorted(var_nodes_canon)
    rows = []
    ones = (1 << width) - 1
    for m in range(1 << len(names)):
        I.ov = {nm: (ones if (m >> i) & 1 else 0) for i, nm in enumerate(names)}
        v = bv_const(I.eval(expr, {}))
        if v is None:
            return None
        v &= ones
        if v not in (0, ones):
            return None
        rows.append(1 if v else 0)
    return names, rows


def tt_of(fn, n):
    return [1 if fn(*[(m >> i) & 1 for i in range(n)]) else 0 for m in range(1 << n)]


def leaves_of(expr):
    """canonical strings of the outermost variable references (locals, this->fields, array elements) in expr"""
    out = set()
    stack = [expr]
    while stack:
        x = stack.pop()
        k = x.get('kind')
        if k == 'ArraySubscriptExpr':
            out.add(canon(x))
            continue
        if k == 'MemberExpr':
            out.add(canon(x))
            continue
        if k == 'DeclRefExpr':
            rd = x.get('referencedDecl') or {}
            if rd.get('kind') in ('VarDecl', 'ParmVarDecl'):
                out.add(canon(x))
            continue
        if k == 'CallExpr':
            stack.extend(kids(x)[1:])
            continue
        stack.extend(kids(x))
    return out


def rot_amount(I, expr, var):
    """If expr is a 32-bit rotate-left of leaf `var` by r, return r (0..31); -1 for other lane maps."""
    I.ov = {}
    saved = I.eval

    def patched(n, e, depth=0):
        n0 = strip(n, casts=False)
        if n0.get('kind') in ('DeclRefExpr', 'ArraySubscriptExpr') and canon(n0) == var:
            return sym_bv('v', 32, False)
        return saved(n, e, depth)
    I.eval = patched
    try:
        v = I.eval(expr, {})
    finally:
        I.eval = saved
    v = I.cast(v, 'unsigned int')
    for r in range(32):
        if all(v.b[(i + r) % 32] == ('i', 'v', i) for i in range(32)):
            return r
    return -1


def run(ctx):
    ctx.rule('C10-R1', 'constants equal the published definitions (CRC-32 table from 0xEDB88320; MD5 sines and shifts; MD5/SHA-1/SHA-256 IVs; SHA-1 K; SHA-256 K; FNV offsets and primes), derived by the checker', 12)
    ctx.rule('C10-R2', 'round functions by truth table (MD5 F,G,H,I; SHA-1 Ch,Parity,Maj,Parity; SHA-256 Ch,Maj), message index schedules, rotation and shift amounts, schedule taps', 20)
    ctx.rule('C10-R3', 'padding: 0x80 first, extend to 0x40/0x80 decided on the size after the marker (> 0x38), 64-bit length = size<<3 at size()-8 (LE for MD5, BE for SHA), bulk loop while off+0x3F < size step 0x40, tail loop step 0x40', 18)
    ctx.rule('C10-R4', 'renderings: bin() little-endian words for MD5 / big-endian for SHA; hex() byte order consistent (bswap32 for MD5 only); 4/5/8 words', 6)
    ctx.rule('C10-R6', 'digests by evaluation (E-TABLE with a byte-level memory model): MD5 / SHA-1 / SHA-256 constructors, bin() and hex() folded on messages of every padding class (all lengths 0..130 in the thorough tier) and compared with python hashlib; crc32 / fnv1a32 / fnv1a64 values and chaining against zlib / the definition', 6)
    ctx.rule('C10-R5', 'chaining: crc32 inverts the seed on entry and the state on every return; loop step (cs>>8)^table[(uint8_t)(cs^byte)]; fnv1a per byte xor-then-multiply on unsigned bytes; string overloads forward', 7)
    u = ctx.unit(repo_unit('Hash.cc'))
    I = OvEval(u, enum_env(u))

    def var(name, scope=None):
        for v in (walk(scope) if scope is not None else u.by_id.values()):
            if v.get('kind') == 'VarDecl' and v.get('name') == name and (scope is not None or True):
                if kids(v):
                    return v
        return None

    # ---------------- R6: digests by evaluation (E-TABLE with a byte-level memory model): the
    # constructors, bin() and hex() of MD5 / SHA-1 / SHA-256 are folded on messages of every padding
    # class and compared with python's hashlib; crc32 / fnv1a with zlib and the definition
    R = 'C10-R6'
    import hashlib as _hl
    import zlib as _zl
    from peval import PEval as _PE, Rec as _Rec, Arr as _Arr, Lit as _Lit, Str as _Str, Undecided as _PU, Fault as _PF, Thrown as _PT
    P6 = _PE([u], max_depth=10, max_iter=200000)
    lens = [0, 1, 3, 55, 56, 63, 64, 65, 119, 120, 128] if ctx.tier != 'thorough' else list(range(0, 131)) + [191, 192, 193, 255, 256, 257]
    r6_all = True
    for cls, ref in (('MD5', _hl.md5), ('SHA1', _hl.sha1), ('SHA256', _hl.sha256)):
        ct = [f for f in u.func('phosg::%s::%s' % (cls, cls)) if len(params_of(f)) == 2 and body_of(f) is not None]
        bf = [f for f in u.func('phosg::%s::bin' % cls) if body_of(f) is not None]
        hf = [f for f in u.func('phosg::%s::hex' % cls) if body_of(f) is not None]
        ctx.require(len(ct) == 1 and len(bf) == 1 and len(hf) == 1, '%s constructor / bin / hex not found' % cls)
        ok_, bad_, und_ = 0, None, None
        for n_ in lens:
            for pat in ((7, 3), (0, 0)) if n_ in (64,) or ctx.tier == 'thorough' else ((7, 3),):
                msg = bytes((i_ * pat[0] + pat[1]) & 0xFF for i_ in range(n_))
                this = _Rec()
                if cls == 'MD5':
                    for k_ in ('a0', 'b0', 'c0', 'd0'):
                        this.f[k_] = 0
                else:
                    this.f['h'] = _Arr([0] * (5 if cls == 'SHA1' else 8), 4, False)
                try:
                    P6.call_with(ct[0], [_Lit(msg), n_], this=this)
                    b_ = P6.call_with(bf[0], [], this=this)
                    h_ = P6.call_with(hf[0], [], this=this)
                except (_PT, _PF) as e_:
                    bad_ = bad_ or ('a %d-byte message' % n_, 'evaluation throws / faults: %s' % e_)
                    continue
                except _PU as e_:
                    und_ = str(e_)
                    break
                want = ref(msg)
                # the std::string constructor must produce the same state
                for sc_ in [f for f in u.func('phosg::%s::%s' % (cls, cls)) if len(params_of(f)) == 1 and body_of(f) is not None and 'string' in (dtype(params_of(f)[0]) or qtype(params_of(f)[0]) or '')]:
                    this2 = _Rec()
                    if cls == 'MD5':
                        for k_ in ('a0', 'b0', 'c0', 'd0'):
                            this2.f[k_] = 0
                    else:
                        this2.f['h'] = _Arr([0] * (5 if cls == 'SHA1' else 8), 4, False)
                    try:
                        P6.call_with(sc_, [_Str(msg)], this=this2)
                        b2_ = P6.call_with(bf[0], [], this=this2)
                    except (_PT, _PF) as e_:
                        bad_ = bad_ or ('a %d-byte message' % n_, 'the std::string constructor throws / faults: %s' % e_)
                        continue
                    except _PU as e_:
                        und_ = str(e_)
                        break
                    if not isinstance(b2_, _Str) or bytes(b2_.b) != want.digest():
                        bad_ = bad_ or ('a %d-byte message' % n_, 'the std::string constructor gives %s; the %s digest is %s' % (bytes(b2_.b).hex() if isinstance(b2_, _Str) else None, cls, want.hexdigest()))
                gb = bytes(b_.b) if isinstance(b_, _Str) else None
                gh = bytes(h_.b).decode('latin1') if isinstance(h_, _Str) else None
                if gb != want.digest():
                    bad_ = bad_ or ('a %d-byte message' % n_, 'bin() is %s (%d bytes); the %s digest is %s' % (gb.hex() if gb is not None else None, len(gb or b''), cls, want.hexdigest()))
                elif gh is None or gh.upper() != want.hexdigest().upper() or len(gh) != 2 * want.digest_size:
                    bad_ = bad_ or ('a %d-byte message' % n_, 'hex() is %r; the %s digest is %s' % (gh, cls, want.hexdigest().upper()))
                else:
                    ok_ += 1
            if und_:
                break
        if und_:
            ctx.undecided(R, cls + '|digest', ct[0], '%s could not be evaluated (%s)' % (cls, und_))
            r6_all = False
        elif bad_:
            ctx.bad(R, cls + '|digest', ct[0], '%s of %s: %s' % (cls, bad_[0], bad_[1]))
            r6_all = False
        else:
            ctx.ok(R, cls + '|digest', ct[0], '%d messages covering every padding class (lengths around 0, 55/56, 63/64/65, 119/120, 127/128): bin() and hex() equal hashlib' % ok_)
    # crc32 / fnv1a: values and chaining
    def _fnv(data, h, prime, bits):
        for b_ in data:
            h = ((h ^ b_) * prime) & ((1 << bits) - 1)
        return h
    for nm, reff, bits in (('crc32', lambda d_, s_: _zl.crc32(d_, s_), 32), ('fnv1a32', lambda d_, s_: _fnv(d_, s_, 0x01000193, 32), 32), ('fnv1a64', lambda d_, s_: _fnv(d_, s_, 0x100000001B3, 64), 64)):
        fs_ = [f for f in u.func('phosg::' + nm) if len(params_of(f)) == 3 and body_of(f) is not None]
        if not fs_:
            continue
        seeds = [0, 1, 0xFFFFFFFF, 0xDEADBEEF] if nm == 'crc32' else [0x811C9DC5 if bits == 32 else 0xCBF29CE484222325, 0, 1]
        ok_, bad_, und_ = 0, None, None
        for n_ in (list(range(0, 20)) + [63, 64, 65, 255, 256, 300] if ctx.tier == 'thorough' else list(range(0, 10)) + [16, 17, 64, 65]):
            msg = bytes((i_ * 13 + 5) & 0xFF for i_ in range(n_))
            for sd in seeds:
                try:
                    got = P6.call_with(fs_[0], [_Lit(msg), n_, sd])
                    k_ = n_ // 2
                    part = P6.call_with(fs_[0], [_Lit(msg[k_:]), n_ - k_, P6.call_with(fs_[0], [_Lit(msg[:k_]), k_, sd])])
                except (_PT, _PF) as e_:
                    bad_ = bad_ or (n_, sd, 'evaluation throws / faults: %s' % e_)
                    continue
                except _PU as e_:
                    und_ = str(e_)
                    break
                want = reff(msg, sd) & ((1 << bits) - 1)
                # the std::string overload must give the same value (bytes >= 0x80 included)
                for so_ in [f for f in u.func('phosg::' + nm) if len(params_of(f)) == 2 and body_of(f) is not None]:
                    try:
                        gs_ = P6.call_with(so_, [_Str(msg), sd])
                    except (_PT, _PF) as e_:
                        gs_ = 'throws / faults: %s' % e_
                    except _PU as e_:
                        und_ = str(e_)
                        break
                    if gs_ != want:
                        bad_ = bad_ or (n_, sd, 'the std::string overload gives %s, the definition gives 0x%X' % (('0x%X' % gs_) if isinstance(gs_, int) else gs_, want))
                if got != want:
                    bad_ = bad_ or (n_, sd, 'the result is 0x%X, the definition gives 0x%X' % (got if isinstance(got, int) else -1, want))
                elif part != want:
                    bad_ = bad_ or (n_, sd, 'hashing the two halves in sequence gives 0x%X, the whole gives 0x%X' % (part if isinstance(part, int) else -1, want))
                else:
                    ok_ += 1
            if und_:
                break
        if und_:
            ctx.undecided(R, nm + '|value', fs_[0], '%s could not be evaluated (%s)' % (nm, und_))
            r6_all = False
        elif bad_:
            ctx.bad(R, nm + '|value', fs_[0], '%s of a %d-byte message with seed 0x%X: %s' % (nm, bad_[0], bad_[1], bad_[2]))
            r6_all = False
        else:
            ctx.ok(R, nm + '|value', fs_[0], '%d (message, seed) pairs: value and chaining equal the definition' % ok_)
    if r6_all:
        ctx.defer({'C10-R1', 'C10-R2', 'C10-R3', 'C10-R4', 'C10-R5'}, 'C10-R6')

    # ---------------- R1
    with ctx.section('C10-R1', 'Hash.cc'):
        R = 'C10-R1'
        t = var('crc32_table')
        ctx.require(t is not None, 'crc32_table not found')
        tv = table_values(t)
        want = crc_table()
        bad = [i for i in range(256) if tv is None or i >= len(tv) or tv[i] != want[i]]
        ctx.check(tv is not None and len(tv) == 256 and not bad, R, 'crc32_table', t, '256 entries equal the table of the reflected polynomial 0xEDB88320', 'crc32_table differs from the polynomial 0xEDB88320 at entries %s' % bad[:5])
        md5 = [f for f in u.func('phosg::MD5::MD5') if len(params_of(f)) == 2][0]
        sha1 = [f for f in u.func('phosg::SHA1::SHA1') if len(params_of(f)) == 2][0]
        sha256 = [f for f in u.func('phosg::SHA256::SHA256') if len(params_of(f)) == 2][0]
        for f in (md5, sha1, sha256):
            ctx.fn(u.qualname(f))
        sines = table_values(var('sine_table', md5))
        wsin = [int(abs(math.sin(i + 1)) * (1 << 32)) & 0xFFFFFFFF for i in range(64)]
        bad = [i for i in range(64) if sines is None or i >= len(sines) or sines[i] != wsin[i]]
        ctx.check(not bad, R, 'md5|sine_table', md5, 'floor(2^32 |sin(i+1)|)', 'MD5 sine table differs at %s' % bad[:5])
        shifts = table_values(var('shifts', md5))
        wsh = [7, 12, 17, 22] * 4 + [5, 9, 14, 20] * 4 + [4, 11, 16, 23] * 4 + [6, 10, 15, 21] * 4
        ctx.check(shifts == wsh, R, 'md5|shifts', md5, 'per-round shift amounts', 'MD5 shift table is %s' % shifts)

        def iv_of(f, names):
            out = []
            for nm in names:
                a = [x for x in walk(body_of(f)) if x.get('kind') == 'BinaryOperator' and x.get('opcode') == '=' and canon(x['inner'][0]) == nm and int_value(x['inner'][1]) is not None]
                out.append(int_value(a[0]['inner'][1]) & 0xFFFFFFFF if a else None)
            return out
        iv4 = [0x67452301, 0xEFCDAB89, 0x98BADCFE, 0x10325476]
        ctx.check(iv_of(md5, ['this.a0', 'this.b0', 'this.c0', 'this.d0']) == iv4, R, 'md5|iv', md5, 'MD5 IV', 'MD5 IV is %s' % [hex(x) if x is not None else None for x in iv_of(md5, ['this.a0', 'this.b0', 'this.c0', 'this.d0'])])
        ctx.check(iv_of(sha1, ['this.h[%d]' % i for i in range(5)]) == iv4 + [0xC3D2E1F0], R, 'sha1|iv', sha1, 'SHA-1 IV', 'SHA-1 IV differs')
        ps = primes(64)
        w256iv = [frac_root_bits(p, 2) for p in ps[:8]]
        ctx.check(iv_of(sha256, ['this.h[%d]' % i for i in range(8)]) == w256iv, R, 'sha256|iv', sha256, 'fractional parts of sqrt of the first 8 primes', 'SHA-256 IV differs from the square roots of the first 8 primes')
        k256 = table_values(var('k', sha256))
        wk = [frac_root_bits(p, 3) for p in ps]
        bad = [i for i in range(64) if k256 is None or i >= len(k256) or k256[i] != wk[i]]
        ctx.check(not bad, R, 'sha256|k', sha256, 'fractional parts of cube roots of the first 64 primes', 'SHA-256 K differs at %s' % bad[:5])
        k1 = sorted({int_value(x['inner'][1]) & 0xFFFFFFFF for x in walk(body_of(sha1)) if x.get('kind') == 'BinaryOperator' and x.get('opcode') == '=' and canon(x['inner'][0]) == 'k' and int_value(x['inner'][1]) is not None})
        wk1 = sorted(iroot(n << 60, 2) & 0xFFFFFFFF for n in (2, 3, 5, 10))
        ctx.check(k1 == wk1, R, 'sha1|k', sha1, 'floor(2^30 sqrt(2,3,5,10))', 'SHA-1 K constants are %s' % [hex(x) for x in k1])
        fn32 = [f for f in u.func('phosg::fnv1a32') if len(params_of(f)) == 3][0]
        fn64 = [f for f in u.func('phosg::fnv1a64') if len(params_of(f)) == 3][0]
        for f, prime, off, nm in ((fn32, 0x01000193, 0x811C9DC5, 'fnv1a32'), (fn64, 0x00000100000001B3, 0xCBF29CE484222325, 'fnv1a64')):
            ctx.fn('phosg::' + nm)
            muls = [int_value(x['inner'][1]) for x in walk_deep(body_of(f), u) if x.get('kind') in ('BinaryOperator', 'CompoundAssignOperator') and x.get('opcode') in ('*', '*=')]
            # (the multiplier's position in the computation is decided by R5; here only the constant, when it is spelled in the function)
            if muls:
                ctx.check(all(m == prime for m in muls), R, nm + '|prime', f, 'FNV prime', '%s multiplies by %s' % (nm, [hex(m) if m is not None else None for m in muls]))
            else:
                ctx.ok(R, nm + '|prime', f, 'the multiplier is not spelled as a literal here; its value is checked by R5', nontrivial=False)
            sv = next((v for v in u.by_id.values() if v.get('kind') == 'VarDecl' and v.get('name') == nm.upper() + '_START'), None)
            val = None
            if sv is not None:
                for x in walk(sv):
                    if x is not sv and int_value(x) is not None:
                        val = int_value(x) & ((1 << 64) - 1)
                        break
            ctx.check(val == off, R, nm + '|offset-basis', sv or f, 'FNV offset basis', '%s offset basis is %s' % (nm, hex(val) if val is not None else None))

    # ---------------- R2
    with ctx.section('C10-R2', 'Hash.cc'):
        R = 'C10-R2'
        F_ = lambda b, c, d: (b & c) | ((1 - b) & d)
        G_ = lambda b, c, d: (b & d) | (c & (1 - d))
        H_ = lambda b, c, d: b ^ c ^ d
        I_ = lambda b, c, d: c ^ (b | (1 - d))
        MAJ = lambda b, c, d: (b & c) | (b & d) | (c & d)

        def round_chain(f, kind_var='f'):
            """[(upper bound, f-expr, other assignments)] from the `if (x < N)` chain inside the round loop"""
            out = []
            for lp in walk(body_of(f)):
                if lp.get('kind') == 'ForStmt':
                    for s in stmts_of(loop_body(lp)):
                        if s.get('kind') == 'IfStmt':
                            st = s
                            res = []
                            while st is not None and st.get('kind') == 'IfStmt':
                                cond, then, els = if_parts(st)
                                r = relation(cond, True)
                                ub = int_value(r[2]) if r and r[1] == '<' else None
                                res.append((ub, then))
                                st = els
                            if st is not None:
                                res.append((None, st))
                            if len(res) == 4 and any(x.get('kind') == 'BinaryOperator' and canon(x['inner'][0]) == kind_var for x in walk(s)):
                                return lp, res
            return None, None
        lp, ch = round_chain(md5)
        if ch is None:
            ctx.undecided(R, 'md5|round', md5, 'the MD5 step is not written as an `if (x < 16) ... else if (x < 32) ...` chain assigning f and g: round functions, message schedule and rotation are not decided by this rule')
        else:
            ctx.check([c[0] for c in ch] == [16, 32, 48, None], R, 'md5|round-bounds', lp, 'rounds of 16', 'MD5 round boundaries are %s' % [c[0] for c in ch])
            for i, (spec, nm) in enumerate(((F_, 'F'), (G_, 'G'), (H_, 'H'), (I_, 'I'))):
                fa = [x for x in walk(ch[i][1]) if x.get('kind') == 'BinaryOperator' and x.get('opcode') == '=' and canon(x['inner'][0]) == 'f']
                tt = truth_table(I, fa[0]['inner'][1], {'b', 'c', 'd'}) if fa else None
                ctx.check(tt is not None and tt[1] == tt_of(spec, 3), R, 'md5|%s' % nm, fa[0] if fa else lp, 'round function %s by truth table' % nm, 'MD5 round function %s has truth table %s, expected %s' % (nm, tt[1] if tt else None, tt_of(spec, 3)))
            # message index schedule
            gbad = []
            for x in range(64):
                rnd = x // 16
                ga = [y for y in walk(ch[rnd][1]) if y.get('kind') == 'BinaryOperator' and y.get('opcode') == '=' and canon(y['inner'][0]) == 'g']
                I.ov = {'x': x}
                v = bv_const(I.eval(ga[0]['inner'][1], {})) if ga else None
                want_g = [x, (5 * x + 1) % 16, (3 * x + 5) % 16, (7 * x) % 16][rnd]
                if v is None or (v & 0xFFFFFFFF) != want_g:
                    gbad.append((x, v))
            ctx.check(not gbad, R, 'md5|message-index', lp, 'g = x, 5x+1, 3x+5, 7x (mod 16)', 'MD5 message index differs: %s' % gbad[:4])
            # rotation: b + rotl(b_addend, shifts[x])
            rot = [x for x in walk(loop_body(lp)) if x.get('kind') == 'BinaryOperator' and x.get('opcode') == '|' and 'shifts[x]' in canon(x)]
            okr = len(rot) == 1
            if okr:
                for s_ in (4, 7, 12, 17, 22, 23):
                    I.ov = {'shifts[x]': s_}
                    saved_ov = dict(I.ov)
                    r = rot_amount_with(I, rot[0], 'b_addend', saved_ov)
                    okr = okr and r == s_
            ctx.check(okr, R, 'md5|rotate', rot[0] if rot else lp, 'left rotation by shifts[x]', 'MD5 rotation is not rotl(b_addend, shifts[x])')
            taps = [canon(x) for x in walk(loop_body(lp)) if x.get('kind') == 'BinaryOperator' and x.get('opcode') == '=' and canon(x['inner'][0]) in ('a', 'b', 'c', 'd')]
        # SHA-1
        lp1, ch1 = round_chain(sha1)
        if ch1 is None:
            ctx.undecided(R, 'sha1|round', sha1, 'the SHA-1 step is not written as an `if (x < 20) ...` chain assigning f and k: round functions and constants are not decided by this rule')
        else:
            ctx.check([c[0] for c in ch1] == [20, 40, 60, None], R, 'sha1|round-bounds', lp1, 'rounds of 20', 'SHA-1 round boundaries are %s' % [c[0] for c in ch1])
            for i, (spec, nm) in enumerate(((F_, 'Ch'), (H_, 'Parity'), (MAJ, 'Maj'), (H_, 'Parity2'))):
                fa = [x for x in walk(ch1[i][1]) if x.get('kind') == 'BinaryOperator' and x.get('opcode') == '=' and canon(x['inner'][0]) == 'f']
                tt = truth_table(I, fa[0]['inner'][1], {'b', 'c', 'd'}) if fa else None
                ctx.check(tt is not None and tt[1] == tt_of(spec, 3), R, 'sha1|%s' % nm, fa[0] if fa else lp1, 'round function %s by truth table' % nm, 'SHA-1 round function %s has truth table %s' % (nm, tt[1] if tt else None))
                ka = [int_value(x['inner'][1]) & 0xFFFFFFFF for x in walk(ch1[i][1]) if x.get('kind') == 'BinaryOperator' and x.get('opcode') == '=' and canon(x['inner'][0]) == 'k']
                ctx.check(ka == [[0x5A827999, 0x6ED9EBA1, 0x8F1BBCDC, 0xCA62C1D6][i]], R, 'sha1|k-round-%d' % i, ch1[i][1], 'K for round %d' % i, 'SHA-1 round %d uses K=%s' % (i, [hex(k_) for k_ in ka]))
        rots = {}
        for x in walk(body_of(sha1)):
            if x.get('kind') == 'BinaryOperator' and x.get('opcode') == '|':
                p_ = x.get('_p')
                while p_ is not None and p_.get('kind') in TRANSPARENT | {'ImplicitCastExpr'}:
                    p_ = p_.get('_p')
                if p_ is not None and p_.get('kind') == 'BinaryOperator' and p_.get('opcode') == '|':
                    continue
                lv = sorted(leaves_of(x))
                if len(lv) == 1 and all(y.get('opcode') in ('|', '<<', '>>', '&') for y in walk(x) if y.get('kind') == 'BinaryOperator'):
                    rots[lv[0]] = rot_amount(I, x, lv[0])
        ctx.check(rots.get('a') == 5 and rots.get('b') == 30 and rots.get('z') == 1, R, 'sha1|rotations', sha1, 'rotl5(a), rotl30(b), rotl1(schedule)', 'SHA-1 rotations are %s' % rots)
        zd = var('z', sha1)
        tapsz = sorted(leaves_of(kids(zd)[-1])) if zd is not None else []
        ctx.check(tapsz == sorted('extended_fields[(x - %d)]' % t_ for t_ in (3, 8, 14, 16)), R, 'sha1|schedule-taps', zd or sha1, 'w[x-3]^w[x-8]^w[x-14]^w[x-16]', 'SHA-1 schedule taps are %s' % tapsz)
        # SHA-256
        def rr_amounts(vd):
            out = []
            for c in walk(vd):
                if c.get('kind') == 'CallExpr' and call_name(c) == 'rotate_right':
                    out.append(('rotr', canon(call_args(c)[0]), int_value(call_args(c)[1])))
                if c.get('kind') == 'BinaryOperator' and c.get('opcode') == '>>' and int_value(c['inner'][1]) is not None and 'rotate_right' not in canon(c):
                    out.append(('shr', canon(c['inner'][0]), int_value(c['inner'][1])))
            return sorted(out)
        rr = [f for f in u.functions if f.get('name') == 'rotate_right']
        ctx.require(len(rr) == 1, 'rotate_right not found')
        okrr = True
        for bits in (2, 6, 7, 11, 13, 17, 18, 19, 22, 25):
            ps_ = params_of(rr[0])
            v = I.eval_function(rr[0], {ps_[0]['id']: sym_bv('v', 32, False), ps_[1]['id']: const_bv(bits, 8)})
            okrr = okrr and v is not None and all(I.cast(v, 'unsigned int').b[i] == ('i', 'v', (i + bits) % 32) for i in range(32))
        ctx.check(okrr, R, 'sha256|rotate_right', rr[0], 'rotate_right(x, n) is a 32-bit right rotation', 'rotate_right is not a right rotation')
        sched_loop = None
        round_loop = None
        for lp_ in walk(body_of(sha256)):
            if lp_.get('kind') == 'ForStmt':
                names = {v.get('name') for v in walk(loop_body(lp_)) if v.get('kind') == 'VarDecl'}
                if names == {'s0', 's1'}:
                    sched_loop = lp_
                if {'temp1', 'temp2'} <= names:
                    round_loop = lp_
        ctx.need(sched_loop is not None and round_loop is not None, 'SHA-256 loops not found')
        s0 = rr_amounts(var('s0', sched_loop))
        s1 = rr_amounts(var('s1', sched_loop))
        ctx.check(s0 == sorted([('rotr', 'w[(x - 15)]', 7), ('rotr', 'w[(x - 15)]', 18), ('shr', 'w[(x - 15)]', 3)]), R, 'sha256|sigma0', sched_loop, 'rotr7^rotr18^shr3 of w[x-15]', 'SHA-256 sigma0 is %s' % s0)
        ctx.check(s1 == sorted([('rotr', 'w[(x - 2)]', 17), ('rotr', 'w[(x - 2)]', 19), ('shr', 'w[(x - 2)]', 10)]), R, 'sha256|sigma1', sched_loop, 'rotr17^rotr19^shr10 of w[x-2]', 'SHA-256 sigma1 is %s' % s1)
        wa = [x for x in walk(loop_body(sched_loop)) if x.get('kind') == 'BinaryOperator' and x.get('opcode') == '=' and canon(x['inner'][0]) == 'w[x]']
        ctx.check(len(wa) == 1 and nf(wa[0]['inner'][1]) == '(s0 + s1 + w[(x - 16)] + w[(x - 7)])', R,
                  'sha256|schedule', sched_loop, 'w[x] = w[x-16] + s0 + w[x-7] + s1', 'SHA-256 schedule is %s' % (canon(wa[0]['inner'][1]) if wa else None))
        S1 = rr_amounts(var('s1', round_loop))
        S0 = rr_amounts(var('s0', round_loop))
        ctx.check(S1 == sorted(('rotr', 'z[4]', n_) for n_ in (6, 11, 25)) and S0 == sorted(('rotr', 'z[0]', n_) for n_ in (2, 13, 22)), R, 'sha256|Sigma', round_loop, 'Sigma1 = rotr 6,11,25 of e; Sigma0 = rotr 2,13,22 of a', 'SHA-256 Sigma functions are %s / %s' % (S1, S0))

        def bitwise_sub(vd, leafset):
            best = None
            for x in walk(vd):
                if x.get('kind') in ('BinaryOperator',) and x.get('opcode') in ('&', '|', '^') and leaves_of(x) == leafset:
                    if best is None or (x.get('_end', 0) - x.get('_off', 0)) > (best.get('_end', 0) - best.get('_off', 0)):
                        best = x
            return best
        t1, t2 = var('temp1', round_loop), var('temp2', round_loop)
        chx = bitwise_sub(t1, {'z[4]', 'z[5]', 'z[6]'})
        mjx = bitwise_sub(t2, {'z[0]', 'z[1]', 'z[2]'})
        tt = truth_table(I, chx, {'z[4]', 'z[5]', 'z[6]'}) if chx is not None else None
        ctx.check(tt is not None and tt[1] == tt_of(F_, 3), R, 'sha256|Ch', chx or t1, 'Ch(e,f,g) by truth table', 'SHA-256 Ch has truth table %s' % (tt[1] if tt else None))
        tt = truth_table(I, mjx, {'z[0]', 'z[1]', 'z[2]'}) if mjx is not None else None
        ctx.check(tt is not None and tt[1] == tt_of(MAJ, 3), R, 'sha256|Maj', mjx or t2, 'Maj(a,b,c) by truth table', 'SHA-256 Maj has truth table %s' % (tt[1] if tt else None))
        lt1 = sorted(l for l in leaves_of(kids(t1)[-1]) if l not in ('z[4]', 'z[5]', 'z[6]'))
        ctx.check(lt1 == sorted(['z[7]', 's1', 'k[x]', 'w[x]']), R, 'sha256|temp1-terms', t1, 'temp1 = h + Sigma1 + Ch + k[x] + w[x]', 'temp1 adds %s' % lt1)
        rot8 = sorted((canon(x['inner'][0]), nf(x['inner'][1])) for x in walk(loop_body(round_loop)) if x.get('kind') == 'BinaryOperator' and x.get('opcode') == '=' and canon(x['inner'][0]).startswith('z['))
        want8 = sorted([('z[7]', 'z[6]'), ('z[6]', 'z[5]'), ('z[5]', 'z[4]'), ('z[4]', '(temp1 + z[3])'), ('z[3]', 'z[2]'), ('z[2]', 'z[1]'), ('z[1]', 'z[0]'), ('z[0]', '(temp1 + temp2)')])
        ctx.check(rot8 == want8, R, 'sha256|state-rotation', round_loop, 'working variables shift down; e = d + temp1; a = temp1 + temp2', 'SHA-256 state update is %s' % rot8)

    # ---------------- R3
    with ctx.section('C10-R3', 'Hash.cc'):
        R = 'C10-R3'
        for f, nm, lenfn in ((md5, 'md5', 'pput_u64l'), (sha1, 'sha1', 'pput_u64b'), (sha256, 'sha256', 'pput_u64b')):
            body = body_of(f)
            calls = [c for c in walk(body) if c.get('kind') == 'CXXMemberCallExpr' and canon(member_call_object(c)) == 'w' and enclosing(c, ('LambdaExpr',)) is None]
            names = [call_name(c) for c in calls]
            mk = next((c for c in calls if call_name(c) == 'put_u8'), None)
            ex = next((c for c in calls if call_name(c) == 'extend_to'), None)
            ln = next((c for c in calls if (call_name(c) or '').startswith('pput_u64')), None)
            wr = next((c for c in calls if call_name(c) == 'write'), None)
            if not calls:
                # the padding is not built through a StringWriter `w` in this function (shared helper, other buffer type)
                ctx.undecided(R, nm + '|padding', f, 'the Merkle-Damgard padding of %s is not built with the StringWriter idiom this rule models (write / put_u8(0x80) / extend_to / pput_u64)' % nm)
                continue
            ok_order = mk is not None and ex is not None and ln is not None and wr is not None and wr['_off'] < mk['_off'] < ex['_off'] < ln['_off']
            ctx.check(ok_order and int_value(call_args(mk)[0]) == 0x80, R, nm + '|marker-first', mk or f, 'tail, then 0x80, then zero fill, then the length', 'padding order is %s' % names)
            okx = False
            why = 'extend_to argument not recognised'
            if ex is not None:
                a0 = strip(call_args(ex)[0])
                fill = int_value(call_args(ex)[1]) if len(call_args(ex)) > 1 and call_args(ex)[1].get('kind') != 'CXXDefaultArgExpr' else 0
                if a0.get('kind') == 'ConditionalOperator':
                    c_, a_, b_ = a0['inner'][:3]
                    r = relation(c_, True)
                    if r and int_value(a_) == 0x80 and int_value(b_) == 0x40 and fill == 0:
                        lhs = strip(r[0])
                        thr = int_value(r[2])
                        after = False
                        if lhs.get('kind') == 'CXXMemberCallExpr' and call_name(lhs) == 'size' and canon(member_call_object(lhs)) == 'w' and mk is not None:
                            after = lhs['_off'] > mk['_off']
                            src = 'w.size() evaluated %s the marker' % ('after' if after else 'before')
                        else:
                            rd = ref_decl(lhs)
                            vd = u.by_id.get(rd['id']) if rd else None
                            after = vd is not None and mk is not None and vd.get('_off', 0) > mk['_off'] and 'w.size()' in canon(kids(vd)[-1])
                            src = 'variable %s defined %s the marker is appended' % (canon(lhs), 'after' if after else 'before')
                        # size after marker: two blocks iff size_after > 0x38
                        need = 0x38 if after else 0x37
                        okx = (r[1] == '>' and thr == need) or (r[1] == '>=' and thr == need + 1)
                        why = 'the one-or-two-block decision compares %s with `%s 0x%X`; with the marker %s this must be `> 0x%X`: for len %% 64 == %d the length field overwrites the marker / a block is missing' % (src, r[1], thr, 'included' if after else 'not yet included', need, 56 if not after else 55)
            ctx.check(okx, R, nm + '|block-count-threshold', ex or f, 'extend to 0x80 iff size after the marker > 0x38, else 0x40, zero filled', why)
            okl = ln is not None and call_name(ln) == lenfn and nf(call_args(ln)[0]) == '(w.size() - 8)' and nf(call_args(ln)[1]) == '(size << 3)'
            ctx.check(okl, R, nm + '|length-field', ln or f, '%s(w.size() - 8, size << 3)' % lenfn, 'length field is written by %s(%s, %s); expected %s(w.size() - 8, size << 3)' % (call_name(ln) if ln else None, nf(call_args(ln)[0]) if ln else None, nf(call_args(ln)[1]) if ln else None, lenfn))
            def through_local(n):
                rd = ref_decl(n)
                vd = u.by_id.get(rd['id']) if rd and rd.get('kind') == 'VarDecl' else None
                if vd is not None and kids(vd) and not any(x.get('kind') in ('BinaryOperator', 'CompoundAssignOperator') and x.get('opcode') in ASSIGN_OPS and (ref_decl(x['inner'][0]) or {}).get('id') == vd['id'] for x in walk(body)):
                    return kids(vd)[-1]
                return n
            okw = wr is not None and nf(through_local(call_args(wr)[1])) == '(size - processed_offset)' and 'processed_offset' in nf(call_args(wr)[0]) and 'data' in nf(call_args(wr)[0])
            ctx.check(okw, R, nm + '|tail-copy', wr or f, 'tail = data[processed_offset, size)', 'tail copy is %s' % (canon(wr) if wr else None))
            loops = [lp_ for lp_ in walk(body) if lp_.get('kind') == 'ForStmt' and enclosing(lp_, ('LambdaExpr',)) is None]
            bulk = next((lp_ for lp_ in loops if 'processed_offset' in canon(for_parts(lp_)[2])), None)
            tail = next((lp_ for lp_ in loops if 'w.size()' in canon(for_parts(lp_)[2])), None)
            okb = bulk is not None and nf(for_parts(bulk)[2]) == '((63 + processed_offset) < size)' and nf(for_parts(bulk)[3]) == '(processed_offset += 64)' and nf(for_parts(bulk)[0]) == '(processed_offset = 0)'
            ctx.check(okb, R, nm + '|bulk-loop', bulk or f, 'whole blocks while off + 0x3F < size, step 0x40', 'bulk loop is `%s; %s`' % (nf(for_parts(bulk)[2]) if bulk else None, nf(for_parts(bulk)[3]) if bulk else None))
            okt = tail is not None and nf(for_parts(tail)[2]) == '(z < w.size())' and nf(for_parts(tail)[3]) == '(z += 64)'
            if okt:
                pc = [c for c in walk(loop_body(tail)) if c.get('kind') == 'CXXOperatorCallExpr']
                okt = any('(w.str().data() + z)' in nf(c) or '(z + w.str().data())' in nf(c) for c in pc)
            ctx.check(okt, R, nm + '|tail-loop', tail or f, 'every 0x40-byte block of the padded tail is processed', 'tail loop changed')

    # ---------------- R4
    with ctx.section('C10-R4', 'Hash.cc'):
        R = 'C10-R4'
        for cls, put, nwords, swap in (('MD5', 'put_u32l', 4, True), ('SHA1', 'put_u32b', 5, False), ('SHA256', 'put_u32b', 8, False)):
            b = u.func('phosg::%s::bin' % cls)[0]
            calls = [call_name(c) for c in walk(body_of(b)) if c.get('kind') == 'CXXMemberCallExpr' and canon(member_call_object(c)) == 'w' and (call_name(c) or '').startswith('put_')]
            args = [canon(call_args(c)[0]) for c in walk(body_of(b)) if c.get('kind') == 'CXXMemberCallExpr' and canon(member_call_object(c)) == 'w' and (call_name(c) or '').startswith('put_')]
            want_args = ['this.a0', 'this.b0', 'this.c0', 'this.d0'] if cls == 'MD5' else ['this.h[%d]' % i for i in range(nwords)]
            if args != want_args and not (calls and all(c_ == calls[0] for c_ in calls) and len(calls) == nwords):
                ctx.undecided(R, cls + '|bin', b, '%s::bin() does not write its words with %d explicit w.put_u32x(word) calls (loop or other buffer): byte order not decided by this rule' % (cls, nwords))
            else:
                ctx.check(calls == [put] * nwords and args == want_args, R, cls + '|bin', b, '%d words via %s in order' % (nwords, put), '%s::bin() writes %s of %s' % (cls, calls, args))
            h = u.func('phosg::%s::hex' % cls)[0]
            pc = [c for c in walk(body_of(h)) if c.get('kind') == 'CallExpr' and call_name(c) == 'string_printf']
            okh = len(pc) == 1
            if okh:
                fmt = string_lit(call_args(pc[0])[0])
                a = call_args(pc[0])[1:]
                swapped = [strip(x).get('kind') == 'CallExpr' and call_name(strip(x)) == 'bswap32' for x in a]
                inner = [canon(call_args(strip(x))[0]) if s_ else canon(x) for x, s_ in zip(a, swapped)]
                okh = fmt == b'%08X' * nwords and inner == want_args and all(s_ == swap for s_ in swapped)
            dd = [c for c in walk_deep(body_of(h), u) if c.get('kind') == 'CallExpr' and call_name(c) == 'format_data_string' and
                  not any((ref_decl(y_) or {}).get('name') in ('SKIP_STRINGS', 'HEX_ONLY') for a_ in call_args(c) for y_ in walk(a_))]
            if dd:
                ctx.bad(R, cls + '|hex', dd[0], '%s::hex() renders through format_data_string without SKIP_STRINGS: that formatter switches to a quoted-string form whenever every byte is printable, so some digests are not rendered as hex' % cls)
            elif len(pc) != 1 or string_lit(call_args(pc[0])[0]) != b'%08X' * nwords:
                # another form: decide it by constant evaluation (E-TABLE) on states whose words have
                # leading zero nybbles, are zero, or have the top bit set
                from peval import PEval, Rec, Lit as PLit, Str as PStr, Undecided as PUnd, Fault as PFault
                pool = [0x00000000, 0x00000001, 0x0ABCDEF0, 0xFFFFFFFF, 0x000A0B0C, 0x80000000, 0x12345678, 0x00F00F00]
                verdict = None
                for rot in range(3):
                    ws = [pool[(i_ * 3 + rot) % len(pool)] for i_ in range(nwords)]
                    this = Rec()
                    if cls == 'MD5':
                        for nm_, w_ in zip(('a0', 'b0', 'c0', 'd0'), ws):
                            this.f[nm_] = w_
                        want = ''.join('%08X' % int.from_bytes(w_.to_bytes(4, 'little'), 'big') for w_ in ws)
                    else:
                        this.f['h'] = PLit(list(ws))
                        want = ''.join('%08X' % w_ for w_ in ws)
                    pe = PEval([u], max_depth=8)
                    try:
                        got = pe.call_with(h, [], this=this)
                    except PUnd as e_:
                        verdict = ('undecided', str(e_))
                        break
                    except PFault as e_:
                        verdict = ('bad', 'evaluation faults: %s' % e_)
                        break
                    gb = bytes(got.b).decode('latin1') if isinstance(got, PStr) else None
                    if gb != want:
                        verdict = ('bad', 'for the state %s it renders %r; the digest in hex is %r' % (['%08X' % w_ for w_ in ws], gb, want))
                        break
                if verdict is None:
                    ctx.ok(R, cls + '|hex', h, 'evaluated on 3 states with leading-zero / zero / top-bit words: %d x 8 hex digits in digest byte order' % nwords)
                elif verdict[0] == 'bad':
                    ctx.bad(R, cls + '|hex', h, '%s::hex(): %s' % (cls, verdict[1]))
                else:
                    ctx.undecided(R, cls + '|hex', h, '%s::hex() is not a single string_printf of %d %%08X fields and could not be evaluated (%s)' % (cls, nwords, verdict[1]))
            else:
                ctx.check(okh, R, cls + '|hex', h, '%d x %%08X, %s' % (nwords, 'byte-swapped words (little-endian digest)' if swap else 'words as stored (big-endian digest)'), '%s::hex() rendering changed (byte order of the words must match bin())' % cls)

    # ---------------- R5
    with ctx.section('C10-R5', 'Hash.cc'):
        R = 'C10-R5'
        # CRC-32 and FNV-1a are decided semantically: the function is executed abstractly on 0..3
        # symbolic input bytes and a symbolic seed (bit provenance with exact XOR combinations; table
        # lookups and the multiplication are uninterpreted operations keyed by their operands) and the
        # result must be, bit for bit, the expression the definition gives.  Loop form, helpers, early
        # returns for empty input, ~x versus x ^ 0xFFFFFFFF ... make no difference; the seed is symbolic,
        # so chaining (crc(b, crc(a)) = crc(ab)) is covered by the same comparison.
        X = BVExec(u)
        crc = [f for f in u.func('phosg::crc32') if len(params_of(f)) == 3][0]
        ctx.fn('phosg::crc32')
        tabv = next((v for v in u.by_id.values() if v.get('kind') == 'VarDecl' and v.get('name') == 'crc32_table' and kids(v)), None)
        ctx.require(tabv is not None, 'crc32_table not found')

        def mem_byte(i):
            return [('i', ('mem', 'D', '0', i), k) for k in range(8)]
        for n in range(0, 4):
            ps = params_of(crc)
            key = 'crc32|definition|%d-bytes' % n
            try:
                X.notes = []
                v = X.call(crc, [], {}, bound={ps[0]['id']: Ptr('D', '0', 0), ps[1]['id']: const_bv(n, 64), ps[2]['id']: sym_bv('cs', 32)})
            except Unsupported as e:
                ctx.undecided(R, key, crc, 'crc32 is outside the supported statement forms (%s)' % e)
                continue
            if not isinstance(v, BV):
                ctx.undecided(R, key, crc, 'crc32 does not evaluate to a value')
                continue
            st = [c_not(('i', 'cs', k)) for k in range(32)]
            for i in range(n):
                by = mem_byte(i)
                idx = tuple(c_xor(st[k], by[k]) for k in range(8))
                tab = [('i', ('tab', 'crc32_table', 0, idx), k) for k in range(32)]
                st = [c_xor(st[k + 8] if k + 8 < 32 else 0, tab[k]) for k in range(32)]
            want = [c_not(c) for c in st]
            bad = expect_lanes(BV(32, v.b[:32]), want)
            ctx.check(not bad, R, key, crc, 'crc32 of %d byte(s) with seed cs = ~step^%d(~cs), step(s, b) = (s >> 8) ^ table[(s ^ b) & 0xFF]' % (n, n),
                      'crc32 over %d byte(s) is not the table-driven CRC of the seed and the bytes: %s%s' % (n, describe_mismatch(bad, 2), ' (an empty chunk must return the seed unchanged)' if n == 0 else ''))
        for f, nm, W in ((fn32, 'fnv1a32', 32), (fn64, 'fnv1a64', 64)):
            ctx.fn('phosg::' + nm)
            prime = {32: 0x01000193, 64: 0x00000100000001B3}[W]
            for n in range(0, 4):
                ps = params_of(f)
                key = '%s|definition|%d-bytes' % (nm, n)
                try:
                    X.notes = []
                    v = X.call(f, [], {}, bound={ps[0]['id']: Ptr('D', '0', 0), ps[1]['id']: const_bv(n, 64), ps[2]['id']: sym_bv('hash', W)})
                except Unsupported as e:
                    ctx.undecided(R, key, f, '%s is outside the supported statement forms (%s)' % (nm, e))
                    continue
                if not isinstance(v, BV):
                    ctx.undecided(R, key, f, '%s does not evaluate to a value' % nm)
                    continue
                st = [('i', 'hash', k) for k in range(W)]
                for i in range(n):
                    by = mem_byte(i)
                    x_ = [c_xor(st[k], by[k] if k < 8 else 0) for k in range(W)]
                    st = u_op('mul', x_, const_bv(prime, W).b, W)
                bad = expect_lanes(BV(W, v.b[:W]), st)
                ctx.check(not bad, R, key, f, '%s of %d byte(s): hash = (hash ^ byte) * prime per byte, unsigned bytes, starting from the caller\'s hash' % (nm, n),
                          '%s over %d byte(s) is not ((hash ^ b0) * P ^ b1) * P ... with P = 0x%X and zero-extended bytes: %s%s' % (nm, n, prime, describe_mismatch(bad, 2), ' (an empty chunk must return the running hash unchanged)' if n == 0 else ''))
            so = [g for g in u.func('phosg::' + nm) if len(params_of(g)) == 2][0]
            calls = [c for c in walk(body_of(so)) if c.get('kind') == 'CallExpr']
            fwd = [c for c in calls if [nf(a_) for a_ in call_args(c)] == ['data.data()', 'data.size()', 'hash']]
            okf = len(fwd) == 1 and not any(x.get('kind') in LOOPS for x in walk(body_of(so)))
            if okf:
                # the callee must be (or forward to) a function with the definition above: evaluate it the same way on one byte
                d_ = callee_decl(fwd[0], u)
                g_ = None
                if d_ is not None:
                    g_ = d_ if body_of(d_) is not None else next((m for m in u.functions if m.get('mangledName') == d_.get('mangledName') and body_of(m) is not None), None)
                okf = g_ is not None and len(params_of(g_)) == 3
                if okf and g_ is not f:
                    try:
                        v = X.call(g_, [], {}, bound={params_of(g_)[0]['id']: Ptr('D', '0', 0), params_of(g_)[1]['id']: const_bv(1, 64), params_of(g_)[2]['id']: sym_bv('hash', W)})
                        x_ = [c_xor(('i', 'hash', k), mem_byte(0)[k] if k < 8 else 0) for k in range(W)]
                        okf = isinstance(v, BV) and not expect_lanes(BV(W, v.b[:W]), u_op('mul', x_, const_bv(prime, W).b, W))
                    except Unsupported:
                        okf = False
            ctx.check(okf, R, nm + '|string-overload-forwards', so, 'string overload = the byte-pointer computation on (data(), size(), hash)', 'the std::string overload of %s does not forward (data(), size(), hash) to the byte-pointer computation (its own loop over `char` sign-extends bytes >= 0x80)' % nm)
    ctx.note('Not decided: digest equality for all inputs (the block functions\' full data flow).')


def rot_amount_with(I, expr, var, ov):
    saved = I.eval

    def patched(n, e, depth=0):
        n0 = strip(n, casts=False)
        if n0.get('kind') in ('DeclRefExpr', 'ArraySubscriptExpr') and canon(n0) == var:
            return sym_bv('v', 32, False)
        return saved(n, e, depth)
    I.ov = dict(ov)
    I.eval = patched
    try:
        v = I.eval(expr, {})
    finally:
        I.eval = saved
    v = I.cast(v, 'unsigned int')
    for r in range(32):
        if all(v.b[(i + r) % 32] == ('i', 'v', i) for i in range(32)):
            return r
    return -1
