"""C16 - parallel_range (decided part: the shape the exactly-once argument needs:
values below end are issued only as the result of one atomic read-modify-write on the
shared cursor, the callback runs only on an issued value strictly below end, the result
is written unconditionally when the callback returns true, shared objects are atomics,
every worker is joined, per-thread result sets are all merged).  The interleaving
semantics themselves come from the C++ memory model and are not re-derived."""
from ast_ import *
from path import *

ATOMIC_OK = {'fetch_add', 'store', 'operator=', 'load', 'operator unsigned long', 'operator unsigned int', 'compare_exchange_weak', 'compare_exchange_strong'}


def targs(f):
    return [c['type']['qualType'] for c in kids(f) if c.get('kind') == 'TemplateArgument' and 'type' in c]


def atomic_ops(body, pid):
    """(op name, node) for every use of the atomic parameter pid"""
    out = []
    seen_at = set()
    for x in walk(body):
        if x.get('kind') == 'DeclRefExpr' and (x.get('referencedDecl') or {}).get('id') == pid:
            p = x.get('_p')
            if p is not None and p.get('kind') == 'LambdaExpr':
                continue      # a by-reference capture: the uses inside the lambda body are what counts
            # the dump shows a lambda body twice (closure operator() and the expression's own copy)
            at = (x.get('_off'), x.get('_line'), x.get('_col'))
            if at in seen_at and enclosing(x, ('LambdaExpr',)) is not None:
                continue
            seen_at.add(at)
            while p is not None and p.get('kind') in TRANSPARENT | {'ImplicitCastExpr'}:
                p = p.get('_p')
            if p is None:
                out.append(('?', x))
            elif p.get('kind') == 'MemberExpr':
                call = p.get('_p')
                out.append((p.get('name'), call if call is not None and call.get('kind') == 'CXXMemberCallExpr' else p))
            elif p.get('kind') == 'CXXOperatorCallExpr':
                out.append((call_name(p), p))
            elif p.get('kind') == 'CXXMemberCallExpr':
                out.append((call_name(p), p))
            else:
                out.append((p.get('kind'), p))
    return out


def check_worker(ctx, u, f, lab, blocked):
    R1, R2 = 'C16-R1', 'C16-R2'
    ctx.fn(lab)
    check_no_goto(f)
    ps = {p['name']: p for p in params_of(f)}
    for need in ('fn', 'current_value', 'result_value', 'end_value', 'thread_num'):
        if need not in ps:
            raise AnalysisBroken('%s: parameter %s not found' % (lab, need))
    body = body_of(f)
    cur, res, end, fnp = ps['current_value'], ps['result_value'], ps['end_value'], ps['fn']
    ctx.check('std::atomic<' in (qtype(cur) or '') and 'std::atomic<' in (qtype(res) or '') and (qtype(cur) or '').rstrip().endswith('&'), 'C16-R3', lab + '|shared-are-atomics', f, 'cursor and result are std::atomic references', 'the shared cursor/result are %s / %s' % (qtype(cur), qtype(res)))
    ops = atomic_ops(body, cur['id'])
    badops = [(n, x) for n, x in ops if n not in ATOMIC_OK]
    ctx.check(not badops, R1, lab + '|cursor-ops', badops[0][1] if badops else f, 'cursor touched only by %s' % sorted({n for n, _ in ops}), 'the shared cursor is used through `%s`: only fetch_add (claim) and a store of end_value (stop) keep issued values unique' % (badops[0][0] if badops else ''))
    claims = [x for n, x in ops if n == 'fetch_add']
    cas = [x for n, x in ops if n.startswith('compare_exchange')]
    ctx.check(len(claims) == 1 or (not claims and len(cas) >= 1), R1, lab + '|single-claim-site', claims[0] if claims else f, 'one atomic read-modify-write claims work', 'work is claimed at %d fetch_add site(s) and %d CAS site(s)' % (len(claims), len(cas)))
    claimed = None
    if claims:
        c = claims[0]
        step = call_args(c)[0]
        sv = int_value(step)
        ok_step = (sv is not None and sv > 0 and not blocked) or (blocked and nf(step) == 'block_size')
        ctx.check(ok_step, R1, lab + '|claim-step', c, 'cursor advanced by %s per claim' % nf(step), 'cursor is advanced by %s per claim' % nf(step))
        p = c.get('_p')
        while p is not None and p.get('kind') in TRANSPARENT | {'ImplicitCastExpr'}:
            p = p.get('_p')
        if p is not None and p.get('kind') == 'BinaryOperator' and p.get('opcode') == '=':
            claimed = ref_decl(p['inner'][0])
        elif p is not None and p.get('kind') == 'VarDecl':
            claimed = p
    else:
        a0 = call_args(cas[0])[0]
        claimed = ref_decl(a0)
    ctx.check(claimed is not None, R1, lab + '|claimed-value-kept', claims[0] if claims else f, 'the value returned by the atomic claim is the claimed index', 'the result of the atomic claim is discarded: the index used afterwards is not the one this thread was issued')
    if claimed is None:
        return
    cid = claimed.get('id')
    # stores to the cursor: only end_value
    stores = [x for n, x in ops if n in ('operator=', 'store')]
    for i, s in enumerate(stores):
        val = s['inner'][2] if s.get('kind') == 'CXXOperatorCallExpr' else call_args(s)[0]
        ctx.check((ref_decl(val) or {}).get('id') == end['id'], R1, lab + '|cursor-store#%d' % i, s, 'the only plain store moves the cursor to end_value', 'the cursor is overwritten with %s: it can move below a value already issued (duplicates) or skip work' % nf(val))
    # callback invocations
    calls = [c for c in walk(body) if c.get('kind') == 'CXXOperatorCallExpr' and len(c['inner']) > 1 and (ref_decl(c['inner'][1]) or {}).get('id') == fnp['id']]
    # (a lambda body appears twice in the dump: closure operator() and the expression's own copy)
    uniq = {}
    for c in calls:
        uniq.setdefault((c.get('_off'), c.get('_line'), c.get('_col')), c)
    calls = list(uniq.values())
    if calls and all(enclosing(c, ('LambdaExpr',)) is not None for c in calls):
        ctx.undecided(R1, lab + '|callback-site', calls[0], 'the callback is invoked inside a local lambda that receives the claimed value as a parameter: the claimed-value discipline is not decided by this rule')
        return
    if not calls and any((ref_decl(a_) or {}).get('id') == fnp['id'] for c_ in walk(body) if c_.get('kind') == 'CallExpr' for a_ in call_args(c_)):
        ctx.undecided(R1, lab + '|callback-site', f, 'the callback is handed to a helper function and invoked there: the claimed-value discipline is not decided by this rule')
        return
    ctx.check(len(calls) == 1, R1, lab + '|callback-site', calls[0] if calls else f, 'one callback invocation site', 'fn is invoked at %d sites' % len(calls))
    for c in calls:
        a = c['inner'][2:]
        arg = ref_decl(a[0])
        rel = [(nf(r[0]), r[1], nf(r[2])) for r in [relation(n_, p_) for n_, p_ in atoms(path_facts(c))] if r]
        # strip the assignment wrapper `(v = cur.fetch_add(1)) < end`
        def is_var(s, name):
            return s == name or s.startswith('(%s = ' % name)
        cname = claimed.get('name')
        below = any(is_var(a_, cname) and op == '<' and b_ == 'end_value' for a_, op, b_ in rel) or any(is_var(b_, cname) and op == '>' and a_ == 'end_value' for a_, op, b_ in rel)
        if not blocked:
            okarg = arg is not None and arg.get('id') == cid
            ctx.check(okarg and below, R1, lab + '|callback-on-claimed-value', c, 'fn(v) only for the claimed v with v < end_value',
                      'fn is invoked with %s under %s: %s' % (nf(a[0]), rel, 'the claimed value is not re-tested against end_value after the claim (a value >= end can be passed, or the same value twice)' if okarg else 'the argument is not the value issued by the atomic claim'))
        else:
            zname = arg.get('name') if arg else None
            lp = enclosing(c, ('ForStmt',))
            okz = False
            if lp is not None and zname:
                init, cv, cond, inc, _ = for_parts(lp)
                zd = next((v for v in walk(init) if v.get('kind') == 'VarDecl'), None) if init else None
                be = next((v for v in walk(body) if v.get('kind') == 'VarDecl' and v.get('name') == 'block_end'), None)
                okz = zd is not None and zd.get('name') == zname and nf(kids(zd)[-1]) == cname and cond is not None and nf(cond) in ('(%s < block_end)' % zname,) and \
                    be is not None and nf(kids(be)[-1]) == '(block_size + %s)' % cname and inc is not None and nf(inc) == '(%s++)' % zname
            if not okz and arg is not None:
                # the same discipline read off the facts: z starts at the claimed block start, is only ever
                # incremented, and fn(z) is dominated by z < block_start + block_size
                zd2 = next((v for v in walk(body) if v.get('kind') == 'VarDecl' and v.get('id') == arg.get('id')), None)
                zw = [x for x in walk(body) if (x.get('kind') in ('BinaryOperator', 'CompoundAssignOperator') and x.get('opcode') in ASSIGN_OPS and (ref_decl(x['inner'][0]) or {}).get('id') == arg.get('id')) or
                      (x.get('kind') == 'UnaryOperator' and x.get('opcode') in ('++', '--') and (ref_decl(x['inner'][0]) or {}).get('id') == arg.get('id'))]
                only_inc = bool(zw) and all((x.get('kind') == 'UnaryOperator' and x.get('opcode') == '++') or (x.get('kind') == 'CompoundAssignOperator' and x.get('opcode') == '+=' and int_value(x['inner'][1]) == 1) for x in zw)
                from guard import subst_locals as _sl16
                ends = {'(block_size + %s)' % cname, '(%s + block_size)' % cname}
                bounded = any(a_ == zname and op == '<' and _sl16(b_, c) in ends for a_, op, b_ in rel) or any(b_ == zname and op == '>' and _sl16(a_, c) in ends for a_, op, b_ in rel)
                okz = zd2 is not None and kids(zd2) and nf(kids(zd2)[-1]) == cname and only_inc and bounded
            ctx.check(okz and below, R1, lab + '|callback-on-claimed-block', c, 'fn(z) for z in [block_start, block_start + block_size) of a claimed block with block_start < end_value',
                      'fn is invoked on %s outside the claimed block or without block_start < end_value (facts %s)' % (nf(a[0]), rel))
        # second argument is the thread number
        ctx.check(len(a) >= 2 and (ref_decl(a[1]) or {}).get('id') == ps['thread_num']['id'], R1, lab + '|thread-num-forwarded', c, 'fn receives this worker\'s thread_num', 'fn is not given the worker\'s thread_num')
    # result writes
    rops = atomic_ops(body, res['id'])
    writes = [x for n, x in rops if n in ('operator=', 'store')]
    other = [(n, x) for n, x in rops if n not in ('operator=', 'store')]
    ctx.check(not other and len(writes) == 1, R2, lab + '|result-ops', other[0][1] if other else (writes[0] if writes else f), 'result written at one site, by plain atomic store', 'result_value is touched by %s' % [n for n, _ in rops])
    for wv in writes:
        val = wv['inner'][2] if wv.get('kind') == 'CXXOperatorCallExpr' else call_args(wv)[0]
        hit_if = enclosing(wv, ('IfStmt',))
        ok = hit_if is not None
        why = 'result is written outside an `if (fn(...))`'
        # fact-based form: the callback having returned true for the stored value is the last condition on the path
        fa_ = [(strip(n_), p_) for n_, p_ in atoms(path_facts(wv))]
        hit_ = [n_ for n_, p_ in fa_ if p_ and any(n_ is c_ for c_ in calls)]
        if hit_ and nf(hit_[0]['inner'][2]) == nf(val):
            later_ = [n_ for n_, p_ in fa_ if n_ is not hit_[0] and n_.get('_off', 0) > hit_[0].get('_off', 0)]
            pre_w = [s_ for s_ in preceding_statements(wv) if s_.get('_off', 0) > hit_[0].get('_off', 0) and s_.get('kind') not in ('NullStmt',) and not any(y is hit_[0] for y in walk(s_))]
            if not later_ and not pre_w:
                ctx.ok(R2, lab + '|result-written-on-hit', wv, 'result_value = v stored right after fn(v) returned true')
                continue
        # the search-loop idiom: `while (A && !fn(z)) z++;  if (A) result = z;` - leaving the loop with A still
        # true means fn(z) returned true (the loop has no other exit and z is not touched in between)
        sl_ok = False
        for c_ in calls:
            lp_ = enclosing(c_, ('WhileStmt', 'ForStmt'))
            cnd_ = (while_parts(lp_)[0] if lp_.get('kind') == 'WhileStmt' else for_parts(lp_)[2]) if lp_ is not None else None
            if cnd_ is None or not any(y is c_ for y in walk(cnd_)) or nf(c_['inner'][2]) != nf(val):
                continue
            cat = [(strip(n_), p_) for n_, p_ in atoms([Fact(cnd_, True, lp_)])]
            if not any(n_ is c_ and p_ is False for n_, p_ in cat):
                continue
            rest = {nf(n_) for n_, p_ in cat if n_ is not c_ and p_}
            exits = [x for x in walk(loop_body(lp_)) if x.get('kind') in ('BreakStmt', 'ReturnStmt', 'GotoStmt', 'CXXThrowExpr')]
            wfacts = {nf(strip(n_)) for n_, p_ in fa_ if p_}
            between = [s_ for s_ in preceding_statements(hit_if or wv) if s_.get('_off', 0) > lp_.get('_off', 0) and s_ is not lp_]
            touched = any((ref_decl(x['inner'][0]) or {}).get('id') == (ref_decl(val) or {}).get('id') for s_ in between for x in walk(s_) if x.get('kind') in ('BinaryOperator', 'CompoundAssignOperator', 'UnaryOperator') and x.get('opcode') in tuple(ASSIGN_OPS) + ('++', '--') and kids(x))
            if rest and rest <= wfacts and not exits and not touched and (hit_if or wv).get('_off', 0) > lp_.get('_off', 0) and enclosing(hit_if or wv, LOOPS) is enclosing(lp_, LOOPS):
                sl_ok = True
        if sl_ok:
            ctx.ok(R2, lab + '|result-written-on-hit', wv, 'result_value = z after the search loop was left with its range test still true, i.e. because fn(z) returned true')
            continue
        if ok:
            cond, then, els = if_parts(hit_if)
            cc = strip(cond)
            is_call = cc in calls
            same = is_call and nf(cc['inner'][2]) == nf(val)
            direct = strip(containing_statement(wv)) is wv and containing_statement(wv).get('_p') is then
            ok = is_call and same and direct
            why = 'result_value = %s is %s' % (nf(val), 'not the value the callback just accepted' if is_call and not same else ('conditional on something besides the callback returning true (%s): a hit can be dropped and end_value returned' % src_text(containing_statement(wv), 80) if is_call else 'not guarded directly by the callback result'))
        ctx.check(ok, R2, lab + '|result-written-on-hit', wv, 'result_value = v unconditionally when fn(v) returned true', why)


def check_driver(ctx, u, f, lab, worker_name):
    R = 'C16-R4'
    ctx.fn(lab)
    check_no_goto(f)
    body = body_of(f)
    ths = next((v for v in walk(body) if v.get('kind') == 'VarDecl' and v.get('name') == 'threads'), None)
    ctx.require(ths is not None, '%s: threads vector not found' % lab)
    mk = [lp for lp in walk(body) if lp.get('kind') == 'WhileStmt' and nf(while_parts(lp)[0]) == '(threads.size() < num_threads)']
    ok = len(mk) == 1
    if ok:
        eb = [c for c in walk(mk[0]) if c.get('kind') == 'CXXMemberCallExpr' and call_name(c) == 'emplace_back' and canon(member_call_object(c)) == 'threads']
        ok = len(eb) == 1
        if ok:
            a = call_args(eb[0])
            ok = nf(a[-1]) == 'threads.size()' and any((ref_decl(x) or {}).get('name') == worker_name for x in walk(a[0])) and \
                ['current_value', 'result_value'] == [n_ for n_ in (nf(x) for x in a) if n_ in ('std::ref(current_value)', 'std::ref(result_value)', 'current_value', 'result_value')] or \
                (nf(a[-1]) == 'threads.size()' and any('ref(current_value)' in nf(x) for x in a) and any('ref(result_value)' in nf(x) for x in a))
    if not mk:
        # `for (size_t t = 0; t < num_threads; t++) threads.emplace_back(worker, ..., t)`
        for lp_ in walk(body):
            if lp_.get('kind') == 'ForStmt':
                init_, cv_, cond_, inc_, lb_ = for_parts(lp_)
                zd_ = next((v for v in walk(init_) if v.get('kind') == 'VarDecl'), None) if init_ else None
                eb_ = [c for c in walk(lb_) if c.get('kind') == 'CXXMemberCallExpr' and call_name(c) == 'emplace_back' and canon(member_call_object(c)) == 'threads']
                if zd_ is not None and len(eb_) == 1 and kids(zd_) and int_value(kids(zd_)[-1]) == 0 and cond_ is not None and nf(cond_) in ('(%s < num_threads)' % zd_['name'], '(%s != num_threads)' % zd_['name'], '(num_threads > %s)' % zd_['name'], '(num_threads != %s)' % zd_['name']) and inc_ is not None and nf(inc_) in ('(%s++)' % zd_['name'], '++%s' % zd_['name']):
                    a_ = call_args(eb_[0])
                    ok = nf(a_[-1]) == zd_['name'] and any((ref_decl(x) or {}).get('name') == worker_name for x in walk(a_[0])) and any('ref(current_value)' in nf(x) for x in a_) and any('ref(result_value)' in nf(x) for x in a_)
                    mk = [lp_]
    ctx.check(ok, R, lab + '|thread-creation', mk[0] if mk else f, 'num_threads workers, each given thread_num = threads.size() at creation (so 0..num_threads-1) and the shared atomics by reference', 'thread creation changed (thread numbers are no longer 0..num_threads-1, or the atomics are copied)')
    joins = [s for s in stmts_of(body) if s.get('kind') == 'CXXForRangeStmt' and any(canon(x) == 'threads' for x in walk(s) if x.get('kind') == 'DeclRefExpr') and any(c.get('kind') == 'CXXMemberCallExpr' and call_name(c) == 'join' for c in walk(s))]
    if not joins:
        # index form: for (z = 0; z < threads.size(); z++) threads[z].join();  (no early exit from the loop)
        for s_ in stmts_of(body):
            if s_.get('kind') == 'ForStmt':
                i_, cv2, cd_, in_, lb2 = for_parts(s_)
                zd2 = next((v for v in walk(i_) if v.get('kind') == 'VarDecl'), None) if i_ else None
                jn = [c for c in walk(lb2) if c.get('kind') == 'CXXMemberCallExpr' and call_name(c) == 'join']
                full_ = zd2 is not None and kids(zd2) and int_value(kids(zd2)[-1]) == 0 and cd_ is not None and cd_.get('kind') and nf(cd_) in ('(%s < threads.size())' % zd2['name'], '(threads.size() > %s)' % zd2['name'], '(%s != threads.size())' % zd2['name']) and \
                    in_ is not None and nf(in_) in ('(%s++)' % zd2['name'], '(++%s)' % zd2['name'], '++%s' % zd2['name'])
                on_elem = len(jn) == 1 and nf(member_call_object(jn[0])) in ('threads[%s]' % (zd2 or {}).get('name'), 'threads.at(%s)' % (zd2 or {}).get('name'))
                if full_ and on_elem and not any(x_.get('kind') in ('ReturnStmt', 'BreakStmt', 'ContinueStmt', 'CXXThrowExpr') for x_ in walk(lb2)):
                    joins = [s_]
    if not joins:
        # drain form: while (!threads.empty()) { threads.back().join(); threads.pop_back(); }
        for s_ in stmts_of(body):
            if s_.get('kind') == 'WhileStmt' and nf(while_parts(s_)[0]) in ('!threads.empty()', '(threads.size() > 0)', '(0 < threads.size())', '(threads.size() != 0)'):
                lb3 = while_parts(s_)[1]
                st3 = [nf(strip(x_)) for x_ in stmts_of(lb3)]
                if st3 in (['threads.back().join()', 'threads.pop_back()'], ['threads.front().join()', 'threads.erase(threads.begin())']):
                    joins = [s_]
    if not joins:
        # a helper that joins every element of the vector it is given
        for s_ in stmts_of(body):
            c_ = strip(s_)
            if c_.get('kind') == 'CallExpr' and len(call_args(c_)) == 1 and canon(call_args(c_)[0]) == 'threads':
                d_ = callee_decl(c_, u)
                hb = body_of(d_) if d_ is not None else None
                if hb is not None:
                    lps_ = [lp_ for lp_ in walk(hb) if lp_.get('kind') in LOOPS and any(c2.get('kind') == 'CXXMemberCallExpr' and call_name(c2) == 'join' for c2 in walk(lp_))]
                    full_ = False
                    for lp_ in lps_:
                        if lp_.get('kind') == 'CXXForRangeStmt':
                            full_ = True
                        elif lp_.get('kind') == 'ForStmt':
                            i_, cv2, cd_, in_, lb2 = for_parts(lp_)
                            zd2 = next((v for v in walk(i_) if v.get('kind') == 'VarDecl'), None) if i_ else None
                            full_ = zd2 is not None and kids(zd2) and int_value(kids(zd2)[-1]) == 0 and cd_ is not None and cd_.get('kind') and nf(cd_).endswith('.size())') and nf(cd_).startswith('(%s < ' % zd2['name'])
                    if lps_ and full_ and not any(x_.get('kind') in ('ReturnStmt', 'BreakStmt', 'ContinueStmt', 'CXXThrowExpr') for x_ in walk(hb)):
                        joins = [s_]
    rets = [r for r in walk(body) if r.get('kind') == 'ReturnStmt']
    # a return before any worker exists (an empty range handled up front) leaves nothing to join
    rets_early = [r for r in rets if mk and r['_off'] < mk[0]['_off']]
    rets = [r for r in rets if r not in rets_early]
    okj = len(joins) == 1 and bool(mk) and joins[0]['_off'] > mk[0]['_off'] and all(r['_off'] > joins[0]['_off'] for r in rets)
    early = [x for x in walk(body) if x.get('kind') in ('ReturnStmt', 'CXXThrowExpr') and mk and mk[0]['_off'] < x['_off'] < (joins[0]['_off'] if joins else 0)]
    ctx.check(okj and not early, R, lab + '|join-all', joins[0] if joins else f, 'every worker is joined before the call returns', 'a return or throw can leave workers running (not every thread is joined before returning)')
    cv = next((v for v in walk(body) if v.get('kind') == 'VarDecl' and v.get('name') == 'current_value'), None)
    rv = next((v for v in walk(body) if v.get('kind') == 'VarDecl' and v.get('name') == 'result_value'), None)
    oki = cv is not None and rv is not None and 'start_value' in nf(kids(cv)[-1]) and 'end_value' in nf(kids(rv)[-1]) and 'std::atomic<' in qtype(cv) and 'std::atomic<' in qtype(rv)
    ctx.check(oki, 'C16-R2', lab + '|initial-values', cv or f, 'cursor starts at start_value; result starts at end_value (returned when nothing hit)', 'initial cursor/result values changed')
    early_ok = all(kids(r) and nf(kids(r)[0]) == 'end_value' and any(relation(n_, p_) and {nf(relation(n_, p_)[0]), nf(relation(n_, p_)[2])} == {'start_value', 'end_value'} for n_, p_ in atoms(path_facts(r))) for r in rets_early)
    if rets_early and not early_ok:
        ctx.undecided('C16-R2', lab + '|returns-result', rets_early[0], 'an early return before the workers are created returns something other than end_value for an empty range')
    else:
        ctx.check(len(rets) == 1 and nf(kids(rets[0])[0]) in ('result_value', 'result_value.load()', 'result_value.operator unsigned long()', 'result_value.operator unsigned int()') or (len(rets) == 1 and nf(kids(rets[0])[0]).startswith('result_value')), 'C16-R2', lab + '|returns-result', rets[0] if rets else f, 'returns the result atomic after the joins', 'the return value is not result_value')


def run(ctx):
    ctx.rule('C16-R1', 'claim shape: the shared cursor is touched only by one atomic fetch_add (whose result is the claimed index/block) and a store of end_value; the callback runs only on the claimed value (or inside the claimed block) under claimed < end_value', 28)
    ctx.rule('C16-R2', 'result: result_value starts at end_value, is written unconditionally with v exactly when fn(v) returned true, and is returned after the joins', 12)
    ctx.rule('C16-R3', 'sharing: objects reachable by more than one worker are std::atomic; in _multi each worker writes only thread_rets[thread_num] and every per-thread set is merged into the result', 7)
    ctx.rule('C16-R4', 'threads: num_threads workers numbered by creation order, all joined on every exit', 8)
    u = ctx.unit(witness_unit('c16.cc'))
    for wn, blocked in (('parallel_range_thread_fn', False), ('parallel_range_blocks_thread_fn', True)):
        fs = [f for f in u.funcs('phosg::' + wn) if targs(f)]
        ctx.require(len(fs) >= 2, '%s instantiations not found' % wn)
        for f in fs:
            check_worker(ctx, u, f, '%s<%s>' % (wn, targs(f)[0]), blocked)
    for dn, wn in (('parallel_range', 'parallel_range_thread_fn'), ('parallel_range_blocks', 'parallel_range_blocks_thread_fn')):
        fs = [f for f in u.funcs('phosg::' + dn) if targs(f)]
        ctx.require(len(fs) >= 2, '%s instantiations not found' % dn)
        for f in fs:
            check_driver(ctx, u, f, '%s<%s>' % (dn, targs(f)[0]), wn)
    # divisibility precondition of the block form
    for f in [f for f in u.funcs('phosg::parallel_range_blocks') if targs(f)]:
        from guard import subst_locals as _sl
        g = []
        for x in walk(body_of(f)):
            if x.get('kind') != 'IfStmt' or falls_through(if_parts(x)[1]):
                continue
            c_ = _sl(nf(if_parts(x)[0]), x)
            r_ = relation(if_parts(x)[0], True)
            if r_ and r_[1] == '!=' and '0' in (nf(r_[0]), nf(r_[2])):
                c_ = _sl(nf(r_[0]) if nf(r_[2]) == '0' else nf(r_[2]), x)
            if c_ == '((end_value - start_value) % block_size)':
                g.append(x)
        ctx.check(len(g) == 1, 'C16-R1', 'parallel_range_blocks<%s>|block-size-divides-range' % targs(f)[0], f, 'a block size that does not divide the range is rejected (so no block extends past end_value)', 'the divisibility check is gone: the last block runs the callback on values >= end_value')
    # multi
    R = 'C16-R3'
    ms = [f for f in u.funcs('phosg::parallel_range_blocks_multi') if targs(f)]
    ctx.require(len(ms) >= 1, 'parallel_range_blocks_multi instantiation not found')
    M = ms[0]
    ctx.fn('parallel_range_blocks_multi<%s>' % targs(M)[0])
    mb = body_of(M)
    tr = next((v for v in walk(mb) if v.get('kind') == 'VarDecl' and v.get('name') == 'thread_rets'), None)
    ctx.require(tr is not None, 'thread_rets not found')
    ctx.check('num_threads' in nf(kids(tr)[-1]), R, 'multi|one-set-per-thread', tr, 'one result set per worker', 'thread_rets is not sized by num_threads')
    # the slot count must be the thread count the delegate will really start: num_threads is only
    # ever replaced by the hardware default when it is 0 (the delegate maps 0 to that same default,
    # so any other adjustment - a clamp to the block count, say - can make the two disagree)
    ntp = next((p_ for p_ in params_of(M) if p_.get('name') == 'num_threads'), None)
    ctx.require(ntp is not None, 'parallel_range_blocks_multi: num_threads parameter not found')
    writes = [x for x in walk(mb) if x.get('kind') in ('BinaryOperator', 'CompoundAssignOperator', 'UnaryOperator') and x.get('opcode') in ('=', '+=', '-=', '*=', '/=', '++', '--', '%=', '&=', '|=')
              and (ref_decl(x['inner'][0]) or {}).get('id') == ntp['id']]
    badw = []
    for w_ in writes:
        okw = w_.get('opcode') == '=' and any(c.get('kind') == 'CallExpr' and call_name(c) == 'hardware_concurrency' for c in walk(w_['inner'][1])) and strip(w_['inner'][1]).get('kind') == 'CallExpr'
        rels = [(nf(r_[0]), r_[1], nf(r_[2])) for r_ in [relation(n_, p_) for n_, p_ in atoms(path_facts(w_))] if r_]
        okw = okw and any((a_ == 'num_threads' and op_ == '==' and b_ == '0') or (a_ == '0' and op_ == '==' and b_ == 'num_threads') for a_, op_, b_ in rels)
        if not okw:
            badw.append(w_)
    ctx.check(not badw, R, 'multi|thread-count-only-defaulted', badw[0] if badw else M, 'num_threads is only replaced by hardware_concurrency() when it is 0',
              'num_threads is modified by `%s`: the number of result sets can differ from the number of workers parallel_range_blocks starts (0 means "hardware default" there), so thread_rets[thread_num] / thread_rets[0] can be out of range' % (src_text(badw[0], 80) if badw else ''))
    # one result set per worker: the vector is sized by num_threads *after* the 0 = "hardware default"
    # case has been resolved here (the callee resolves it too, but only for its own copy)
    tr_ = next((v for v in walk(mb) if v.get('kind') == 'VarDecl' and (dtype(v) or '').startswith('std::vector<') and any((ref_decl(y) or {}).get('id') == ntp['id'] for y in walk(v))), None)
    if tr_ is None:
        ctx.undecided(R, 'multi|one-set-per-worker', M, 'the per-thread result vector sized by num_threads was not found')
    else:
        resolved = [w_ for w_ in writes if w_ not in badw and w_.get('_off', 0) < tr_.get('_off', 0)]
        ctx.check(bool(resolved), R, 'multi|one-set-per-worker', tr_, 'thread_rets(num_threads) is built after num_threads == 0 was replaced by hardware_concurrency()',
                  'the per-thread result vector is sized by num_threads while 0 still means "hardware default": with the default argument it is empty, yet parallel_range_blocks starts hardware_concurrency() workers that index it (and the merge reads element 0)')
    lam = [x for x in walk(mb) if x.get('kind') == 'LambdaExpr']
    okl = len(lam) == 1
    if okl:
        # the dump shows the lambda body twice (closure operator() and the expression's own copy): use the latter
        lbody_ = [c for c in kids(lam[0]) if c.get('kind') == 'CompoundStmt'][-1]
        subs = [x for x in walk(lbody_) if x.get('kind') == 'CXXOperatorCallExpr' and call_name(x) == 'operator[]' and (ref_decl(x['inner'][1]) or {}).get('id') == tr['id']]
        lp = [p for p in walk(lam[0]) if p.get('kind') == 'ParmVarDecl' and p.get('name')][:2]
        okl = len(subs) == 1 and len(lp) == 2 and (ref_decl(subs[0]['inner'][2]) or {}).get('name') == lp[1]['name']
        rets = [r for r in walk(lbody_) if r.get('kind') == 'ReturnStmt']
        okl = okl and len(rets) == 1 and int_value(kids(rets[0])[0]) == 0
        ins = [c for c in walk(lbody_) if c.get('kind') == 'CXXMemberCallExpr' and call_name(c) in ('emplace', 'insert')]
        okl = okl and len(ins) == 1 and (ref_decl(call_args(ins[0])[0]) or {}).get('name') == lp[0]['name'] and any(n_.get('kind') == 'CXXOperatorCallExpr' and pol for n_, pol in atoms(path_facts(ins[0], stop=lam[0])))
    ctx.check(okl, R, 'multi|worker-writes-own-slot', lam[0] if lam else M, 'each worker inserts z into thread_rets[thread_num] iff fn(z) and never stops the search', 'the per-thread collection lambda changed (shared slot, wrong value, or early stop)')
    ret = next((v for v in walk(mb) if v.get('kind') == 'VarDecl' and v.get('name') == 'ret'), None)
    okm = False
    why = 'merge not recognised'
    if ret is not None:
        idx = [x for x in walk(ret) if x.get('kind') == 'CXXOperatorCallExpr' and call_name(x) == 'operator[]']
        k = int_value(idx[0]['inner'][2]) if idx else None
        loops = [lp_ for lp_ in walk(mb) if lp_.get('kind') == 'ForStmt' and lp_['_off'] > ret['_off']]
        if loops:
            init, cv, cond, inc, lbody = for_parts(loops[0])
            zd = next((v for v in walk(init) if v.get('kind') == 'VarDecl'), None)
            s0 = int_value(kids(zd)[-1]) if zd is not None and kids(zd) else None
            if zd is None:
                zd = {'name': '?'}
            full = cond is not None and nf(cond) == '(%s < thread_rets.size())' % zd['name'] and inc is not None and nf(inc) in ('(%s++)' % zd['name'], '(++%s)' % zd['name'])
            merges = [c for c in walk(lbody) if c.get('kind') == 'CXXMemberCallExpr' and call_name(c) in ('insert', 'merge') and canon(member_call_object(c)) == 'ret']
            skip_k = any(x.get('kind') == 'IfStmt' and any(y.get('kind') == 'ContinueStmt' for y in walk(if_parts(x)[1])) for x in walk(lbody))
            okm = full and len(merges) == 1 and ((k == 0 and s0 == 1) or (s0 == 0 and skip_k))
            why = 'result starts from thread_rets[%s] and the merge loop starts at %s%s: %s' % (k if k is not None else nf(idx[0]['inner'][2]) if idx else '?', s0, ' skipping one index' if skip_k else '', 'some worker\'s hits are never merged' if not okm else 'every set is merged')
    if ret is not None and not okm:
        rf_ = [lp_ for lp_ in walk(mb) if lp_.get('kind') == 'CXXForRangeStmt' and lp_['_off'] > ret['_off'] and any(canon(x_) == 'thread_rets' for x_ in walk(lp_) if x_.get('kind') == 'DeclRefExpr')]
        starts_empty = not any(x_.get('kind') == 'CXXOperatorCallExpr' and call_name(x_) == 'operator[]' for x_ in walk(ret))
        if len(rf_) == 1 and starts_empty:
            mg_ = [c for c in walk(loop_body(rf_[0])) if c.get('kind') == 'CXXMemberCallExpr' and call_name(c) in ('insert', 'merge') and canon(member_call_object(c)) == 'ret']
            cond_ = any(x_.get('kind') in ('IfStmt', 'ContinueStmt', 'BreakStmt') for x_ in walk(loop_body(rf_[0])))
            if len(mg_) == 1 and not cond_:
                okm, why = True, 'an empty result is merged with every element of thread_rets'
    recognised = okm or (ret is not None and 'result starts from thread_rets[' in why and 'merge loop starts at None' not in why and '?' not in why.split(':')[0])
    if not okm and ret is not None:
        # iterator form: ret = move(*it) with it = begin(); for (++it; it != end(); ++it) ret.insert(it->...)
        itv = [v for v in walk(mb) if v.get('kind') == 'VarDecl' and kids(v) and any(c_.get('kind') == 'CXXMemberCallExpr' and call_name(c_) == 'begin' and canon(member_call_object(c_)) == 'thread_rets' for c_ in walk(v))]
        if len(itv) == 1 and any((ref_decl(y_) or {}).get('id') == itv[0]['id'] for y_ in walk(ret)):
            lps_ = [lp_ for lp_ in walk(mb) if lp_.get('kind') == 'ForStmt' and lp_['_off'] > ret['_off']]
            if len(lps_) == 1:
                init, cv, cond, inc, lbody = for_parts(lps_[0])
                adv = lambda n_: n_ is not None and n_.get('kind') and any(y_.get('kind') == 'CXXOperatorCallExpr' and call_name(y_) == 'operator++' and (ref_decl(kids(y_)[1]) or {}).get('id') == itv[0]['id'] for y_ in walk(n_))
                ends = cond is not None and any(c_.get('kind') == 'CXXMemberCallExpr' and call_name(c_) == 'end' and canon(member_call_object(c_)) == 'thread_rets' for c_ in walk(cond))
                mg_ = [c for c in walk(lbody) if c.get('kind') == 'CXXMemberCallExpr' and call_name(c) in ('insert', 'merge') and canon(member_call_object(c)) == 'ret']
                cond_ = any(x_.get('kind') in ('IfStmt', 'ContinueStmt', 'BreakStmt') for x_ in walk(lbody))
                moved_between = [y_ for y_ in walk(mb) if y_.get('kind') == 'CXXOperatorCallExpr' and call_name(y_) in ('operator++', 'operator+=') and (ref_decl(kids(y_)[1]) or {}).get('id') == itv[0]['id'] and itv[0]['_off'] < y_['_off'] < ret['_off']]
                if adv(init) and adv(inc) and ends and len(mg_) == 1 and not cond_ and not moved_between:
                    okm, why = True, 'the result starts from *begin() and every later element up to end() is merged'
    if okm or recognised:
        ctx.check(okm, R, 'multi|all-sets-merged', ret or M, why, 'the merge does not cover every per-thread set: ' + why)
    else:
        ctx.undecided(R, 'multi|all-sets-merged', ret or M, 'the merge of the per-thread sets is not written in a form this rule reads (%s)' % why)
    fwd = [c for c in walk(mb) if c.get('kind') == 'CallExpr' and call_name(c) == 'parallel_range_blocks']
    ctx.check(len(fwd) == 1 and [nf(a) for a in call_args(fwd[0])[1:]] == ['start_value', 'end_value', 'block_size', 'num_threads', 'progress_fn'], R, 'multi|delegates', fwd[0] if fwd else M, 'delegates to parallel_range_blocks over the same range and thread count', 'the delegation to parallel_range_blocks changed')
    ctx.note('Instantiated for IntT = uint64_t and uint32_t. Not decided: the interleaving semantics (taken from the C++ memory model); overflow of the cursor for ranges ending within num_threads of the type\'s maximum.')
