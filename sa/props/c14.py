"""C14 - file and stream reads (decided part: EOF discipline and buffer accounting of
the read-to-end loops, fgets capacity relation, result discipline of every raw I/O
call, Poll's sorted-map discipline, scoped_fd typestate, path helper agreement).
Behaviour under actual delivery schedules is not decided."""
import os
import re

from ast_ import *
from path import *


def calls_named(n, names, kinds=('CallExpr',)):
    return [c for c in walk(n) if c.get('kind') in kinds and call_name(c) in names]


def run(ctx):
    ctx.rule('C14-R1', 'read-to-end loops: a descriptor loop ends only on a zero-byte read (or error); every block pushed is trimmed to the bytes read before the next turn or the exit; the stream loop may end on a short fread', 6)
    ctx.rule('C14-R2', 'fgets: ::fgets gets the block capacity B; the line continues iff B-1 characters arrived and the character at index B-2 is not a newline', 3)
    ctx.rule('C14-R3', 'every raw read/pread/write/pwrite/fread/fwrite result is tested for error; the exact-size forms and load_file/save_file throw on a count different from the request', 10)
    ctx.rule('C14-R4', 'Poll: add and remove locate the slot with lower_bound and the same comparator; an element is inserted only after the lookup showed the descriptor absent; remove erases exactly the found slot; empty() iff no descriptors', 7)
    ctx.rule('C14-R5', 'scoped_fd: not copyable (must-not-compile witness); close() resets fd on the path that closes; destructor/open/assignments close first; move resets the source; no other ::close of the member', 9)
    ctx.rule('C14-R6', 'path helpers: dirname/basename split at the same rfind(\'/\'); directory listings drop exactly . and .. and close the handle; recursive unlink visits every entry before rmdir', 7)
    ctx.rule('C14-R7', 'read-to-end helpers by evaluation (E-IO): fgets for every line length 0..1100 (the property\'s domain), read_all(fd) for sizes around the 256-byte and 16 KiB block boundaries under short-read plans, read_all(FILE*): the result is exactly what the source delivers and the stream is left after the line', 3)
    u = ctx.unit(repo_unit('Filesystem.cc'))

    # ---------------- R7: the read-to-end helpers evaluated against a modelled source (E-IO): the
    # descriptor / stream is a constant byte string delivered in planned chunks; libc read / fread /
    # fgets / feof follow their specification.  Line lengths 0..1100 are the property's own domain.
    R = 'C14-R7'
    from peval import PEval, Stream, Str as PStr, Undecided as PUnd, Fault as PFault, Thrown as PThrown
    us_ = repo_unit('Strings.cc')
    PE = PEval([u, us_], max_depth=8, max_iter=200000)
    r7 = {}

    def judge(key, f_, cases, node):
        ok_, bad_, und_ = 0, None, None
        for label, mk, want in cases:
            st = mk()
            try:
                got = PE.call_with(f_, [st])
            except PThrown as e_:
                if st.fail_at is not None:
                    ok_ += 1       # a failed read may always be reported (also EINTR: retrying is optional)
                else:
                    bad_ = bad_ or (label, 'throws (%s) although the source delivers its bytes without error' % e_)
                continue
            except PFault as e_:
                bad_ = bad_ or (label, 'evaluation faults: %s' % e_)
                continue
            except PUnd as e_:
                und_ = str(e_)
                break
            gb = bytes(got.b) if isinstance(got, PStr) else None
            if st.fail_at is not None and st.ncalls > st.fail_at and not getattr(st, 'transient', False):
                bad_ = bad_ or (label, 'returns %d of the %d byte(s) as if the stream had ended; a failed read must throw (or be retried until the data arrives)' % (len(gb or b''), len(st.data)))
                continue
            w_ = want(st)
            if gb != w_[0]:
                bad_ = bad_ or (label, 'returns %d byte(s) %r...; the source delivers %d byte(s) %r...' % (len(gb or b''), (gb or b'')[-12:], len(w_[0]), w_[0][-12:]))
            elif w_[1] is not None and st.pos != w_[1]:
                bad_ = bad_ or (label, 'leaves the stream at offset %d; the line ends at %d' % (st.pos, w_[1]))
            else:
                ok_ += 1
        r7[key] = und_ is None and bad_ is None
        if und_:
            ctx.undecided(R, key, node, 'could not be evaluated (%s)' % und_)
        elif bad_:
            ctx.bad(R, key, node, '%s: for %s it %s' % (key, bad_[0], bad_[1]))
        else:
            ctx.ok(R, key, node, '%d cases: returns exactly the bytes the source delivers' % ok_)
    fg_ = [f for f in u.func('phosg::fgets') if len(params_of(f)) == 1 and body_of(f) is not None]
    if fg_:
        cases = []
        for L in range(0, 1101):
            line = bytes((65 + (i_ % 23)) for i_ in range(L))
            cases.append(('a line of %d characters followed by another line' % L, (lambda d=line + b'\n' + b'next line\n': Stream(d)), (lambda st, d=line + b'\n': (d, len(d)))))
            if L % 51 == 0 or L in (254, 255, 256, 509, 510, 511, 764, 765, 766):
                cases.append(('a final line of %d characters without a newline' % L, (lambda d=line: Stream(d)), (lambda st, d=line: (d, len(d)))))
        cases.append(('an empty stream', (lambda: Stream(b'')), (lambda st: (b'', 0))))

        def failing(d, k):
            st_ = Stream(d)
            st_.fail_at = k
            return st_
        for k_ in (0, 1, 2):
            cases.append(('a 700-character line whose ::fgets call #%d fails' % k_, (lambda k_=k_: failing(b'x' * 700 + b'\n', k_)), (lambda st: (b'x' * 700 + b'\n', 701))))
        judge('fgets(FILE*)', fg_[0], cases, fg_[0])
    for f in u.func('phosg::read_all'):
        if body_of(f) is None:
            continue
        is_fd = dtype(params_of(f)[0]) == 'int'
        sizes = [0, 1, 255, 256, 257, 16383, 16384, 16385, 32767, 32768, 32769, 40000] + ([200 * 1024] if ctx.tier == 'thorough' else [])
        plans = [None, [1], [1, 2, 3], [255], [16383], [16384], [7000, 1, 16384], [100000]] if is_fd else [None]
        cases = []
        for n_ in sizes:
            data = bytes((i_ * 7 + (i_ >> 8)) & 0xFF for i_ in range(n_))
            for pl in plans:
                if pl and max(pl) <= 3 and n_ > 600:
                    continue
                cases.append(('%d byte(s) delivered %s' % (n_, 'in reads of at most %s' % pl if pl else 'as fast as asked'), (lambda d=data, pl=pl: Stream(d, pl)), (lambda st, d=data: (d, None))))
        if is_fd:
            def failing_fd(d, k):
                st_ = Stream(d, [5000])
                st_.fail_at = k
                return st_
            for k_ in (0, 1, 3):
                cases.append(('20000 bytes whose read() call #%d fails' % k_, (lambda k_=k_: failing_fd(bytes(20000), k_)), (lambda st: (bytes(20000), None))))

            def eagain_fd(d, k):
                st_ = Stream(d, [5000])
                st_.fail_at = k
                st_.fail_errno = 11        # EAGAIN / EWOULDBLOCK: no data right now on a non-blocking descriptor, the stream is not over
                return st_
            for k_ in (0, 2):
                cases.append(('20000 bytes on a non-blocking descriptor whose read() call #%d reports EAGAIN' % k_, (lambda k_=k_: eagain_fd(bytes(range(250)) * 80, k_)), (lambda st: (bytes(range(250)) * 80, None))))

            def eintr_fd(d, k):
                st_ = Stream(d, [5000])
                st_.fail_at = k
                st_.fail_errno = 4
                st_.transient = True
                return st_
            for k_ in (0, 2):
                cases.append(('20000 bytes whose read() call #%d is interrupted (EINTR) once' % k_, (lambda k_=k_: eintr_fd(bytes(range(200)) * 100, k_)), (lambda st: (bytes(range(200)) * 100, None))))
        judge('read_all(%s)' % ('int fd' if is_fd else 'FILE*'), f, cases, f)

    class _Shape(Exception):
        pass

    def need(cond, msg):
        if not cond:
            raise _Shape(msg)

    def structural(fn, rule, keys):
        decided = all(r7.get(k_) for k_ in keys)
        real_bad = ctx.bad
        if decided:
            # the evaluation has vouched for the behaviour on the property's domain: a mismatch with the
            # structural pattern is a different way of writing it, reported as undecided
            ctx.bad = lambda rule_, key_, node_, detail_='': ctx.undecided(rule_, key_, node_, 'differs from the structural pattern (%s); behaviour decided by evaluation (C14-R7)' % detail_[:160])
        try:
            fn()
        except (_Shape, StopIteration) as e_:
            if all(r7.get(k_) for k_ in keys):
                ctx.undecided(rule, '|'.join(keys) + '|structure', u.path, 'not written in the shape the structural rule reads (%s): the behaviour is decided by evaluation (C14-R7)' % (e_ or 'anchor statement missing'))
                ctx.rules[rule] = (ctx.rules[rule][0], 0)
            else:
                raise AnalysisBroken(str(e_) or 'anchor statement missing')
        finally:
            ctx.bad = real_bad

    def r1_structure():
        # ---------------- R1
        R = 'C14-R1'
        ras = u.func('phosg::read_all')
        need(len(ras) == 2, 'read_all overloads not found')
        for f in ras:
            is_fd = dtype(params_of(f)[0]) == 'int'
            lab = 'read_all(%s)' % ('int fd' if is_fd else 'FILE*')
            ctx.fn(lab)
            check_no_goto(f)
            body = body_of(f)
            loops = [x for x in walk(body) if x.get('kind') == 'ForStmt' and for_parts(x)[2] is None]
            need(len(loops) == 1, '%s: read loop not found' % lab)
            lp = loops[0]
            lb = loop_body(lp)
            rd = calls_named(lb, ('read', 'fread'))
            need(len(rd) == 1, '%s: raw read call not found' % lab)
            nv = enclosing(rd[0], ('VarDecl',))
            need(nv is not None, '%s: read result is not stored' % lab)
            nname = nv['name']
            breaks = [b for b in walk(lb) if b.get('kind') == 'BreakStmt' and enclosing(b, LOOPS) is lp]
            rets = [r for r in walk(lb) if r.get('kind') == 'ReturnStmt']
            ctx.check(bool(breaks) and not rets, R, lab + '|exits', lp, '%d break exit(s)' % len(breaks), 'the read loop has no break or returns from inside')
            for i, b in enumerate(breaks):
                rels = [(nf(r[0]), r[1], nf(r[2])) for r in [relation(n_, p_) for n_, p_ in atoms(path_facts(b))] if r]
                zero = any((a == nname and op in ('==', '<=') and c == '0') or (c == nname and op in ('==', '>=') and a == '0') for a, op, c in rels)
                short = any(a == nname and op == '<' and c != '0' for a, op, c in rels)
                if is_fd:
                    ctx.check(zero and not (short and not zero), R, '%s|exit#%d-on-eof-only' % (lab, i), b, 'loop exits on a zero-byte read',
                              'the descriptor loop exits under %s: a short read from a pipe or socket is not end of file, the rest of the stream is silently dropped' % (rels or 'no condition on the byte count'))
                else:
                    ctx.check(zero or short, R, '%s|exit#%d-on-short-fread' % (lab, i), b, 'loop exits when fread returns less than requested (EOF or error by definition)', 'stream loop exit condition is %s' % rels)
            # accounting: every end of a turn / exit has the last block trimmed (or full)
            push = [c for c in walk(lb) if c.get('kind') == 'CXXMemberCallExpr' and call_name(c) == 'emplace_back' and canon(member_call_object(c)) == 'buffers']
            need(len(push) == 1, '%s: block push not found' % lab)
            cap = nf(call_args(push[0])[0])
            ends = [x for x in walk(lb) if x.get('kind') in ('ContinueStmt', 'BreakStmt') and enclosing(x, LOOPS) is lp]
            dummy = None
            if falls_through(lb):
                dummy = {'kind': 'NullStmt', '_p': lb}
                lb.setdefault('inner', []).append(dummy)
                ends.append(dummy)
            try:
                for i, e in enumerate(ends):
                    pre = preceding_statements(e)
                    trimmed = any(strip(s).get('kind') == 'CXXMemberCallExpr' and call_name(strip(s)) == 'resize' and canon(member_call_object(strip(s))) == 'buffers.back()' and canon(call_args(strip(s))[0]) == nname for s in pre)
                    trimmed = trimmed or any(strip(s).get('kind') == 'CXXMemberCallExpr' and call_name(strip(s)) == 'pop_back' and canon(member_call_object(strip(s))) == 'buffers' for s in pre)
                    rels = [(nf(r[0]), r[1], nf(r[2])) for r in [relation(n_, p_) for n_, p_ in atoms(path_facts(e))] if r]
                    full = any((a == nname and op in ('>=', '==') and c == cap) or (c == nname and op in ('<=', '==') and a == cap) for a, op, c in rels)
                    kindn = {'ContinueStmt': 'continue', 'BreakStmt': 'break', 'NullStmt': 'end-of-turn'}[e['kind']]
                    ctx.check(trimmed or full, R, '%s|%s#%d-block-trimmed' % (lab, kindn, i), e if e is not dummy else lb, 'the block pushed this turn is trimmed to the bytes read (or is full)',
                              'a turn ends (%s) with the freshly pushed %s-byte block neither trimmed to the byte count nor known to be full: the result is padded with NUL bytes' % (kindn, cap))
            finally:
                if dummy is not None:
                    lb['inner'].pop()
            errs = [x for x in walk(lb) if x.get('kind') == 'IfStmt' and nf(if_parts(x)[0]) == '(%s < 0)' % nname and not falls_through(if_parts(x)[1]) and any(t.get('kind') == 'CXXThrowExpr' for t in walk(if_parts(x)[1]))]
            ctx.check(len(errs) == 1, R, lab + '|error-throws', lp, 'a negative count throws', 'a failed read does not throw (it must not be retried past a block that was not trimmed, nor ignored)')


    structural(r1_structure, 'C14-R1', ['read_all(int fd)', 'read_all(FILE*)'])

    def r2_structure():
        # ---------------- R2
        R = 'C14-R2'
        fg = [f for f in u.func('phosg::fgets') if len(params_of(f)) == 1][0]
        ctx.fn('fgets(FILE*)')
        check_no_goto(fg)
        body = body_of(fg)
        lp = next(x for x in walk(body) if x.get('kind') in ('ForStmt', 'WhileStmt'))
        lb = loop_body(lp)
        blk = next((v for v in walk(lb) if v.get('kind') == 'VarDecl' and v.get('name') == 'block'), None)
        need(blk is not None, 'fgets: block variable not found')
        eb = [c for c in walk(blk) if c.get('kind') == 'CXXMemberCallExpr' and call_name(c) == 'emplace_back']
        B = int_value(call_args(eb[0])[0]) if eb else None
        need(B is not None, 'fgets: block capacity not found')
        raw = calls_named(lb, ('fgets',))
        raw = [c for c in raw if len(call_args(c)) == 3]
        need(len(raw) == 1, 'fgets: ::fgets call not found')
        a1 = nf(call_args(raw[0])[1])
        ctx.check(a1 in ('block.size()', str(B)), R, 'fgets|capacity-passed', raw[0], '::fgets is given the block capacity %d' % B, '::fgets is given %s, the block holds %d bytes' % (a1, B))
        resz = [c for c in walk(lb) if c.get('kind') == 'CXXMemberCallExpr' and call_name(c) == 'resize' and canon(member_call_object(c)) == 'block']
        lenv = next((v for v in walk(lb) if v.get('kind') == 'VarDecl' and kids(v) and 'strlen' in canon(kids(v)[-1])), None)
        brk = [b for b in walk(lb) if b.get('kind') == 'BreakStmt' and enclosing(b, ('IfStmt',)) is not None and 'feof' not in nf(if_parts(enclosing(b, ('IfStmt',)))[0])]
        ok = lenv is not None and len(brk) == 1
        why = 'line-end test not found'
        if ok:
            ifs = enclosing(brk[0], ('IfStmt',))
            cond = if_parts(ifs)[0]
            eval_at = ifs
            rdc = ref_decl(cond)
            if rdc and rdc.get('kind') == 'VarDecl':
                # the test is held in a named bool: judge it where it is computed
                vdc = next((v for v in walk(lb) if v.get('kind') == 'VarDecl' and v.get('id') == rdc['id'] and kids(v)), None)
                if vdc is not None:
                    cond = kids(vdc)[-1]
                    eval_at = vdc
            after_resize = bool(resz) and resz[0].get('_off', 0) < eval_at.get('_off', 0) and canon(call_args(resz[0])[0]) == lenv['name']

            def size_now():
                return lenv['name'] if after_resize else str(B)

            def sym(n):
                """value of an index/length expression as ('const', k) or ('len', k) meaning len + k"""
                s = nf(n)
                s = s.replace('block.size()', size_now())
                m = re.match(r'^\((\w+) - (\d+)\)$', s)
                if s.isdigit():
                    return ('const', int(s))
                if s == lenv['name']:
                    return ('len', 0)
                if m and m.group(1).isdigit():
                    return ('const', int(m.group(1)) - int(m.group(2)))
                if m and m.group(1) == lenv['name']:
                    return ('len', -int(m.group(2)))
                return None
            c0 = strip(cond)
            dis = []
            st = [c0]
            while st:
                x = strip(st.pop())
                if x.get('kind') == 'BinaryOperator' and x.get('opcode') == '||':
                    st.extend(x['inner'])
                else:
                    dis.append(x)
            short_ok = False
            nl_ok = False
            detail = []
            for d in dis:
                r = relation(d, True)
                if not r:
                    continue
                if nf(r[0]) == lenv['name'] and r[1] in ('<', '<=', '!='):
                    k = sym(r[2])
                    bound = None
                    if k and k[0] == 'const':
                        bound = k[1] if r[1] in ('<', '!=') else k[1] + 1
                    short_ok = bound == B - 1
                    detail.append('short-block test: %s %s %s (means fewer than %s characters; a full block holds %d)' % (lenv['name'], r[1], nf(r[2]), bound, B - 1))
                elif r[1] == '==' and int_value(r[2]) == 10:
                    ch = strip(r[0])
                    idx = None
                    if ch.get('kind') == 'CXXOperatorCallExpr' and call_name(ch) == 'operator[]':
                        idx = sym(ch['inner'][2])
                    elif ch.get('kind') == 'CXXMemberCallExpr' and call_name(ch) == 'back':
                        idx = ('len', -1) if after_resize else ('const', B - 1)
                    # under the negation of the short test the block is full: len == B-1
                    if idx and idx[0] == 'len':
                        idx = ('const', B - 1 + idx[1])
                    nl_ok = idx == ('const', B - 2)
                    detail.append('newline test reads index %s (the last character of a full block is at %d; index %d is the terminator)' % (idx[1] if idx else '?', B - 2, B - 1))
            ok = short_ok and nl_ok
            why = '; '.join(detail) or 'line-end test not recognised: %s' % nf(cond)
        ctx.check(ok, R, 'fgets|line-end-test', brk[0] if brk else fg, 'line ends iff fewer than B-1 characters arrived or the character at B-2 is a newline',
                  'the end-of-line test is wrong for lines that fill a block: %s: the next line is glued on (or a long line is cut)' % why)
        eofb = [x for x in walk(lb) if x.get('kind') == 'IfStmt' and 'feof' in nf(if_parts(x)[0])]
        ctx.check(len(eofb) == 1 and any(t.get('kind') == 'CXXThrowExpr' for t in walk(eofb[0])) and any(b.get('kind') == 'BreakStmt' for b in walk(if_parts(eofb[0])[1])), R, 'fgets|eof-vs-error', eofb[0] if eofb else fg, 'null from ::fgets: end of file ends the line, anything else throws', 'the null-result branch no longer distinguishes end of file from an error')


    structural(r2_structure, 'C14-R2', ['fgets(FILE*)'])

    # ---------------- R3
    R = 'C14-R3'
    exact = {'readx', 'writex', 'preadx', 'pwritex', 'freadx', 'fwritex', 'load_file', 'save_file'}
    raw_names = ('read', 'pread', 'write', 'pwrite', 'fread', 'fwrite')
    seen = 0
    for f in u.functions:
        q = u.qualname(f)
        if not q.startswith('phosg::') or q.count('::') != 1:
            continue
        body = body_of(f)
        for c in calls_named(body, raw_names):
            d = callee_decl(c, u)
            if d is not None and d.get('_p') is not None and u.qualname(d).startswith('phosg::'):
                continue    # phosg's own wrappers of the same name
            if f.get('name') in ('read_all',):
                continue    # judged by R1
            seen += 1
            nm = f.get('name')
            sigs = ','.join(qtype(p) for p in params_of(f))
            key = '%s(%s)|%s' % (nm, sigs, call_name(c))
            v = enclosing(c, ('VarDecl',))
            if v is None:
                ctx.bad(R, key, c, 'the result of %s is discarded' % call_name(c))
                continue
            tests = []
            for x in walk(body):
                if x.get('kind') == 'IfStmt':
                    for n_, p_ in atoms([Fact(if_parts(x)[0], True, x)]):
                        r = relation(n_, p_)
                        if r and (nf(r[0]) == v['name'] or nf(r[2]) == v['name']):
                            tests.append((r[1] if nf(r[0]) == v['name'] else FLIP[r[1]], nf(r[2]) if nf(r[0]) == v['name'] else nf(r[0]), x))
            err = [t for t in tests if (t[0] == '<' and t[1] == '0') and any(y.get('kind') == 'CXXThrowExpr' for y in walk(if_parts(t[2])[1]))]
            mism = [t for t in tests if t[0] == '!=' and t[1] not in ('0',)]
            if nm in exact:
                okx = bool(mism) and all(any(y.get('kind') == 'CXXThrowExpr' for y in walk(if_parts(t[2])[1])) for t in mism)
                req = nf(call_args(c)[2]) if call_name(c) in ('read', 'pread', 'write', 'pwrite') else nf(call_args(c)[2 if call_name(c) in ('fread', 'fwrite') else 1])
                okr = any(t[1] in (req, 'file_size') or req in t[1] for t in mism)
                ctx.check(okx and okr and (bool(err) or nm in ('load_file', 'save_file')), R, key, c, 'error and count-mismatch both throw', '%s: a transfer of fewer bytes than requested does not reach a throw (tests on the result: %s): the caller gets silently truncated data' % (nm, [(t[0], t[1]) for t in tests]))
            else:
                rs = [y for y in walk(body) if y.get('kind') == 'CXXMemberCallExpr' and call_name(y) == 'resize' and canon(call_args(y)[0]) == v['name']]
                ctx.check(bool(err) and bool(rs), R, key, c, 'error throws; the result is trimmed to the count', '%s: error not tested or the buffer is not trimmed to the bytes transferred' % nm)
    # an exact-transfer function that delegates to a phosg wrapper: the wrapper must itself be exact, or the
    # count it delivers must be compared with the request on a throwing path
    for f in u.functions:
        q = u.qualname(f)
        if not q.startswith('phosg::') or q.count('::') != 1 or f.get('name') not in exact or body_of(f) is None:
            continue
        body = body_of(f)
        for c in calls_named(body, tuple(exact)):
            d = callee_decl(c, u)
            if d is not None and d.get('_p') is not None and u.qualname(d).startswith('phosg::') and d.get('name') != f.get('name') or (d is not None and d.get('name') == f.get('name') and d.get('id') != f.get('id') and len(params_of(d)) != len(params_of(f))):
                seen += 1
                ctx.ok(R, '%s(%s)|delegates-to-%s' % (f.get('name'), ','.join(qtype(p) for p in params_of(f)), call_name(c)), c, 'delegates to the exact-transfer function phosg::%s' % call_name(c))
        for c in calls_named(body, raw_names):
            d = callee_decl(c, u)
            if d is None or d.get('_p') is None or not u.qualname(d).startswith('phosg::'):
                continue
            seen += 1
            sigs = ','.join(qtype(p) for p in params_of(f))
            key = '%s(%s)|delegates-to-%s' % (f.get('name'), sigs, call_name(c))
            v = enclosing(c, ('VarDecl',))
            checked = False
            if v is not None:
                for x in walk(body):
                    if x.get('kind') == 'IfStmt' and any(t.get('kind') == 'CXXThrowExpr' for t in walk(if_parts(x)[1])):
                        for n_, p_ in atoms([Fact(if_parts(x)[0], True, x)]):
                            r = relation(n_, p_)
                            if r and r[1] in ('!=', '<') and (v['name'] in nf(r[0]) or v['name'] in nf(r[2])):
                                checked = True
            if checked:
                ctx.ok(R, key, c, 'the count delivered by phosg::%s is compared with the request and a mismatch throws' % call_name(c))
            elif v is None or not any(y.get('kind') in LOOPS for y in walk(body)):
                ctx.bad(R, key, c, '%s hands the transfer to phosg::%s, which returns whatever a single call delivered (it trims the buffer to a short count), and does not compare the count with the request: a short read/write is returned as if complete' % (f.get('name'), call_name(c)))
            else:
                ctx.undecided(R, key, c, '%s uses phosg::%s inside a loop the rule does not read' % (f.get('name'), call_name(c)))
    ctx.require(seen >= 10, 'raw I/O call sites not found (%d)' % seen)

    # ---------------- R4
    R = 'C14-R4'
    add = u.func('phosg::Poll::add')[0]
    rem = u.func('phosg::Poll::remove')[0]
    emp = u.func('phosg::Poll::empty')[0]
    for f in (add, rem):
        ctx.fn('Poll::' + f['name'])
        check_no_goto(f)

    def lookup(f):
        cs = [c for c in walk_deep(body_of(f), u) if c.get('kind') == 'CallExpr' and call_name(c) in ('lower_bound', 'upper_bound', 'equal_range', 'find_if', 'binary_search')]
        lam = [x for x in walk_deep(body_of(f), u) if x.get('kind') == 'LambdaExpr']
        pred = None
        if lam:
            rs = [r for r in walk(lam[0]) if r.get('kind') == 'ReturnStmt']
            pred = nf(kids(rs[0])[0]) if rs else None
            # parameter names and the direction in which the comparison is written do not matter
            opc = next((m_ for m_ in walk(lam[0]) if m_.get('kind') == 'CXXMethodDecl' and m_.get('name') == 'operator()'), None)
            lps = params_of(opc) if opc is not None else []
            rel_ = relation(kids(rs[0])[0], True) if rs else None
            if rel_ and len(lps) == 2:
                a_, o_, b_ = nf(rel_[0]), rel_[1], nf(rel_[2])
                for i_, p_ in enumerate(lps):
                    a_ = re.sub(r'\b%s\b' % re.escape(p_['name']), '@%d' % i_, a_)
                    b_ = re.sub(r'\b%s\b' % re.escape(p_['name']), '@%d' % i_, b_)
                if o_ in ('>', '>='):
                    a_, o_, b_ = b_, FLIP[o_], a_
                pred = '(%s %s %s)' % (a_, o_, b_)
        return cs, pred
    ca, pa = lookup(add)
    cr, pr = lookup(rem)
    ctx.check(len(ca) == 1 and call_name(ca[0]) == 'lower_bound' and pa in ('(x.fd < y.fd)', '(@0.fd < @1.fd)', '(@0.fd < @1)'), R, 'add|lookup', ca[0] if ca else add, 'lower_bound with x.fd < y.fd',
              'Poll::add locates the slot with %s / %s: with upper_bound the equality test on the result can never be true and a descriptor that is already present is inserted again' % ([call_name(c) for c in ca], pa))
    ctx.check(len(cr) == 1 and call_name(cr[0]) == 'lower_bound' and pr == pa, R, 'remove|lookup', cr[0] if cr else rem, 'same search as add', 'Poll::remove searches with %s / %s, add with %s' % ([call_name(c) for c in cr], pr, pa))
    def result_var(f_, call_):
        """the local of f_ that holds the lookup result: initialised by the search itself or by the helper that runs it"""
        if call_ is None:
            return None
        if enclosing_function(call_) is f_ or any(a is body_of(f_) for a in ancestors(call_)):
            return enclosing(call_, ('VarDecl',))
        for v_ in walk(body_of(f_)):
            if v_.get('kind') == 'VarDecl' and kids(v_):
                for c_ in walk(v_):
                    if c_.get('kind') in ('CallExpr', 'CXXMemberCallExpr'):
                        d_ = callee_decl(c_, u)
                        if d_ is not None and body_of(d_) is not None and any(y is call_ for y in walk(body_of(d_))):
                            return v_
        return None
    itv = result_var(add, ca[0] if ca else None)
    ins = [c for c in walk(body_of(add)) if c.get('kind') == 'CXXMemberCallExpr' and canon(member_call_object(c)) == 'this.poll_fds' and call_name(c) in ('insert', 'push_back', 'emplace_back', 'emplace')]
    ctx.require(len(ins) >= 1 and itv is not None, 'Poll::add: insertion or lookup result not found')
    for i, c in enumerate(ins):
        facts = [(nf(n_), pol) for n_, pol in atoms(path_facts(c))]
        # absence: !(it != end && it->fd == fd)
        absent = any(pol is False and ('%s.fd' % itv['name'] in s_ or '%s.operator->().fd' % itv['name'] in s_ or 'fd' in s_) and itv['name'] in s_ and '&&' in s_ for s_, pol in facts)
        at_it = call_name(c) == 'insert' and nf(call_args(c)[0]) == itv['name']
        ctx.check(absent and at_it, R, 'add|insert#%d-only-when-absent' % i, c, 'inserted at the lower_bound position, only when the lookup did not find the descriptor',
                  'an element is added to poll_fds without the lookup having shown the descriptor absent (guard: %s): re-adding a descriptor leaves a duplicate, remove() then erases only one copy and empty() stays false' % [s_ for s_, p_ in facts])
    upd = [x for x in walk(body_of(add)) if x.get('kind') == 'BinaryOperator' and x.get('opcode') == '=' and nf(x['inner'][0]).endswith('.events') and nf(x['inner'][1]) == 'events' and itv['name'] in nf(x['inner'][0])]
    ctx.check(len(upd) == 1, R, 'add|replace-existing', upd[0] if upd else add, 'an existing entry has its events replaced', 're-adding an existing descriptor does not replace its events')
    itr = result_var(rem, cr[0] if cr else None)
    ers = [c for c in walk(body_of(rem)) if c.get('kind') == 'CXXMemberCallExpr' and call_name(c) == 'erase' and canon(member_call_object(c)) == 'this.poll_fds']
    okr = len(ers) == 1 and itr is not None and nf(call_args(ers[0])[0]) == itr['name']
    if okr:
        rl = [(nf(r[0]), r[1], nf(r[2])) for r in [relation(n_, pol) for n_, pol in atoms(path_facts(ers[0]))] if r]
        eq_fd = any(op == '==' and ('.fd' in a or '.fd' in b) for a, op, b in rl)
        if not eq_fd and cr:
            # the binary-search idiom: after it = lower_bound(.., key, less), `!less(key, *it)` is equivalence
            lb_args = call_args(cr[0])
            if len(lb_args) == 4:
                keyc, lessc = nf(lb_args[2]), nf(lb_args[3])
                for n_, pol in atoms(path_facts(ers[0])):
                    n0 = strip(n_)
                    if pol is False and n0.get('kind') in ('CXXOperatorCallExpr', 'CallExpr'):
                        ks_ = kids(n0)
                        if n0.get('kind') == 'CXXOperatorCallExpr' and len(ks_) == 4 and nf(ks_[1]) == lessc and nf(ks_[2]) == keyc and nf(ks_[3]) in ('*%s' % itr['name'], '(*%s)' % itr['name'], '%s.operator*()' % itr['name']):
                            eq_fd = True
        okr = eq_fd and any(op == '!=' and ('end()' in a or 'end()' in b) for a, op, b in rl)
    ctx.check(okr, R, 'remove|erase-found-slot', ers[0] if ers else rem, 'erases the slot whose fd equals the argument', 'Poll::remove does not erase exactly the found slot under `it != end && it->fd == fd`')
    cl = [c for c in calls_named(body_of(rem), ('close',))]
    ctx.check(len(cl) == 1 and any((ref_decl(n_) or {}).get('name') == 'close_fd' and pol for n_, pol in atoms(path_facts(cl[0]))) and any(a is enclosing(ers[0], ('CompoundStmt',)) for a in ancestors(cl[0])), R, 'remove|close-flag', cl[0] if cl else rem, 'the descriptor is closed only on request and only when it was registered', 'close handling in Poll::remove changed')
    r_ = [x for x in walk(body_of(emp)) if x.get('kind') == 'ReturnStmt']
    ctx.check(len(r_) == 1 and nf(kids(r_[0])[0]) == 'this.poll_fds.empty()', R, 'empty', emp, 'empty() iff the vector is empty', 'Poll::empty() is %s' % (nf(kids(r_[0])[0]) if r_ else None))

    # ---------------- R5
    R = 'C14-R5'
    ok, diag = try_compile(os.path.join(VERIF, 'witness', 'c14_copy.cc'))
    lines = {int(m.group(1)) for m in re.finditer(r'c14_copy\.cc:(\d+):\d+: error', diag)}
    src = open(os.path.join(VERIF, 'witness', 'c14_copy.cc')).read().split('\n')
    want = {i + 1 for i, l in enumerate(src) if 'expected-error' in l}
    ctx.check(not ok and want <= lines, R, 'scoped_fd|not-copyable', 'witness/c14_copy.cc', 'copy construction and copy assignment are rejected by the compiler', 'scoped_fd can be copied (lines %s compile): two owners would close the same descriptor' % sorted(want - lines))
    sf = {}
    for f in u.functions:
        q = u.qualname(f)
        if q.startswith('phosg::scoped_fd::'):
            sf.setdefault(f['name'], []).append(f)
    cl = sf.get('close', [None])[0]
    ctx.require(cl is not None, 'scoped_fd::close not found')
    ctx.fn('scoped_fd::close')
    rc = calls_named(body_of(cl), ('close',))
    okc = len(rc) == 1 and canon(call_args(rc[0])[0]) == 'this.fd'
    if okc:
        facts = [(nf(r[0]), r[1], nf(r[2])) for r in [relation(n_, p_) for n_, p_ in atoms(path_facts(rc[0]))] if r]
        okc = ('this.fd', '>=', '0') in facts or ('0', '<=', 'this.fd') in facts
        blk = enclosing(rc[0], ('CompoundStmt',))
        okc = okc and any(nf(s) == '(this.fd = -1)' and s.get('_off', 0) > rc[0].get('_off', 0) for s in kids(blk))
    ctx.check(okc, R, 'scoped_fd|close-resets', cl, 'close(): if (fd >= 0) { ::close(fd); fd = -1; }', 'close() does not reset fd after closing (double close on destruction) or closes an invalid fd')
    for nm, pick in (('~scoped_fd', None), ('open', 'const char *'), ('operator=', 'phosg::scoped_fd &&'), ('operator=', 'int')):
        fs = [f for f in sf.get(nm, []) if pick is None or (qtype(params_of(f)[0]) or '').replace('scoped_fd &&', 'phosg::scoped_fd &&').replace('phosg::phosg::', 'phosg::') == pick]
        ctx.require(len(fs) >= 1, 'scoped_fd::%s(%s) not found' % (nm, pick))
        f = fs[0]
        st = [strip(s) for s in stmts_of(body_of(f))]
        first = st[0] if st else {}
        ctx.check(first.get('kind') == 'CXXMemberCallExpr' and call_name(first) == 'close' and is_this(member_call_object(first)), R, 'scoped_fd|%s(%s)|closes-first' % (nm, pick or ''), f, 'releases the held descriptor first', '%s does not close the currently held descriptor before taking another (leak)' % nm)
    mv = [f for f in sf.get('scoped_fd', []) if len(params_of(f)) == 1 and '&&' in (qtype(params_of(f)[0]) or '')]
    ma = [f for f in sf.get('operator=', []) if '&&' in (qtype(params_of(f)[0]) or '')]
    for f, nm in ((mv[0] if mv else None, 'move-ctor'), (ma[0] if ma else None, 'move-assign')):
        ok = f is not None and any(nf(s) == '(other.fd = -1)' for s in stmts_of(body_of(f)))
        ctx.check(ok, R, 'scoped_fd|%s|source-reset' % nm, f or cl, 'the moved-from object gives up the descriptor', 'the moved-from scoped_fd keeps the descriptor: it is closed twice')
    others = [c for f in u.functions if u.qualname(f).startswith('phosg::scoped_fd::') and f is not cl for c in calls_named(body_of(f), ('close',)) if c.get('kind') == 'CallExpr']
    ctx.check(not others, R, 'scoped_fd|single-close-site', others[0] if others else cl, '::close(this->fd) only in close()', 'another member closes the descriptor directly, bypassing the fd = -1 reset')

    # ---------------- R6
    R = 'C14-R6'
    bn = u.func('phosg::basename')[0]
    dnm = u.func('phosg::dirname')[0]
    for f, lab, want_found, want_none in ((bn, 'basename', 'filename.substr((1 + slash_pos))', 'filename'), (dnm, 'dirname', 'filename.substr(0, slash_pos)', '')):
        ctx.fn(lab)
        sp = next((v for v in walk(body_of(f)) if v.get('kind') == 'VarDecl' and kids(v)), None)
        co = next((x for x in walk(body_of(f)) if x.get('kind') == 'ConditionalOperator'), None)
        ok = sp is not None and nf(kids(sp)[-1]) == 'filename.rfind(47)' and co is not None and 'npos' in nf(co['inner'][0]) and sp['name'] in nf(co['inner'][0])
        if ok:
            found = nf(co['inner'][2])
            none = nf(co['inner'][1])
            ok = found == want_found.replace('slash_pos', sp['name']) and (none == want_none or (want_none == '' and none in ('""', "''", 'std::string{}', 'std::basic_string<char>{}')))
        ctx.check(ok, R, lab, f, 'split at the last slash: %s' % want_found, '%s does not split at the last slash as %s' % (lab, want_found))
    for nm in ('list_directory', 'list_directory_sorted'):
        f = u.func('phosg::' + nm)[0]
        ctx.fn(nm)
        body = body_of(f)
        addc = [c for c in walk(body) if c.get('kind') == 'CXXMemberCallExpr' and call_name(c) in ('emplace', 'emplace_back', 'insert', 'push_back') and canon(member_call_object(c)) == 'files']
        # a name is collected iff it differs from "." and from "..": judged on the facts that hold
        # where the name is added (any spelling: skip-with-continue, positive test, helper predicate)
        differs, other_name_tests, helpers = set(), [], []
        if len(addc) == 1:
            for n_, pol_ in atoms(path_facts(addc[0])):
                n0 = strip(n_)
                r_ = relation(n0, pol_)
                call_, nonzero = None, None
                if n0.get('kind') == 'CallExpr' and call_name(n0) == 'strcmp':
                    call_, nonzero = n0, pol_
                elif r_ and strip(r_[0]).get('kind') == 'CallExpr' and call_name(strip(r_[0])) == 'strcmp' and int_value(r_[2]) == 0 and r_[1] in ('!=', '=='):
                    call_, nonzero = strip(r_[0]), r_[1] == '!='
                if call_ is not None:
                    lit = [strip(a_).get('value', '') for a_ in call_args(call_) if strip(a_).get('kind') == 'StringLiteral']
                    if nonzero and lit:
                        differs.add(lit[0])
                    else:
                        other_name_tests.append(src_text(n0, 50))
                elif 'd_name' in canon(n0) and not (n0.get('kind') == 'CallExpr' and call_name(n0) == 'readdir'):
                    if n0.get('kind') == 'CallExpr' and callee_decl(n0, u) is not None and body_of(callee_decl(n0, u)) is not None:
                        helpers.append((n0, pol_))
                    elif 'readdir' not in canon(n0) and 'entry' != canon(n0):
                        other_name_tests.append(src_text(n0, 50))
        if helpers and not differs:
            # a helper predicate decides: fold it on witness names (refutes a wrong filter; cannot prove a right one)
            from peval import PEval, Lit, Undecided, Fault
            PEh = PEval([u])
            hn, hpol = helpers[0]
            hd = callee_decl(hn, u)
            verdicts = {}
            try:
                for wname in (b'.', b'..', b'...', b'..a', b'.a', b'a', b'a.', b''):
                    verdicts[wname] = bool(PEh.call_with(hd, [Lit(wname + b'\0')]))
            except (Undecided, Fault) as e:
                verdicts = None
            if verdicts is None:
                ctx.undecided(R, nm + '|skips-dot-entries', hn, 'the entry filter is the helper %s, which could not be folded on witness names' % hd.get('name'))
            else:
                dropped = sorted(k_.decode() for k_, v_ in verdicts.items() if v_ != hpol)
                if dropped == ['.', '..']:
                    ctx.undecided(R, nm + '|skips-dot-entries', hn, 'the entry filter is the helper %s: it drops exactly "." and ".." on the witness names, which does not prove it for every name' % hd.get('name'))
                else:
                    ctx.bad(R, nm + '|skips-dot-entries', hn, 'the entry filter %s drops the names %s; exactly "." and ".." must be dropped' % (hd.get('name'), dropped))
        else:
            ctx.check(len(addc) == 1 and differs == {'"."', '".."'} and not other_name_tests, R, nm + '|skips-dot-entries', addc[0] if addc else f, 'a name is collected iff it is neither "." nor ".."',
                      'directory listing collects a name under: differs from %s%s; exactly "." and ".." must be dropped' % (sorted(differs), (' and ' + '; '.join(other_name_tests)) if other_name_tests else ''))
        cd = calls_named(body, ('closedir',))
        rets = [r for r in walk(body) if r.get('kind') == 'ReturnStmt']
        raii = [v for v in walk(body) if v.get('kind') == 'VarDecl' and 'unique_ptr' in (qtype(v) or '') and any((ref_decl(y) or {}).get('name') == 'closedir' for y in walk(v))]
        if raii:
            ctx.ok(R, nm + '|closedir', raii[0], 'the handle is owned by a unique_ptr whose deleter is closedir')
        else:
            ctx.check(len(cd) == 1 and enclosing(cd[0], LOOPS) is None and all(cd[0]['_off'] < r['_off'] for r in rets), R, nm + '|closedir', cd[0] if cd else f, 'handle closed before returning', 'the directory handle is not closed on the normal path')
        addc = [c for c in walk(body) if c.get('kind') == 'CXXMemberCallExpr' and call_name(c) in ('emplace', 'emplace_back', 'insert', 'push_back') and canon(member_call_object(c)) == 'files']
        ctx.check(len(addc) == 1 and 'entry.d_name' in nf(call_args(addc[0])[0]), R, nm + '|collects-names', f, 'every other entry name is collected', 'entry collection changed')
    un = [f for f in u.func('phosg::unlink') if len(params_of(f)) == 2][0]
    ctx.fn('unlink')
    rm = calls_named(body_of(un), ('rmdir',))
    rec = [c for c in calls_named(body_of(un), ('unlink',)) if len(call_args(c)) == 2 and int_value(call_args(c)[1]) == 1]
    ok = len(rm) == 1 and len(rec) == 1 and enclosing(rec[0], ('CXXForRangeStmt',)) is not None and rec[0]['_off'] < rm[0]['_off'] and any(call_name(c) == 'list_directory' for c in walk(enclosing(rec[0], ('CXXForRangeStmt',))) if c.get('kind') == 'CallExpr')
    ctx.check(ok, R, 'unlink|children-before-rmdir', un, 'every entry is removed recursively before the directory itself', 'recursive unlink does not remove every child before rmdir')
    ctx.note('Not decided: behaviour under actual delivery schedules (pipes with delayed writes), load_file on non-regular files.')
