"""C06 - image codecs (decided part: allocation invariant at load, in-place
grayscale expansion bounds and ordering, exceptional release, checked reads and
header-loop progress, row padding / stride / channel-order agreement between
loader and saver, PNG chunk protocol, dispatch tables)."""
import re
from ast_ import *
from path import *
from exc import *
from props.c07 import image_methods, is_data_member, sig, _reassigned_after, _local_def


def through(a):
    x = strip(a)
    while x is not None and x.get('kind') in ('CXXConstructExpr', 'CXXFunctionalCastExpr', 'CXXTemporaryObjectExpr') and len([k for k in kids(x) if k.get('kind') != 'CXXDefaultArgExpr']) == 1:
        x = strip(kids(x)[0])
    return x


def data_subscripts(n):
    return [x for x in walk(n) if x.get('kind') == 'ArraySubscriptExpr' and is_data_member(x['inner'][0])]


def const_assign_before(site, decl_id):
    """value of the nearest dominating `var = <constant>` assignment before site"""
    for s in preceding_statements(site):
        s0 = strip(s)
        if s0.get('kind') == 'BinaryOperator' and s0.get('opcode') == '=' and (ref_decl(s0['inner'][0]) or {}).get('id') == decl_id:
            return int_value(s0['inner'][1])
        if decl_id in assigned_keys(s):
            return None
    return None


def _local_env(node, u):
    """prod_form environment that expands the single-assignment locals of the enclosing function
    (named size factors hoisted out of an allocation expression)"""
    f = enclosing_function(node)
    env = {}
    if f is None:
        return env
    body = body_of(f)
    written = {}
    for x in walk(body):
        if x.get('kind') in ('BinaryOperator', 'CompoundAssignOperator') and x.get('opcode') in ASSIGN_OPS:
            rd = ref_decl(x['inner'][0])
            if rd:
                written[rd.get('id')] = 1
    for v in walk(body):
        if v.get('kind') == 'VarDecl' and v.get('name') and kids(v) and not written.get(v['id']) and int_type_info(dtype(v) or '') and (qtype(v) or '').startswith('const '):
            init = kids(v)[-1]
            if not any(c.get('kind') in ('CallExpr', 'CXXMemberCallExpr') for c in walk(init)):
                env[v['name']] = init
    return env


def run(ctx):
    ctx.rule('C06-R1', 'load(): every pixel buffer is allocated with the class-invariant size W*H*(3+alpha)*(cw/8) for the format fields committed with it; the bytes read into it never exceed it', 4)
    ctx.rule('C06-R2', 'grayscale expansion: indices (y*W+x)*stride+k within the pixel, source read (incl. alpha) before the destination pixel is written, temporaries as wide as the samples, iteration from the last pixel backwards', 30)
    ctx.rule('C06-R3', 'load(): a heap block held in a raw pointer across a throwing call is freed by a handler that rethrows, or owned by a unique_ptr; the commit to this->data.raw follows the last throwing call', 4)
    ctx.rule('C06-R4', 'load(): every stream read is a throwing variant or has its result tested; each turn of the P7 header loop recognises a non-empty command, leaves the loop or throws', 6)
    ctx.rule('C06-R5', 'BMP: loader and saver use the same row padding formula and skip/write exactly that many bytes per row; in-memory rows are width*pixel_bytes apart; header sizes built from the same quantities', 10)
    ctx.rule('C06-R6', 'channel order: BI_RGB load and save both map file byte i to memory byte 2-i; BITFIELDS byte masks map to little-endian byte indices', 6)
    ctx.rule('C06-R7', 'PNG chunk protocol: length(4,BE) type(4) data crc(4,BE); CRC over type then data only; IHDR is 13 bytes with colour type 6 iff alpha; chunks IHDR,gAMA,IDAT,IEND in order', 10)
    ctx.rule('C06-R8', 'dispatch tables: signatures P5/P6/P7/BM; TUPLTYPE -> (format, depth); channel width thresholds 0xFF/0xFFFF/0xFFFFFFFF', 4)
    ctx.rule('C06-R9', 'PAM acceptance: for every tuple type x MAXVAL {255,65535} x field order, a spec-conformant P7 header reaches the pixel read without a throw and the read consumes exactly W*H*samples*bytes (partial evaluation of load() over a constant byte stream)', 16)
    u = ctx.unit(repo_unit('Image.cc'))
    uf = ctx.unit(repo_unit('Filesystem.cc'))
    us = repo_unit('Strings.cc')
    methods = image_methods(u)
    L = next((m for m in methods if m.get('name') == 'load'), None)
    ctx.require(L is not None, 'Image::load not found')
    check_no_goto(L)
    ctx.fn('Image::load(FILE*)')
    saves = [f for f in u.funcs('phosg::Image::save_helper')]
    ctx.require(len(saves) >= 1, 'Image::save_helper instantiation not found')
    SV = saves[0]
    ctx.fn('Image::save_helper')
    lbody = body_of(L)

    # ------------------------------------------------------------------ R1
    with ctx.section('C06-R1', L):
        R = 'C06-R1'
        commits = [x for x in walk(lbody) if x.get('kind') == 'BinaryOperator' and x.get('opcode') == '=' and canon(x['inner'][0]) == 'this.data.raw']
        ctx.need(len(commits) == 2, 'load(): expected two commits of this->data.raw (PPM, BMP), found %d' % len(commits))
        allocs = []
        for x in walk(lbody):
            if x.get('kind') == 'CallExpr' and call_name(x) in ('malloc', 'malloc_unique', 'calloc'):
                allocs.append(x)
        for cm in commits:
            blk = enclosing(cm, ('CompoundStmt',))
            # field values committed alongside
            env = {}
            for s in kids(blk):
                s0 = strip(s)
                if s0.get('kind') == 'BinaryOperator' and s0.get('opcode') == '=' and canon(s0['inner'][0]) in ('this.width', 'this.height', 'this.has_alpha', 'this.channel_width'):
                    env[canon(s0['inner'][0])] = s0['inner'][1]
            ctx.need(len(env) == 4, 'load(): format fields are not all committed next to this->data.raw')
            # which allocation feeds this commit
            src = strip(cm['inner'][1])
            feeding = []
            for a in allocs:
                if enclosing(a, ('CompoundStmt',)) is blk or any(anc is blk for anc in ancestors(a)):
                    asg = a.get('_p')
                    while asg is not None and asg.get('kind') not in ('BinaryOperator', 'CXXOperatorCallExpr', 'VarDecl', 'CompoundStmt'):
                        asg = asg.get('_p')
                    tgt = None
                    if asg is not None and asg.get('kind') == 'BinaryOperator':
                        tgt = canon(asg['inner'][0])
                    elif asg is not None and asg.get('kind') == 'CXXOperatorCallExpr':
                        tgt = canon(asg['inner'][1])
                    elif asg is not None and asg.get('kind') == 'VarDecl':
                        tgt = asg.get('name')
                    if tgt and (tgt in canon(src) or canon(src).startswith(tgt.split('.')[0])):
                        feeding.append((a, tgt))
            ctx.need(len(feeding) >= 1, 'load(): allocation feeding the commit at %s not found' % loc_str(cm))
            for a, tgt in feeding:
                size = call_args(a)[0]
                env2 = dict(env)
                # a local flag assigned a constant in this branch (BMP: has_alpha = false / true)
                for k_, v_ in list(env2.items()):
                    rd = ref_decl(v_)
                    if rd and rd.get('kind') == 'VarDecl':
                        cv = const_assign_before(a, rd['id'])
                        if cv is not None:
                            env2[k_] = cv
                inv = u.by_id and None
                gds = next(m for m in methods if m.get('name') == 'get_data_size')
                inv_expr = kids([x for x in walk(body_of(gds)) if x.get('kind') == 'ReturnStmt'][0])[0]
                want = prod_form(inv_expr, env2)
                got = prod_form(size, _local_env(size, u))
                key = 'alloc@%s' % ('ppm' if 'new_data' in tgt else 'bmp-' + ('rgb' if env2.get('this.has_alpha') == 0 else 'bitfields' if env2.get('this.has_alpha') == 1 else '?'))
                ctx.check(got == want, R, key, a, 'allocation %s == invariant %s' % (pf_str(got), pf_str(want)),
                          'buffer allocated with %s but the committed format needs %s bytes: pixel accesses near the end overflow the heap block' % (pf_str(got), pf_str(want)))
        # bytes read into the PPM buffer
        reads = [c for c in walk(lbody) if c.get('kind') == 'CallExpr' and call_name(c) == 'freadx' and 'new_data.raw' in canon(call_args(c)[1])]
        ctx.need(len(reads) == 1, 'load(): freadx into the PPM buffer not found')
        rsize = call_args(reads[0])[2]
        # channels_factor = (COLOR ? 3 : 1) + alpha  <=  3 + alpha
        cf = None
        for x in walk(rsize):
            rd = ref_decl(x)
            vd = _local_def(u, rd) if rd else None
            if vd is not None and vd.get('name') and 'factor' in vd.get('name'):
                cf = vd
        okr = False
        why = 'cannot relate the read size to the allocation'
        if cf is not None:
            ppm_alloc = next(a for a in allocs if call_name(a) == 'malloc' and 'new_data' in canon(a.get('_p').get('_p')['inner'][0]) ) if False else None
        # structural comparison: read size = W*H*F*(cw/8) and allocation = W*H*(3+alpha)*(cw/8) where F = (c ? 3 : 1) + alpha
        a_ppm = [a for a in allocs if call_name(a) == 'malloc']
        if a_ppm and cf is not None:
            got_r = prod_form(rsize, {})
            got_a = prod_form(call_args(a_ppm[0])[0], {})
            fr = [f_ for f_ in got_r[1] if f_ not in got_a[1]]
            fa = [f_ for f_ in got_a[1] if f_ not in got_r[1]]
            if got_r[0] == got_a[0] and len(fr) == 1 and len(fa) == 1 and fr[0] == cf.get('name'):
                init = strip(kids(cf)[-1])
                # F = (cond ? 3 : 1) + alpha, compare with (3 + alpha)
                if init.get('kind') == 'BinaryOperator' and init.get('opcode') == '+':
                    parts = [strip(p) for p in init['inner']]
                    cond_part = next((p for p in parts if p.get('kind') == 'ConditionalOperator' and int_value(p['inner'][1]) is not None and int_value(p['inner'][2]) is not None and max(int_value(p['inner'][1]), int_value(p['inner'][2])) > 1), None)
                    other = next((p for p in parts if p is not cond_part), None)
                    if cond_part is not None and other is not None:
                        mx = max(int_value(cond_part['inner'][1]), int_value(cond_part['inner'][2]))
                        alpha_term = prod_form(other, {})
                        okr = fa[0] == '(%d + %s)' % (mx, pf_str(alpha_term)) or fa[0] == '(%s + %d)' % (pf_str(alpha_term), mx)
                        why = 'read extent factor %s can exceed the allocation factor %s' % (nf(init), fa[0])
        ctx.check(okr, R, 'ppm-read<=alloc', reads[0], 'bytes read = W*H*F*(cw/8) with F <= 3+alpha', why)

    # ------------------------------------------------------------------ R2
    with ctx.section('C06-R2', L):
        R = 'C06-R2'
        gray_if = None
        for x in walk(lbody):
            if x.get('kind') == 'IfStmt':
                cond, then, els = if_parts(x)
                if 'GRAYSCALE_PPM' in canon(cond) and then is not None and data_subscripts(then):
                    gray_if = x
        if gray_if is None:
            # the expansion lives in a helper (or is written with pointers): the one thing that is shape-
            # independent is the hazard of expanding in place - in the loop that stores the expanded pixel,
            # every read of the buffer comes before the first store (for the first pixel source and
            # destination overlap)
            gi = next((x for x in walk(lbody) if x.get('kind') == 'IfStmt' and 'GRAYSCALE_PPM' in canon(if_parts(x)[0]) and if_parts(x)[1] is not None), None)
            if gi is not None:
                seen_loops = set()
                for lp_ in [x for x in walk_deep(if_parts(gi)[1], u) if x.get('kind') in LOOPS]:
                    if any(y.get('kind') in LOOPS for y in walk(loop_body(lp_)) if y is not lp_) or lp_.get('_off') in seen_loops:
                        continue
                    seen_loops.add(lp_.get('_off'))
                    subs_ = [y for y in walk(loop_body(lp_)) if y.get('kind') == 'ArraySubscriptExpr' or (y.get('kind') == 'UnaryOperator' and y.get('opcode') == '*' and '*' in (qtype(strip(y['inner'][0])) or ''))]
                    def is_store(y):
                        p_ = y.get('_p')
                        while p_ is not None and p_.get('kind') in ('ParenExpr',):
                            y, p_ = p_, p_.get('_p')
                        return p_ is not None and p_.get('kind') in ('BinaryOperator', 'CompoundAssignOperator') and p_.get('opcode') in ASSIGN_OPS and strip(p_['inner'][0]) is y
                    stores = [y for y in subs_ if is_store(y)]
                    loads = [y for y in subs_ if not is_store(y)]
                    if len(stores) >= 3 and loads:
                        first_store = min(y.get('_off', 0) for y in stores)
                        late = [y for y in loads if y.get('_off', 0) > first_store]
                        ctx.check(not late, R, 'in-place|reads-before-writes', late[0] if late else lp_, 'every sample is read before the first store of the expanded pixel',
                                  'in the in-place expansion loop `%s` is read after the destination pixel has been (partly) written: for the first pixel source and destination overlap and the sample is already overwritten' % (src_text(late[0], 30) if late else ''))
        ctx.need(gray_if is not None, 'load(): grayscale expansion block not found')
        _, gthen, _ = if_parts(gray_if)
        ctx.check(all(c.get('_off', 0) < gray_if.get('_off', 0) for c in commits[:1]) , R, 'expansion-after-commit', gray_if, 'expansion runs on the committed buffer', 'expansion precedes the commit')
        strides = {}
        for x in walk(gthen):
            if x.get('kind') == 'VarDecl' and kids(x) and 'stride' in (x.get('name') or ''):
                strides[x['name']] = nf(kids(x)[-1])
        ok_st = strides.get('dest_stride') == '(this.has_alpha ? 4 : 3)' and strides.get('src_stride') == '(this.has_alpha ? 2 : 1)'
        ctx.check(ok_st, R, 'strides', gthen, 'dest stride alpha?4:3, source stride alpha?2:1', 'strides are %s' % strides)
        loops = [x for x in walk(gthen) if x.get('kind') == 'ForStmt']
        ctx.need(len(loops) == 2, 'grayscale expansion: expected two nested loops')
        for lp, dim in zip(loops, ('height', 'width')):
            init, cv, cond, inc, body = for_parts(lp)
            vd = next((v for v in walk(init) if v.get('kind') == 'VarDecl'), None)
            r = relation(cond, True)
            inc_s = strip(inc)
            okl = vd is not None and nf(kids(vd)[-1]) == '(this.%s - 1)' % dim and r is not None and r[1] == '>=' and int_value(r[2]) == 0 and \
                inc_s.get('kind') == 'UnaryOperator' and inc_s.get('opcode') == '--' and (int_type_info(dtype(vd)) or (0, False))[1]
            ctx.check(okl, R, 'backward-iteration|' + dim, lp, 'iterates %s-1 down to 0 in a signed type' % dim,
                      'in-place expansion must walk from the last pixel backwards (expanded pixels are larger than packed ones): loop is `%s`' % src_text(lp, 60).split('{')[0])
        # per width branch
        subs = data_subscripts(gthen)
        ctx.need(len(subs) >= 24, 'grayscale expansion subscripts not found (%d)' % len(subs))
        pixel = '(x + (this.width * y))'
        by_branch = {}
        for s in subs:
            obj, mem = is_data_member(s['inner'][0])
            by_branch.setdefault(mem, []).append(s)
        for mem, ss in sorted(by_branch.items()):
            w = int(mem[2:])
            first_write = None
            last_read = None
            for s in ss:
                p = s.get('_p')
                is_write = p is not None and p.get('kind') == 'BinaryOperator' and p.get('opcode') == '=' and strip(p['inner'][0]) is s
                pf = prod_form(s['inner'][1], {})
                idx = nf(s['inner'][1])
                have = {(a, op, b) for a, op, b, _, _ in relations(s)}
                cw_ok = any(a == 'this.channel_width' and op == '==' and b == str(w) for a, op, b in have)
                alpha_fact = any(canon(n_) == 'this.has_alpha' and pol for n_, pol in atoms(path_facts(s)))
                stride = 'dest_stride' if is_write else 'src_stride'
                from guard import split_const
                base, kk = split_const(idx)
                pix = '(' + ' + '.join(sorted(['x', '(' + ' * '.join(sorted(['this.width', 'y'])) + ')'])) + ')'
                want_base = '(' + ' * '.join(sorted([pix, stride])) + ')'
                m_ok = kk if base == want_base else None
                kmax = 3 if is_write else 1
                k_ok = m_ok is not None and (m_ok < kmax or (m_ok == kmax and alpha_fact))
                key = '%s|%s[%s+%s]' % (mem, 'dst' if is_write else 'src', stride, m_ok if m_ok is not None else '?')
                n_same = sum(1 for o in ctx.obs if o.key.startswith(key))
                ctx.check(cw_ok and k_ok, R, key + ('' if not n_same else '#%d' % (n_same + 1)), s, '%s access inside its pixel' % ('destination' if is_write else 'source'),
                          '%s index %s is not (y*W+x)*%s + k with k inside the pixel (k=%s, alpha established=%s, channel_width==%d established=%s)' % ('destination' if is_write else 'source', idx, stride, m_ok, alpha_fact, w, cw_ok))
                if is_write and first_write is None:
                    first_write = s
                if not is_write:
                    last_read = s
            ctx.check(first_write is not None and last_read is not None and last_read.get('_off', 0) < first_write.get('_off', 0), R, mem + '|reads-before-writes', last_read or ss[0],
                      'gray and alpha samples are read before the destination pixel is written',
                      'a source sample is read after the destination pixel has been (partly) written: for the first pixel the regions overlap and the sample is already overwritten')
            # temporaries hold full-width samples
            blk = enclosing(ss[0], ('CompoundStmt',))
            temps = [v for v in kids(blk) if v.get('kind') == 'DeclStmt']
            tv = [vd for t in temps for vd in kids(t) if vd.get('kind') == 'VarDecl' and data_subscripts(vd)]
            okt = bool(tv) and all((int_type_info(dtype(vd)) or (0, 0))[0] >= w for vd in tv)
            ctx.check(okt, R, mem + '|temporary-width', tv[0] if tv else ss[0], 'temporaries are %d bits wide' % w, 'a %d-bit sample passes through a narrower temporary (%s)' % (w, [qtype(v) for v in tv]))

    # ------------------------------------------------------------------ R3
    with ctx.section('C06-R3', L):
        R = 'C06-R3'
        E = Exc([u, uf, us], [refine_size_guarded_at])
        raw_allocs = [a for a in allocs if call_name(a) in ('malloc', 'calloc')]
        for i, a in enumerate(raw_allocs):
            asg = enclosing(a, ('BinaryOperator',))
            tgt = canon(asg['inner'][0]) if asg is not None else '?'
            commit = next((c for c in commits if tgt in canon(c['inner'][1])), None)
            ctx.need(commit is not None, 'load(): commit of %s not found' % tgt)
            st = containing_statement(a)
            blk = st.get('_p')
            sibs = list(kids(blk))
            i0 = next(j for j, s in enumerate(sibs) if s is st)
            i1 = next(j for j, s in enumerate(sibs) if any(x is commit for x in walk(s)))
            for s in sibs[i0 + 1:i1]:
                if s.get('kind') == 'CXXTryStmt':
                    continue   # judged by its handlers below
                thr = E._node(s, L, u)
                thr.pop('<rethrow>', None)
                if not thr:
                    continue
                key = 'raw-block|%s|%s' % (tgt, s.get('kind') + '@' + src_text(s, 30))
                # null test: nothing to free
                if s.get('kind') == 'IfStmt':
                    cond, then, els = if_parts(s)
                    if nf(cond) in ('!%s' % tgt, '(%s == nullptr)' % tgt, '(nullptr == %s)' % tgt):
                        ctx.ok(R, key, s, 'throws only when the allocation failed (nothing to release)')
                        continue
                ctx.bad(R, key, s, 'a call that can throw %s runs while %s holds an unowned heap block: the block leaks on the exception path' % (sorted(thr), tgt))
            for s in sibs[i0 + 1:i1]:
                if s.get('kind') == 'CXXTryStmt':
                    handlers = kids(s)[1:]
                    good = False
                    for h in handlers:
                        hb = kids(h)[-1]
                        frees = [c for c in walk(hb) if c.get('kind') == 'CallExpr' and call_name(c) == 'free' and canon(call_args(c)[0]) == tgt]
                        reth = [t for t in walk(hb) if t.get('kind') == 'CXXThrowExpr' and not kids(t)]
                        ht = norm_type(qtype(kids(h)[0])) if kids(h) and kids(h)[0].get('kind') == 'VarDecl' else '...'
                        if frees and reth and ht in ('...', 'std::exception', 'exception'):
                            good = True
                    ctx.check(good, R, 'raw-block|%s|handler-frees-and-rethrows' % tgt, s, 'handler frees the block and rethrows', 'the try block protecting %s has no handler for every exception that frees it and rethrows' % tgt)
        owned = [a for a in allocs if call_name(a) == 'malloc_unique']
        ctx.check(len(owned) >= 4, R, 'bmp-blocks-owned', owned[0] if owned else L, '%d BMP buffers owned by unique_ptr' % len(owned), 'BMP buffers are no longer owned by unique_ptr')
        for cm in commits:
            st = containing_statement(cm)
            blk = st.get('_p')
            sibs = list(kids(blk))
            i1 = next(j for j, s in enumerate(sibs) if s is st)
            later = {}
            for s in sibs[i1 + 1:]:
                later.update(E._node(s, L, u))
            ctx.check(not later, R, 'commit-last|%s' % ('ppm' if 'new_data.raw' in canon(cm['inner'][1]) else 'bmp'), cm, 'nothing after the commit can throw', 'code after the commit can throw %s: the object is left half-loaded' % sorted(later))

    # ------------------------------------------------------------------ R4
    with ctx.section('C06-R4', L):
        R = 'C06-R4'
        for c in walk(lbody):
            if c.get('kind') == 'CallExpr' and call_name(c) in ('fgetc', 'getc', 'fscanf', 'fread', 'fgets') and (callee_decl(c, u) or {}).get('_p') is None or \
               (c.get('kind') == 'CallExpr' and call_name(c) in ('fgetc', 'fscanf', 'fread') ):
                nm = call_name(c)
                if nm not in ('fgetc', 'getc', 'fscanf', 'fread'):
                    continue
                p = c.get('_p')
                while p is not None and p.get('kind') in TRANSPARENT | {'ImplicitCastExpr'}:
                    p = p.get('_p')
                tested = False
                if p is not None and p.get('kind') == 'BinaryOperator' and p.get('opcode') in ('==', '!=', '<', '>', '<=', '>='):
                    tested = True
                if p is not None and p.get('kind') == 'VarDecl':
                    # the variable is compared later and the mismatch throws
                    vids = {p['id']}
                    for _ in range(3):      # values derived from it (a named test result) count as well
                        for x in walk(lbody):
                            if x.get('kind') == 'VarDecl' and kids(x) and x['id'] not in vids and any(y.get('kind') == 'DeclRefExpr' and (y.get('referencedDecl') or {}).get('id') in vids for y in walk(kids(x)[-1])):
                                vids.add(x['id'])
                    for x in walk(lbody):
                        if x.get('kind') == 'IfStmt':
                            cond, then, els = if_parts(x)
                            if any(y.get('kind') == 'DeclRefExpr' and (y.get('referencedDecl') or {}).get('id') in vids for y in walk(cond)) and (not falls_through(then) or (els is not None and not falls_through(els))):
                                tested = True
                ctx.check(tested, R, '%s@%s' % (nm, src_text(c, 40)), c, 'result of %s is tested' % nm, 'the result of %s is ignored: a truncated file is not noticed here' % nm)
        # header loop progress
        hl = None
        for x in walk(lbody):
            if x.get('kind') == 'ForStmt' and for_parts(x)[2] is None and any(c.get('kind') == 'CallExpr' and call_name(c) == 'fgets' for c in walk(x)):
                hl = x
        ctx.need(hl is not None, 'load(): P7 header loop not found')
        hb = loop_body(hl)
        line = next((v for v in walk(hb) if v.get('kind') == 'VarDecl' and any(c.get('kind') == 'CallExpr' and call_name(c) == 'fgets' for c in walk(v))), None)
        ctx.need(line is not None, 'load(): header line variable not found')

        def recognised(site):
            for n_, pol in atoms(path_facts(site)):
                n0 = strip(n_)
                if pol and n0.get('kind') == 'CallExpr' and call_name(n0) == 'starts_with':
                    a = call_args(n0)
                    lit = next((y for y in walk(a[1]) if y.get('kind') == 'StringLiteral'), {})
                    if (ref_decl(a[0]) or {}).get('id') == line['id'] and lit.get('kind') == 'StringLiteral' and len(lit.get('value', '""')) > 2:
                        return True
                r = relation(n_, pol)
                if r and r[1] == '==':
                    for p_, q_ in ((r[0], r[2]), (r[2], r[0])):
                        ql = next((y for y in walk(q_) if y.get('kind') == 'StringLiteral'), {})
                        if (ref_decl(p_) or {}).get('id') == line['id'] and ql.get('kind') == 'StringLiteral' and len(ql.get('value', '""')) > 2:
                            return True
            return False
        # exits of one turn: continue statements and the end of the body
        turn_ends = [x for x in walk(hb) if x.get('kind') == 'ContinueStmt' and enclosing(x, LOOPS) is hl]
        bad_turn = [x for x in turn_ends if not recognised(x)]
        # end of body: each leaf branch of the command chain either recognised, breaks, or throws
        chain = [s for s in kids(hb) if s.get('kind') == 'IfStmt']
        leaves = []

        def leaf_branches(s):
            cond, then, els = if_parts(s)
            leaves.append(then)
            if els is None:
                leaves.append(None)
            elif els.get('kind') == 'IfStmt':
                leaf_branches(els)
            else:
                leaves.append(els)
        for s in chain:
            leaf_branches(s)
        for lf in leaves:
            if lf is None:
                bad_turn.append(hb)
                continue
            if not falls_through(lf):
                continue
            dummy = {'kind': 'NullStmt', '_p': lf}
            if lf.get('kind') == 'CompoundStmt':
                lf.setdefault('inner', []).append(dummy)
                try:
                    if not recognised(dummy):
                        bad_turn.append(lf)
                finally:
                    lf['inner'].pop()
            else:
                if not recognised(lf):
                    bad_turn.append(lf)
        ctx.check(not bad_turn, R, 'p7-header-loop|progress', bad_turn[0] if bad_turn else hl, 'every turn recognises a non-empty header command, breaks on ENDHDR or throws (an empty line at end of file throws)',
                  'a turn of the header loop can complete without having recognised a non-empty command (%s): at end of file fgets returns an empty line forever and load() never returns' % (src_text(bad_turn[0], 70) if bad_turn else ''))

    # ------------------------------------------------------------------ R5 / R6
    with ctx.section('C06-R5', L):
        R = 'C06-R5'
        svb = body_of(SV)

        def padding_defs(body, wname):
            out = []
            for v in walk(body):
                if v.get('kind') == 'VarDecl' and v.get('name') == 'row_padding_bytes' and kids(v):
                    txt = nf(kids(v)[-1], lambda t: 'W' if t == wname else None)
                    # a hoisted `row_bytes = width * pixel_bytes` is the same formula
                    for v2 in walk(body):
                        if v2.get('kind') == 'VarDecl' and v2.get('name') and kids(v2) and v2 is not v and re.search(r'\b%s\b' % re.escape(v2['name']), txt) and v2['name'] not in ('pixel_bytes',):
                            d2 = nf(kids(v2)[-1], lambda t: 'W' if t == wname else None)
                            if d2 in ('(W * pixel_bytes)', '(pixel_bytes * W)'):
                                txt = re.sub(r'\b%s\b' % re.escape(v2['name']), '(W * pixel_bytes)', txt)
                    out.append((v, txt))
            return out
        lp_ = padding_defs(lbody, 'w')
        sp_ = padding_defs(svb, 'this.width')
        want_pad = '((4 - ((W * pixel_bytes) % 4)) % 4)'
        # a formula written differently is evaluated: the padding for every width 0..67 (and widths near
        # 2^16, 2^31, 2^32) with both pixel sizes must be (4 - (W * pixel_bytes) % 4) % 4
        from props.c09 import OvEval
        from props.c04 import enum_env
        from bits import bv_const
        IV = OvEval(u, enum_env(u))

        def pad_by_evaluation(vdecl, body, wname):
            locs = {v_.get('name'): v_ for v_ in walk(body) if v_.get('kind') == 'VarDecl' and kids(v_) and v_.get('name')}
            for W_ in list(range(0, 68)) + [65535, 65536, 65537, (1 << 31) - 1, (1 << 31) + 1, (1 << 32) - 3]:
                for al_ in (0, 1):
                    IV.ov = {wname: W_, 'this.has_alpha': al_, 'has_alpha': al_, 'pixel_bytes': 3 + al_}
                    for _ in range(3):
                        for nm_, v_ in locs.items():
                            if nm_ in IV.ov or v_ is vdecl or nm_ == 'row_padding_bytes':
                                continue
                            try:
                                c_ = bv_const(IV.eval(kids(v_)[-1], {}))
                            except Exception:
                                c_ = None
                            if c_ is not None:
                                IV.ov[nm_] = c_
                    try:
                        got = bv_const(IV.eval(kids(vdecl)[-1], {}))
                    except Exception:
                        got = None
                    if got is None:
                        return None, 'not a constant for W=%d' % W_
                    want = (4 - (W_ * (3 + al_)) % 4) % 4
                    if (got & 0xFFFFFFFFFFFFFFFF) != want:
                        return False, 'for width %d and %d-byte pixels the padding is %d, a row must be padded by %d to a multiple of 4' % (W_, 3 + al_, got, want)
            return True, ''
        for side, defs_, body_, wn_, node_ in (('loader', lp_, lbody, 'w', L), ('saver', sp_, svb, 'this.width', SV)):
            if len(defs_) == 1 and defs_[0][1] == want_pad:
                ctx.ok(R, 'padding|' + side, defs_[0][0], want_pad)
            elif len(defs_) == 1:
                okp, whyp = pad_by_evaluation(defs_[0][0], body_, wn_)
                if okp is None:
                    ctx.undecided(R, 'padding|' + side, defs_[0][0], '%s row padding `%s` is neither the usual formula nor evaluable (%s)' % (side, defs_[0][1], whyp))
                else:
                    ctx.check(okp, R, 'padding|' + side, defs_[0][0], 'padding `%s` equals (4 - (W*pixel_bytes) %% 4) %% 4 for every width 0..67 and both pixel sizes (evaluated)' % defs_[0][1], '%s row padding `%s`: %s' % (side, defs_[0][1], whyp))
            else:
                ctx.undecided(R, 'padding|' + side, node_, '%s row padding variable not found (%d definitions)' % (side, len(defs_)))
        # pixel_bytes on both sides
        lpb = [nf(kids(v)[-1]) for v in walk(lbody) if v.get('kind') == 'VarDecl' and v.get('name') == 'pixel_bytes' and kids(v)]
        spb = [nf(kids(v)[-1]) for v in walk(svb) if v.get('kind') == 'VarDecl' and v.get('name') == 'pixel_bytes' and kids(v)]
        ctx.check(lpb == ['(header.info_header.bit_depth / 8)'] or lpb == ['(header.info_header.bit_depth.operator unsigned short() / 8)'], R, 'pixel_bytes|loader', L, 'bit_depth / 8', 'loader pixel size is %s' % lpb)
        from poly import Poly as _PS, p_add as _pas, p_const as _pcs, p_atom as _pts
        PSV = _PS(SV, u)
        spb_nodes = [kids(v)[-1] for v in walk(svb) if v.get('kind') == 'VarDecl' and v.get('name') == 'pixel_bytes' and kids(v)]
        ctx.check(spb == ['(3 + this.has_alpha)'] or (len(spb_nodes) == 1 and PSV.poly(spb_nodes[0]) == _pas(_pcs(3), _pts('this.has_alpha'))), R, 'pixel_bytes|saver', SV, '3 + alpha', 'saver pixel size is %s' % spb)
        # loader skips / saver writes exactly the padding per row
        seeks = [c for c in walk(lbody) if c.get('kind') == 'CallExpr' and call_name(c) == 'fseek' and int_value(call_args(c)[2]) == 1]
        oks = len(seeks) == 1 and canon(call_args(seeks[0])[1]) == 'row_padding_bytes' and enclosing(seeks[0], ('ForStmt',)) is not None and \
            (ref_decl(for_parts(enclosing(seeks[0], ('ForStmt',)))[2]['inner'][0] if False else None) is None)
        if len(seeks) == 1:
            lpf = enclosing(seeks[0], ('ForStmt',))
            inner_loops = [x for x in walk(loop_body(lpf)) if x.get('kind') == 'ForStmt']
            oks = canon(call_args(seeks[0])[1]) == 'row_padding_bytes' and not any(any(a is il for a in ancestors(seeks[0])) for il in inner_loops)
        ctx.check(oks, R, 'padding|loader-skips-per-row', seeks[0] if seeks else L, 'fseek(row_padding_bytes, SEEK_CUR) once per row', 'loader does not skip exactly row_padding_bytes once per row')
        def fargs(c):
            return c['inner'][2:] if c.get('kind') == 'CXXOperatorCallExpr' else call_args(c)
        wr = [c for c in walk(svb) if c.get('kind') in ('CallExpr', 'CXXOperatorCallExpr') and len(fargs(c)) == 2 and canon(fargs(c)[1]) == 'row_padding_bytes']
        okw = len(wr) == 1 and canon(fargs(wr[0])[0]) == 'row_padding_data'
        if okw:
            lpf = enclosing(wr[0], ('ForStmt',))
            inner_loops = [x for x in walk(loop_body(lpf)) if x.get('kind') == 'ForStmt'] if lpf else []
            okw = lpf is not None and not any(any(a is il for a in ancestors(wr[0])) for il in inner_loops)
            pd = next((v for v in walk(svb) if v.get('kind') == 'VarDecl' and v.get('name') == 'row_padding_data'), None)
            okw = okw and pd is not None and '[4]' in (qtype(pd) or '')
        merged_und = None
        if not okw and not wr:
            # the padding may travel at the end of the row buffer: one write of row + padding bytes per row, the
            # tail of the buffer zeroed beforehand
            pad_ref = next((y for y in walk(svb) if y.get('kind') == 'DeclRefExpr' and (y.get('referencedDecl') or {}).get('name') == 'row_padding_bytes'), None)
            pad_poly = PSV.poly(pad_ref) if pad_ref is not None else None
            for c_ in [c for c in walk(svb) if c.get('kind') in ('CallExpr', 'CXXOperatorCallExpr') and len(fargs(c)) == 2]:
                lp_ = PSV.poly(fargs(c_)[1])
                if pad_poly and len(pad_poly) == 1 and all(lp_.get(m_) == c0_ for m_, c0_ in pad_poly.items()) and lp_ != pad_poly and enclosing(c_, ('ForStmt',)) is not None:
                    buf_ = canon(fargs(c_)[0])
                    zs_ = [m_ for m_ in walk(svb) if m_.get('kind') == 'CallExpr' and call_name(m_) == 'memset' and canon(call_args(m_)[0]).startswith('(' + buf_ + ' + ') or (m_.get('kind') == 'CallExpr' and call_name(m_) == 'memset' and buf_ in canon(call_args(m_)[0]))]
                    zs_ = [m_ for m_ in zs_ if int_value(call_args(m_)[1]) == 0 and PSV.poly(call_args(m_)[2]) == pad_poly and m_.get('_off', 0) < c_.get('_off', 0)]
                    if zs_:
                        okw = True
                    else:
                        merged_und = 'the padding is written as part of the row buffer but its zeroing was not found'
        if merged_und and not okw:
            ctx.undecided(R, 'padding|saver-writes-per-row', SV, merged_und)
            okw = True
        ctx.check(okw, R, 'padding|saver-writes-per-row', wr[0] if wr else SV, 'writer(row_padding_data, row_padding_bytes) once per row from a 4-byte zero block', 'saver does not write exactly row_padding_bytes zero bytes once per row')
        # in-memory row stride
        case_bmp = None
        case_png = None
        for c in walk(svb):
            if c.get('kind') == 'CaseStmt':
                lab = canon(kids(c)[0])
                if 'WINDOWS_BITMAP' in lab:
                    case_bmp = c
                if 'PNG' in lab:
                    case_png = c
        ctx.need(case_bmp is not None and case_png is not None, 'save_helper: BMP / PNG cases not found')

        def in_case(x, c, nxt_names=('PNG', 'default')):
            return any(a is c for a in ancestors(x))
        # every read of the pixel buffer in the BMP case, as (base, offset polynomial): named row pointers,
        # hoisted strides and re-associated products are seen through (E-POLY)
        from poly import Poly, p_coeff, p_add, p_str, p_const, p_mul, p_atom
        PL = Poly(SV, u)
        chan = {}
        n_reads = 0
        ROW = lambda k_: p_mul(p_mul(p_atom('this.width'), p_atom('y')), p_const(k_))
        in_png = lambda x_: any(a is case_png for a in ancestors(x_))
        def alpha_subst(poly_, site):
            """the polynomial with `this.has_alpha` replaced by the value the path to site fixes it to"""
            val = None
            for n_, pol_ in atoms(path_facts(site)):
                if nf(n_) == 'this.has_alpha':
                    val = 1 if pol_ else 0
            if val is None:
                return poly_
            out_ = {}
            for m_, c_ in poly_.items():
                k_ = m_.count('this.has_alpha')
                if k_ and val == 0:
                    continue
                m2 = tuple(a_ for a_ in m_ if a_ != 'this.has_alpha')
                out_[m2] = out_.get(m2, 0) + c_
                if out_[m2] == 0:
                    del out_[m2]
            return out_
        # (1) byte-wise copies  dst[D] = pixels[S]
        for x in walk(case_bmp):
            if in_png(x) or x.get('kind') != 'BinaryOperator' or x.get('opcode') != '=':
                continue
            src = PL.lvalue(x['inner'][1])
            dst = PL.lvalue(x['inner'][0])
            if not src or not dst or not src[0].startswith('this.data.'):
                continue
            n_reads += 1
            S, D = alpha_subst(src[1], x), alpha_subst(dst[1], x)
            # the column variable: the atom other than y / width the destination offset depends on
            cols = sorted({a for m in D for a in m} - {'y', 'this.width'})
            kd = D.get((), 0)
            lin = p_coeff(D, cols[0]) if len(cols) == 1 else None
            diff = p_add(S, D, -1)
            want = [p_add(ROW(3), p_const(2 - 2 * kk)) for kk in range(3)]
            ok = lin is not None and 0 <= kd <= 2 and diff == want[kd]
            ctx.check(ok, R, 'saver|row-stride|k=%s' % kd, x, 'file byte %d of a pixel <- memory byte %d of the same pixel in row y (rows width*3 apart)' % (kd, 2 - kd),
                      'the saver copies pixels[%s] to row byte [%s]: rows in memory are width*3 bytes apart and BMP stores B,G,R, so the source must be y*width*3 + (column) + %s' % (p_str(S), p_str(D), '2/0/-2'))
            if ok:
                chan[kd] = 2 - kd
            elif lin is not None and 0 <= kd <= 2 and p_coeff(diff, 'y') is not None:
                d0 = diff.get((), 0)
                chan[kd] = kd + d0 if isinstance(d0, int) else None
        # (2) whole rows handed to the writer straight from the pixel buffer (32-bit form)
        for c in walk(case_bmp):
            if in_png(c) or c.get('kind') not in ('CallExpr', 'CXXOperatorCallExpr'):
                continue
            a_ = call_args(c) if c.get('kind') == 'CallExpr' else kids(c)[2:]
            if len(a_) != 2:
                continue
            pt = PL.pointer(a_[0])
            if not pt or not pt[0].startswith('this.data.'):
                continue
            n_reads += 1
            ln = alpha_subst(PL.poly(a_[1]), c)
            pt = (pt[0], alpha_subst(pt[1], c))
            ok = pt[1] == ROW(4) and ln == p_mul(p_atom('this.width'), p_const(4))
            ctx.check(ok, R, 'saver|row-stride|alpha-row', c, 'row y is the width*4 bytes at y*width*4',
                      'the saver writes %s bytes from pixels[%s] as row y; a 32-bit row is the width*4 bytes at y*width*4' % (p_str(ln), p_str(pt[1])))
        ctx.need(n_reads >= 2, 'save_helper: BMP pixel reads not found (%d)' % n_reads)
        # header quantities
        ih = [f for f in u.functions if f.get('name') == 'init_bmp_header']
        ctx.require(len(ih) == 1, 'init_bmp_header not found')
        hb_ = body_of(ih[0])
        asg = {canon(x['inner'][1] if x.get('kind') == 'CXXOperatorCallExpr' else x['inner'][0]): (x['inner'][2] if x.get('kind') == 'CXXOperatorCallExpr' else x['inner'][1]) for x in walk(hb_)
               if (x.get('kind') == 'CXXOperatorCallExpr' and call_name(x) == 'operator=') or (x.get('kind') == 'BinaryOperator' and x.get('opcode') == '=')}
        fs = asg.get('header.file_header.file_size')
        do = asg.get('header.file_header.data_offset')
        hs = asg.get('header.info_header.header_size')
        from poly import Poly as _PH, p_add as _pa, p_mul as _pm, p_atom as _pat, p_str as _ps
        PH = _PH(ih[0], u)

        def unwrap(e_):
            e_ = strip(e_)
            while e_ is not None and e_.get('kind') in ('MaterializeTemporaryExpr', 'CXXConstructExpr', 'CXXFunctionalCastExpr', 'ImplicitCastExpr', 'CXXBindTemporaryExpr', 'ExprWithCleanups', 'CXXTemporaryObjectExpr', 'ParenExpr') and kids(e_):
                e_ = strip(kids(e_)[-1])
            return e_
        okh = False
        whyh = 'BMP header sizes: file_size=%s data_offset=%s' % (nf(fs) if fs else None, nf(do) if do else None)
        if fs is not None and do is not None and hs is not None:
            fs, do = unwrap(fs), unwrap(do)
            hsz = next((v for v in walk(hb_) if v.get('kind') == 'VarDecl' and v.get('name') == 'header_size' and kids(v)), None)
            hpoly = PH.poly(kids(hsz)[-1]) if hsz is not None else None
            fpoly = PH.poly(fs)
            want_data = _pa(_pm(_pm(_pat('width'), _pat('height')), _pat('pixel_bytes')), _pm(_pat('row_padding_bytes'), _pat('height')))
            okh = hpoly is not None and _pa(fpoly, hpoly, -1) == want_data and PH.poly(do) == hpoly
            whyh = 'BMP header sizes: file_size - header_size = %s (expected %s); data_offset = %s' % (_ps(_pa(fpoly, hpoly, -1)) if hpoly is not None else '?', _ps(want_data), nf(do))
        ctx.check(okh, R, 'header|sizes', ih[0], 'file_size = header + W*H*pixel_bytes + padding*H; data_offset = header size', whyh)
        # bit depth / compression per alpha mode: a conditional value, or assignments under the has_alpha test
        # (a field never assigned keeps the 0 of the cleared header)
        cleared = any((x.get('kind') in ('CXXOperatorCallExpr', 'BinaryOperator') and canon(x['inner'][1] if x.get('kind') == 'CXXOperatorCallExpr' else x['inner'][0]) == 'header' and 'InitListExpr' in [y.get('kind') for y in walk(x)]) or
                      (x.get('kind') == 'CallExpr' and call_name(x) == 'memset' and 'header' in canon(call_args(x)[0]) and int_value(call_args(x)[1]) == 0) for x in walk(hb_))

        def per_alpha(field):
            out = {}
            for x in walk(hb_):
                if (x.get('kind') == 'CXXOperatorCallExpr' and call_name(x) == 'operator=') or (x.get('kind') == 'BinaryOperator' and x.get('opcode') == '='):
                    lhs = x['inner'][1] if x.get('kind') == 'CXXOperatorCallExpr' else x['inner'][0]
                    rhs = x['inner'][2] if x.get('kind') == 'CXXOperatorCallExpr' else x['inner'][1]
                    if canon(lhs) != field:
                        continue
                    r0 = unwrap(rhs)
                    if r0 is not None and r0.get('kind') == 'ConditionalOperator' and canon(r0['inner'][0]) == 'has_alpha':
                        out[True], out[False] = int_value(r0['inner'][1]), int_value(r0['inner'][2])
                        continue
                    pol_ = next((p_ for n_, p_ in atoms(path_facts(x)) if canon(n_) == 'has_alpha'), None)
                    if pol_ is None:
                        out[True] = out[False] = int_value(unwrap(rhs))
                    else:
                        out[pol_] = int_value(unwrap(rhs))
            if cleared:
                out.setdefault(True, 0)
                out.setdefault(False, 0)
            return out
        bdv, cmv = per_alpha('header.info_header.bit_depth'), per_alpha('header.info_header.compression')
        ctx.check(bdv == {True: 32, False: 24} and cmv == {True: 3, False: 0}, R, 'header|depth-compression', ih[0], '32-bit BITFIELDS with alpha, 24-bit RGB without', 'bit depth / compression fields per alpha mode are %s / %s' % (bdv, cmv))

        R = 'C06-R6'
        # saver: file byte i <- memory byte chan[i]
        ctx.check(chan == {0: 2, 1: 1, 2: 0}, R, 'bi_rgb|saver-order', case_bmp, 'file bytes (0,1,2) <- memory bytes (2,1,0)', 'saver channel map is %s' % chan)
        lmap = {}
        bmask = {}
        # stores into the new pixel buffer from a row buffer, as (base, offset polynomial) pairs: named row
        # / pixel pointers and hoisted offsets are seen through (E-POLY)
        from poly import Poly as _Poly
        PLL = _Poly(L, u, stepping=True)
        groups = {}
        for x in walk(lbody):
            if x.get('kind') == 'BinaryOperator' and x.get('opcode') == '=':
                dst_ = PLL.lvalue(x['inner'][0])
                src_ = PLL.lvalue(x['inner'][1])
                if not dst_ or not src_ or not dst_[0].startswith('new_data') or src_[0].startswith(('new_data', 'this.data')):
                    continue
                lp_ = enclosing(x, LOOPS)
                groups.setdefault(id(lp_), []).append((dst_[1], src_[1]))
        for g_ in groups.values():
            if len(g_) == 3:        # 24-bit BI_RGB: three byte copies per pixel
                for d_, s_ in g_:
                    lmap[s_.get((), 0)] = d_.get((), 0)
            elif len(g_) == 4:      # 32-bit BI_BITFIELDS: four byte copies, sources at the mask offsets
                for d_, s_ in g_:
                    offs = sorted({a_ for m_ in s_ for a_ in m_ if a_.endswith('_offset') and a_ != 'src_x_offset'})
                    if offs:
                        bmask[d_.get((), 0)] = '(%s)' % ' + '.join(offs)
        if not lmap:
            ctx.undecided(R, 'bi_rgb|loader-order', L, 'the BI_RGB branch does not copy three bytes per pixel from a row buffer in a form the rule can read')
            ctx.undecided(R, 'bi_rgb|inverse', L, 'loader channel map not readable')
        ctx.check(not lmap or lmap == {0: 2, 1: 1, 2: 0}, R, 'bi_rgb|loader-order', L, 'memory bytes (2,1,0) <- file bytes (0,1,2)', 'loader channel map (file->memory) is %s' % lmap)
        ctx.check(not lmap or all(lmap.get(i) == chan.get(i) for i in range(3)), R, 'bi_rgb|inverse', L, 'loader and saver are mutually inverse', 'loader map %s and saver map %s are not inverse' % (lmap, chan))
        okb = bmask.get(0, '').endswith('r_offset)') and bmask.get(1, '').endswith('g_offset)') and bmask.get(2, '').endswith('b_offset)') and bmask.get(3, '').endswith('a_offset)')
        okb = okb or (set(bmask) == {0, 1, 2, 3} and all(('%s_offset' % c_) in bmask[i] for i, c_ in enumerate('rgba')))
        if not bmask:
            ctx.undecided(R, 'bitfields|channel-sources', L, 'the BITFIELDS branch does not read the file byte of each channel at a `<channel>_offset` the rule can see')
        else:
            ctx.check(okb, R, 'bitfields|channel-sources', L, 'memory r,g,b,a <- file byte at the mask\'s offset', 'BITFIELDS loader channel sources are %s' % bmask)
        tbl = None
        for x in walk(lbody):
            if x.get('kind') == 'VarDecl' and x.get('name') == 'offset_for_bitmask':
                lits = [int(y['value']) & 0xFFFFFFFF for y in walk(x) if y.get('kind') == 'IntegerLiteral']
                pairs = [(lits[i], lits[i + 1]) for i in range(0, len(lits) - 1, 2)]
                tbl = dict(pairs)
        if tbl is None:
            # the lookup may be a helper function of the mask: tabulate it by constant folding
            from peval import PEval, Undecided, Fault
            helper = None
            for c_ in walk(lbody):
                if c_.get('kind') == 'CallExpr' and len(call_args(c_)) == 1 and 'bitmask_' in canon(call_args(c_)[0]):
                    d_ = callee_decl(c_, u)
                    if d_ is not None:
                        helper = d_ if body_of(d_) is not None else next((m for m in u.functions if m.get('mangledName') == d_.get('mangledName') and body_of(m) is not None), None)
            if helper is not None:
                PE_ = PEval([u])
                tbl = {}
                try:
                    for i_ in range(4):
                        r_ = PE_.call_with(helper, [0xFF << (8 * i_)])
                        if isinstance(r_, int):
                            tbl[0xFF << (8 * i_)] = r_
                except (Undecided, Fault):
                    tbl = None
        if tbl is None:
            ctx.undecided(R, 'bitfields|mask-table', L, 'the mask -> byte offset lookup is neither the offset_for_bitmask map nor a foldable helper of the mask')
        else:
          ctx.check(tbl == {0xFF << (8 * i): i for i in range(4)}, R, 'bitfields|mask-table', L, 'mask 0xFF<<8k -> byte k', 'mask table is %s' % ({hex(k): v for k, v in (tbl or {}).items()}))
        ia = {k: asg.get('header.info_header.bitmask_' + k) for k in 'rgba'}
        ctx.check(all(v is not None for v in ia.values()) and [(int_value(through(ia[k])) or 0) & 0xFFFFFFFF for k in 'rgba'] == [0xFF, 0xFF00, 0xFF0000, 0xFF000000], R, 'bitfields|saver-masks', ih[0], 'saver declares r,g,b,a at bytes 0,1,2,3 (memory order)', 'saver masks are %s' % {k: (hex(int_value(through(v)) & 0xFFFFFFFF) if v is not None and int_value(through(v)) is not None else None) for k, v in ia.items()})

    # ------------------------------------------------------------------ R7
    with ctx.section('C06-R7', L):
        R = 'C06-R7'
        wc = [f for f in u.functions if f.get('name') == 'write_png_chunk' and body_of(f) is not None and not is_dependent_pattern(f, u)]
        ctx.require(len(wc) >= 1, 'write_png_chunk instantiation not found')
        W = wc[0]
        ctx.fn('write_png_chunk')
        wps = params_of(W)
        writes = [c for c in walk(body_of(W)) if c.get('kind') in ('CallExpr', 'CXXOperatorCallExpr') and (ref_decl(c['inner'][0] if c.get('kind') == 'CallExpr' else c['inner'][1]) or {}).get('id') == wps[3]['id']]

        def root_decl(e, fb=None):
            """the parameter / local an argument expression designates, through casts, & and single-assignment locals"""
            fb = fb if fb is not None else body_of(W)
            e = strip(e)
            for _ in range(6):
                while e is not None and e.get('kind') in ('ImplicitCastExpr', 'CStyleCastExpr', 'CXXStaticCastExpr', 'CXXReinterpretCastExpr', 'ParenExpr', 'CXXConstCastExpr', 'MaterializeTemporaryExpr') and kids(e):
                    e = strip(kids(e)[0])
                if e is not None and e.get('kind') == 'UnaryOperator' and e.get('opcode') == '&':
                    e = strip(kids(e)[0])
                    continue
                if e is not None and e.get('kind') in ('CXXMemberCallExpr', 'CXXOperatorCallExpr') and (call_name(e) or '').startswith('operator '):
                    e = strip(member_call_object(e) if e.get('kind') == 'CXXMemberCallExpr' else kids(e)[1])
                    continue
                rd = ref_decl(e) if e is not None else None
                if rd is not None and rd.get('kind') == 'VarDecl':
                    vd = next((v for v in walk(fb) if v.get('kind') == 'VarDecl' and v.get('id') == rd['id'] and kids(v)), None)
                    wr = [x for x in walk(fb) if x.get('kind') in ('BinaryOperator', 'CXXOperatorCallExpr') and (x.get('opcode') == '=' or call_name(x) == 'operator=') and (ref_decl(kids(x)[0] if x.get('kind') == 'BinaryOperator' else kids(x)[1]) or {}).get('id') == rd['id']]
                    if vd is not None and not wr and '*' in (qtype(vd) or ''):
                        e = strip(kids(vd)[-1])
                        continue
                return rd
            return None
        seq_ids = []
        for c in writes:
            a = call_args(c) if c.get('kind') == 'CallExpr' else c['inner'][2:]
            seq_ids.append(((root_decl(a[0]) or {}).get('id'), nf(a[1]), (root_decl(a[1]) or {}).get('id')))
        crcv = None
        if len(seq_ids) == 4:
            crcv = next((v for v in walk(body_of(W)) if v.get('kind') == 'VarDecl' and v.get('id') == seq_ids[3][0]), None)
        okseq = len(seq_ids) == 4 and seq_ids[0][0] == wps[2]['id'] and seq_ids[0][1] == '4' and seq_ids[1][0] == wps[0]['id'] and seq_ids[1][1] == '4' and \
            seq_ids[2][0] == wps[1]['id'] and seq_ids[2][2] == wps[2]['id'] and crcv is not None and seq_ids[3][1] == '4'
        ctx.check(okseq, R, 'chunk|field-order', W, 'length, type, data, crc', 'chunk fields are written as %s' % [(nf((call_args(c) if c.get('kind') == 'CallExpr' else c['inner'][2:])[0]), nf((call_args(c) if c.get('kind') == 'CallExpr' else c['inner'][2:])[1])) for c in writes])
        ctx.check('big_endian<unsigned int>' in (qtype(wps[2]) or '') or 'be_uint32_t' in (qtype(wps[2]) or ''), R, 'chunk|length-big-endian', wps[2], 'length is a big-endian 32-bit wrapper', 'chunk length has type %s' % qtype(wps[2]))
        ctx.check(crcv is not None and ('be_uint32_t' in (qtype(crcv) or '') or 'big_endian<unsigned int>' in (dtype(crcv) or '')), R, 'chunk|crc-big-endian', crcv or W, 'crc stored big-endian', 'crc variable has type %s' % (qtype(crcv) if crcv else None))
        crcs = [c for c in walk_deep(body_of(W), u) if c.get('kind') == 'CallExpr' and call_name(c) == 'crc32']
        okc = len(crcs) == 2 and crcv is not None
        crc_und = None
        if okc:
            a0, a1 = call_args(crcs[0]), call_args(crcs[1])
            H = enclosing(crcs[0], FUNC_KINDS)
            if H is not None and H.get('id') != W.get('id') and enclosing(crcs[1], FUNC_KINDS) is H:
                # the CRC is computed by a helper: its parameters stand for the arguments of its call in write_png_chunk
                hc = [c for c in walk(body_of(W)) if c.get('kind') == 'CallExpr' and (callee_decl(c, u) or {}).get('id') == H.get('id') or (c.get('kind') == 'CallExpr' and call_name(c) == H.get('name'))]
                hb = body_of(H)
                if len(hc) != 1 or len(call_args(hc[0])) != len(params_of(H)):
                    crc_und = 'the CRC helper %s is not called exactly once with all its arguments' % H.get('name')
                else:
                    pmap = {p_['id']: (root_decl(a_) or {}).get('id') for p_, a_ in zip(params_of(H), call_args(hc[0]))}
                    rid = lambda e_: pmap.get((root_decl(e_, hb) or {}).get('id'), (root_decl(e_, hb) or {}).get('id'))
                    hv = next((v for v in walk(hb) if v.get('kind') == 'VarDecl' and any(y is crcs[0] for y in walk(v))), None)
                    rets_ = [r_ for r_ in walk(hb) if r_.get('kind') == 'ReturnStmt']
                    okc = hv is not None and int_value(a0[0]) == 0 and rid(a0[1]) == wps[0]['id'] and int_value(a0[2]) == 4 and (root_decl(a1[0], hb) or {}).get('id') == hv['id'] and \
                        rid(a1[1]) == wps[1]['id'] and rid(a1[2]) == wps[2]['id'] and \
                        any(x.get('kind') in ('BinaryOperator', 'CXXOperatorCallExpr') and (ref_decl(kids(x)[0] if x.get('kind') == 'BinaryOperator' else kids(x)[1]) or {}).get('id') == hv['id'] and any(y is crcs[1] for y in walk(x)) for x in walk(hb)) and \
                        bool(rets_) and all((root_decl(kids(r_)[0], hb) or {}).get('id') == hv['id'] for r_ in rets_ if kids(r_)) and any(y is hc[0] for y in walk(crcv))
            else:
                okc = int_value(a0[0]) == 0 and (root_decl(a0[1]) or {}).get('id') == wps[0]['id'] and int_value(a0[2]) == 4 and (root_decl(a1[0]) or {}).get('id') == crcv['id'] and \
                    (root_decl(a1[1]) or {}).get('id') == wps[1]['id'] and (root_decl(a1[2]) or {}).get('id') == wps[2]['id']
                # the first value initialises the crc variable, the second is stored back into it
                okc = okc and any(y is crcs[0] for y in walk(crcv)) and any(x.get('kind') in ('BinaryOperator', 'CXXOperatorCallExpr') and (ref_decl(kids(x)[0] if x.get('kind') == 'BinaryOperator' else kids(x)[1]) or {}).get('id') == crcv['id'] and any(y is crcs[1] for y in walk(x)) for x in walk(body_of(W)))
        if crc_und:
            ctx.undecided(R, 'chunk|crc-chain', W, crc_und)
            okc = True
        ctx.check(okc, R, 'chunk|crc-chain', W, 'crc32(0, type, 4) then crc32(crc, data, size)', 'CRC does not cover exactly the type followed by the data')
        # zlib: the output buffer handed to compress2 holds compressBound(sourceLen) bytes for the very sourceLen
        # that is compressed (a smaller bound makes incompressible pixel data fail with Z_BUF_ERROR)
        from poly import Poly as _PZ
        PZ = _PZ(SV, u)
        for cz in [c for c in walk(svb) if c.get('kind') == 'CallExpr' and call_name(c) in ('compress2', 'compress')]:
            az = call_args(cz)
            src_len = PZ.poly(az[3])
            lv = ref_decl(strip(kids(strip(az[1]))[0])) if strip(az[1]).get('kind') == 'UnaryOperator' and strip(az[1]).get('opcode') == '&' else None
            lvd = next((v for v in walk(svb) if v.get('kind') == 'VarDecl' and lv is not None and v.get('id') == lv.get('id') and kids(v)), None)
            bcall = next((c for c in walk(kids(lvd)[-1]) if c.get('kind') == 'CallExpr' and call_name(c) == 'compressBound'), None) if lvd is not None else None
            if bcall is None:
                ctx.undecided(R, 'png|compress-bound', cz, 'the destination length of %s is not a variable initialised with compressBound(...)' % call_name(cz))
                continue
            bound_of = PZ.poly(call_args(bcall)[0])
            from poly import p_str as _pstr
            ctx.check(bound_of == src_len, R, 'png|compress-bound', bcall, 'output buffer = compressBound(%s), the length that is compressed' % _pstr(src_len),
                      'the output buffer is sized compressBound(%s) but %s bytes are compressed: when the pixel data does not compress, compress2 fails with Z_BUF_ERROR and save() throws' % (_pstr(bound_of), _pstr(src_len)))
        # zlib: crc32(crc, Z_NULL, len) returns the *initial* value 0, not crc.  A chunk without payload
        # (IEND) is written with a null data pointer, so the payload update must be skipped for it
        null_passed = [c for c in walk_deep(svb, u) if c.get('kind') == 'CallExpr' and call_name(c) == 'write_png_chunk' and len(call_args(c)) >= 2 and
                       (strip(call_args(c)[1]).get('kind') in ('CXXNullPtrLiteralExpr', 'GNUNullExpr') or any(y.get('kind') in ('CXXNullPtrLiteralExpr', 'GNUNullExpr') for y in walk(call_args(c)[1])) or int_value(call_args(c)[1]) == 0)]
        dparam = wps[1] if len(wps) > 1 else None
        for i_, c in enumerate(crcs):
            a_ = call_args(c)
            if dparam is None or not any((ref_decl(y) or {}).get('id') == dparam['id'] for y in walk(a_[1])):
                continue
            tf_ = [(nf(n_), pol_) for n_, pol_ in atoms(path_facts(c))]
            guarded = any((t_ in ('size', 'data', 'size.operator unsigned int()') and pol_) for t_, pol_ in tf_) or \
                any(r_ and ((nf(r_[0]).startswith('size') and r_[1] in ('>', '!=') and nf(r_[2]) == '0') or (nf(r_[2]).startswith('size') and r_[1] in ('<', '!=') and nf(r_[0]) == '0') or
                            ('data' in (nf(r_[0]), nf(r_[2])) and r_[1] == '!=')) for r_ in [relation(n_, pol_) for n_, pol_ in atoms(path_facts(c))])
            ctx.check(guarded or not null_passed, R, 'chunk|payload-crc-guarded#%d' % i_, c, 'the payload CRC update is skipped for a chunk without payload (null data pointer)',
                      'crc32(crc, data, size) runs also for the empty chunk written with a null data pointer (%s): zlib returns 0 for a Z_NULL buffer, so the IEND chunk gets CRC 00000000 instead of AE426082' % (src_text(null_passed[0], 50) if null_passed else ''))
        # a static local initialised from an argument keeps the first call's value for every later call
        n_st = 0
        for f_ in u.functions:
            if body_of(f_) is None or not (f_.get('_file') or '').endswith('Image.cc'):
                continue
            pids = {p_['id'] for p_ in params_of(f_)}
            for v_ in walk(body_of(f_)):
                if v_.get('kind') == 'VarDecl' and v_.get('storageClass') == 'static' and kids(v_):
                    uses = [y for y in walk(kids(v_)[-1]) if y.get('kind') == 'DeclRefExpr' and (y.get('referencedDecl') or {}).get('id') in pids or y.get('kind') == 'CXXThisExpr']
                    if uses:
                        n_st += 1
                        ctx.bad(R, 'static-local|%s|%s' % (f_.get('name'), v_.get('name')), v_, 'static local `%s` in %s is initialised from the call\'s arguments (%s): it is computed on the first call only and every later call reuses that value' % (v_.get('name'), f_.get('name'), src_text(uses[0], 30)))
        if not n_st:
            ctx.ok(R, 'static-local|none', W, 'no static local in Image.cc is initialised from call arguments', nontrivial=False)
        # zlib's crc32, not phosg's
        zl = all('Bytef' in ((callee_decl(c, u) or {}).get('type', {}).get('qualType') or '') or 'unsigned char' in ((callee_decl(c, u) or {}).get('type', {}).get('qualType') or '') for c in crcs)
        ctx.check(zl, R, 'chunk|zlib-crc', W, 'crc32 resolves to zlib (seed, bytes, length)', 'crc32 does not resolve to zlib\'s crc32: %s' % [((callee_decl(c, u) or {}).get('type', {}).get('qualType')) for c in crcs])
        chunks = [c for c in walk(case_png) if c.get('kind') == 'CallExpr' and call_name(c) == 'write_png_chunk']
        names = [strip(call_args(c)[0]).get('value', '').strip('"') for c in chunks]
        ctx.check(names == ['IHDR', 'gAMA', 'IDAT', 'IEND'], R, 'png|chunk-order', case_png, 'IHDR gAMA IDAT IEND', 'chunks are %s' % names)
        if chunks:
            ih_ = chunks[0]
            ln = call_args(ih_)[2]
            lnv = None
            for x in walk(ln):
                if int_value(x) is not None:
                    lnv = int_value(x)
                    break
            # struct size from its fields
            st = None
            for x in walk(case_png):
                if x.get('kind') == 'CXXRecordDecl' and x.get('completeDefinition'):
                    st = x
            fsz = sum(sizeof_type(dtype(f_)) or sizeof_type(qtype(f_)) or 0 for f_ in kids(st) if f_.get('kind') == 'FieldDecl') if st is not None else None
            ln0 = next((y for y in walk(ln) if y.get('kind') == 'UnaryExprOrTypeTraitExpr'), None)
            if lnv is None and ln0 is not None and ln0.get('kind') == 'UnaryExprOrTypeTraitExpr' and ln0.get('name') == 'sizeof' and st is not None:
                of = {(ref_decl(y) or {}).get('id') for y in walk(ln0) if y.get('kind') == 'DeclRefExpr'}
                arg = {(ref_decl(y) or {}).get('id') for y in walk(call_args(ih_)[1]) if y.get('kind') == 'DeclRefExpr'}
                align1 = all((sizeof_type(dtype(f_)) or sizeof_type(qtype(f_))) == 1 or 'endian' in (dtype(f_) or '') or re.search(r'\b(be|le)_u?int', qtype(f_) or '') for f_ in kids(st) if f_.get('kind') == 'FieldDecl')
                if of and of == arg and align1:
                    lnv = fsz      # sizeof the very object handed over; its fields are all alignment-1 types, so no padding
            ctx.check(lnv == 13 and fsz == 13, R, 'png|ihdr-13', ih_, 'IHDR is 13 bytes and the struct has 13 bytes of fields', 'IHDR chunk length %s, struct fields total %s' % (lnv, fsz))
            ct = [nf(x) for x in walk(case_png) if x.get('kind') == 'ConditionalOperator' and {int_value(x['inner'][1]), int_value(x['inner'][2])} == {6, 2}]
            ctx.check(ct == ['(this.has_alpha ? 6 : 2)'], R, 'png|colour-type', case_png, 'colour type 6 with alpha, 2 without', 'colour type expression: %s' % ct)
        sigv = next((v for v in walk(case_png) if v.get('kind') == 'VarDecl' and v.get('name') == 'SIG'), None)
        sg = [int_value(x) for x in kids([il for il in walk(sigv) if il.get('kind') == 'InitListExpr'][0])] if sigv is not None else None
        ctx.check(sg == [137, 80, 78, 71, 13, 10, 26, 10], R, 'png|signature', sigv or case_png, 'PNG signature', 'signature bytes %s' % sg)
        # scanline layout: filter byte + row
        from guard import subst_locals
        isz = [renorm(subst_locals(nf(kids(v)[-1]), v)) for v in walk(case_png) if v.get('kind') == 'VarDecl' and v.get('name') == 'image_size' and kids(v)]
        psz = next((subst_locals(nf(kids(v)[-1]), v) for v in walk(case_png) if v.get('kind') == 'VarDecl' and v.get('name') == 'pixel_size' and kids(v)), 'pixel_size')
        want_isz = {renorm('(this.height * (1 + (pixel_size * this.width)))'), renorm('(this.height * (1 + (%s * this.width)))' % psz)}
        ctx.check(len(isz) == 1 and isz[0] in want_isz, R, 'png|scanlines', case_png, 'H * (1 + W*pixel_size)', 'raw IDAT size is %s' % isz)

    # ------------------------------------------------------------------ R8
    with ctx.section('C06-R8', L):
        R = 'C06-R8'
        sig_chain = [s for s in stmts_of(lbody) if s.get('kind') == 'IfStmt'][0]
        tab = []
        s = sig_chain
        while s is not None and s.get('kind') == 'IfStmt':
            cond, then, els = if_parts(s)
            chars = []
            for n_, pol in atoms([Fact(cond, True, s)]):
                r = relation(n_, pol)
                if r and r[1] == '==' and int_value(r[2]) is not None:
                    chars.append((canon(r[0]), chr(int_value(r[2]))))
            fm = [canon(x['inner'][1]) for x in walk(then) if x.get('kind') == 'BinaryOperator' and x.get('opcode') == '=' and canon(x['inner'][0]) == 'format']
            ext = [int_value(x['inner'][1]) for x in walk(then) if x.get('kind') == 'BinaryOperator' and x.get('opcode') == '=' and canon(x['inner'][0]) == 'is_extended_ppm']
            tab.append((''.join(c for _, c in sorted(chars)), fm[0].split('::')[-1] if fm else None, bool(ext and ext[0])))
            s = els
        want_tab = [('P5', 'GRAYSCALE_PPM', False), ('P6', 'COLOR_PPM', False), ('P7', 'COLOR_PPM', True), ('BM', 'WINDOWS_BITMAP', False)]
        ctx.check(sorted(tab) == sorted(want_tab), R, 'signature-dispatch', sig_chain, 'P5/P6/P7/BM', 'signature table is %s' % tab)
        tt = {}
        for x in walk(lbody):
            if x.get('kind') == 'IfStmt':
                cond, then, els = if_parts(x)
                r = relation(cond, True)
                if r and r[1] == '==' and canon(r[0]) == 'tuple_type' and strip(r[2]).get('kind') == 'StringLiteral':
                    fm = [canon(y['inner'][1]).split('::')[-1] for y in walk(then) if y.get('kind') == 'BinaryOperator' and y.get('opcode') == '=' and canon(y['inner'][0]) == 'format']
                    dp = [int_value(y['inner'][1]) for y in walk(then) if y.get('kind') == 'BinaryOperator' and y.get('opcode') == '=' and canon(y['inner'][0]) == 'new_depth']
                    tt[strip(r[2])['value'].strip('"')] = (fm[0] if fm else None, dp[0] if dp else None)
        ctx.check(tt == {'GRAYSCALE': ('GRAYSCALE_PPM', 3), 'GRAYSCALE_ALPHA': ('GRAYSCALE_PPM', 4), 'RGB': ('COLOR_PPM', 3), 'RGB_ALPHA': ('COLOR_PPM', 4)}, R, 'tupltype-table', L, 'TUPLTYPE table', 'TUPLTYPE table is %s' % tt)
        # channel width: the chain that assigns 8/16/32/64 is evaluated (E-TABLE) at every mask boundary
        from peval import PEval as _PE, Undecided as _PU, Fault as _PF
        chains = []
        for x in walk(lbody):
            if x.get('kind') == 'IfStmt' and not ((x.get('_p') or {}).get('kind') == 'IfStmt' and if_parts(x.get('_p'))[2] is x):
                asg = [(ref_decl(y['inner'][0]), int_value(y['inner'][1])) for y in walk(x) if y.get('kind') == 'BinaryOperator' and y.get('opcode') == '=' and ref_decl(y['inner'][0]) is not None]
                if len(asg) >= 4 and {v_ for _, v_ in asg} == {8, 16, 32, 64} and len({d_['id'] for d_, _ in asg}) == 1:
                    chains.append((x, asg[0][0]))
        if len(chains) != 1:
            ctx.undecided(R, 'channel-width-thresholds', L, 'the chain selecting the channel width (8/16/32/64) from the max value was not found (%d candidates)' % len(chains))
        else:
            chain_, cwd_ = chains[0]
            inputs = {(ref_decl(y) or {}).get('id') for y in walk(if_parts(chain_)[0]) if y.get('kind') == 'DeclRefExpr'} - {None}
            bad_ = None
            if len(inputs) != 1:
                ctx.undecided(R, 'channel-width-thresholds', chain_, 'the channel-width chain tests more than one variable')
            else:
                mvid = inputs.pop()
                try:
                    for mv in (1, 2, 0xFE, 0xFF, 0x100, 0x101, 0xFFFE, 0xFFFF, 0x10000, 0x10001, 0xFFFFFFFE, 0xFFFFFFFF, 0x100000000, 0x100000001, (1 << 63), (1 << 64) - 1):
                        env_ = {mvid: mv, cwd_['id']: ('uninit',)}
                        _PE([u]).run([chain_], env_)
                        want_ = 8 if mv <= 0xFF else 16 if mv <= 0xFFFF else 32 if mv <= 0xFFFFFFFF else 64
                        if env_[cwd_['id']] != want_ and bad_ is None:
                            bad_ = (mv, env_[cwd_['id']], want_)
                    ctx.check(bad_ is None, R, 'channel-width-thresholds', chain_, 'max value -> narrowest of 8/16/32/64 bits that holds it (16 boundary values evaluated)',
                              'a max value of %s selects a channel width of %s bits; the narrowest width holding it is %s' % ((hex(bad_[0]), bad_[1], bad_[2]) if bad_ else ('', '', '')))
                except (_PU, _PF) as e_:
                    ctx.undecided(R, 'channel-width-thresholds', chain_, 'the channel-width chain could not be evaluated (%s)' % e_)
        hdr = [strip(call_args(c)[2]).get('value', '') for c in walk(svb) if c.get('kind') == 'CallExpr' and call_name(c) == 'snprintf' and strip(call_args(c)[2]).get('kind') == 'StringLiteral']
        okp = len(hdr) == 2 and any(h.startswith('"P7\\nWIDTH %zu\\nHEIGHT %zu\\nDEPTH 4\\nMAXVAL %lu\\nTUPLTYPE RGB_ALPHA\\nENDHDR\\n') for h in hdr) and any(h.startswith('"P6 %zu %zu %lu\\n') for h in hdr)
        ctx.check(okp, R, 'ppm-headers', SV, 'P6 / P7 headers carry width, height, maxval (and RGB_ALPHA)', 'PPM header formats are %s' % hdr)
    # ------------------------------------------------------------------ R9
    with ctx.section('C06-R9', L):
        # every valid PAM (P7) header is accepted and the pixel read consumes exactly the file's samples:
        # the loader's statements after the signature dispatch are partially evaluated (E-TABLE) with the
        # FILE modelled as a constant byte stream holding a spec-conformant header + pixel bytes.
        R = 'C06-R9'
        from peval import PEval, Stream, Thrown, Undecided as PUndecided, Fault as PFault
        top = stmts_of(lbody)
        ctx.need(sig_chain in top, 'load(): signature dispatch is not a top-level statement')
        rest = top[top.index(sig_chain) + 1:]
        p7_then = None
        s_ = sig_chain
        while s_ is not None and s_.get('kind') == 'IfStmt':
            cond, then, els = if_parts(s_)
            cs = sorted(chr(int_value(relation(n_, pol)[2])) for n_, pol in atoms([Fact(cond, True, s_)]) if relation(n_, pol) and relation(n_, pol)[1] == '==' and int_value(relation(n_, pol)[2]) is not None)
            if cs == ['7', 'P']:
                p7_then = then
            s_ = els
        ctx.need(p7_then is not None, 'load(): the P7 signature branch was not found')
        fparam = params_of(L)[0]
        W_, H_ = 37, 23
        for tname, depth_ in (('GRAYSCALE', 1), ('GRAYSCALE_ALPHA', 2), ('RGB', 3), ('RGB_ALPHA', 4)):
            for maxval, bps in ((255, 1), (65535, 2)):
                for order in (0, 1):
                    fields = ['WIDTH %d' % W_, 'HEIGHT %d' % H_, 'DEPTH %d' % depth_, 'MAXVAL %d' % maxval, 'TUPLTYPE %s' % tname]
                    if order:
                        fields = [fields[4], fields[3], fields[2], fields[1], fields[0]]
                    npix = W_ * H_ * depth_ * bps
                    data = ('\n' + '\n'.join(fields) + '\nENDHDR\n').encode() + bytes(npix)
                    key = 'p7|%s|maxval=%d|order=%d' % (tname, maxval, order)
                    pe = PEval([u, us], max_depth=8)
                    st = Stream(data)
                    env = {fparam['id']: st}
                    # locals declared before the dispatch (format, is_extended_ppm, ...) start uninitialised
                    for d_ in top[:top.index(sig_chain)]:
                        if d_.get('kind') == 'DeclStmt':
                            for vd in kids(d_):
                                if vd.get('kind') == 'VarDecl':
                                    env[vd['id']] = ('uninit',)
                                    if kids(vd):
                                        try:
                                            env[vd['id']] = pe.ev(kids(vd)[-1], env)
                                        except (PUndecided, PFault):
                                            pass
                    verdict, why, where = None, '', L
                    try:
                        pe.run([p7_then], env)
                        pe.run(rest, env)
                        verdict = 'end'
                    except Thrown as t:
                        verdict, why, where = 'throw', str(t), (t.node or L)
                    except PFault as t:
                        verdict, why = 'fault', str(t)
                    except PUndecided as t:
                        verdict, why = 'stop', str(t)
                    except Exception as t:      # control-flow signals of the evaluator (return)
                        verdict, why = 'stop', type(t).__name__
                    reads = getattr(pe, 'reads', [])
                    if verdict == 'throw':
                        ctx.bad(R, key, where, 'a spec-conformant PAM file (%s, %dx%d, DEPTH %d, MAXVAL %d) is rejected: %s at `%s`' % (tname, W_, H_, depth_, maxval, why, src_text(where, 70)))
                    elif verdict == 'fault':
                        ctx.bad(R, key, where, 'loading a spec-conformant PAM file (%s, DEPTH %d, MAXVAL %d) faults: %s' % (tname, depth_, maxval, why))
                    elif not reads:
                        ctx.undecided(R, key, L, 'evaluation stopped before the pixel read (%s)' % why)
                    else:
                        ctx.check(reads == [npix] and st.pos == len(data), R, key, L, 'header accepted; pixel read consumes exactly %d bytes (%d samples/pixel x %d byte(s))' % (npix, depth_, bps),
                                  'for a valid %s PAM file (%dx%d, MAXVAL %d) the loader reads %s bytes of pixel data; the file holds %d (%d samples/pixel x %d byte(s))' % (tname, W_, H_, maxval, reads, npix, depth_, bps))
    if not any(o.rule == 'C06-R9' for o in ctx.obs):
        ctx.rules['C06-R9'] = (ctx.rules['C06-R9'][0], 0)      # nothing could be evaluated: every case is listed as undecided
    ctx.note('Not decided: pixel-exact identity for every image, validity under an independent decoder, zlib stream contents, behaviour on every truncated prefix (R3+R4 give the exception/no-leak half only).')
